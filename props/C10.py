"""C10 extra tasks: bounded stand-ins for the interleaved codes (uie/sie: string-built encoder, outside the prover),
self-delimiting streams and the whole-bitstring property; plus a native cross-check of the proved ue/se contracts."""
import random

META = {'explanation': 'ue/se encoders and decoders and the interleaved (uie/sie) decoders are proved for all integers / all bit contents with loop '
                       'invariants; the uie/sie encoders (string-built) and stream concatenation are bounded stand-ins on the real functions; the stream and '
                       'token-list readers run with generated codes of up to 401 bits.'}
EXTRA_TASKS = ['bounded_codes', 'creation_routes_isolation']


def ref_ue(i):
    x = i + 1
    k = x.bit_length() - 1
    return '0' * k + '1' + (format(x - (1 << k), f'0{k}b') if k else '')


def ref_se(i):
    return ref_ue(2 * i - 1 if i > 0 else -2 * i)


def ref_uie(i):
    # Dirac interleaved exp-Golomb: for each bit b of (i+1) below the leading one emit '0' b, then a final '1'
    x = i + 1
    out = ''
    for b in bin(x)[3:]:
        out += '0' + b
    return out + '1'


def ref_sie(i):
    if i == 0:
        return '1'
    return ref_uie(abs(i)) + ('1' if i < 0 else '0')


def bounded_codes(tier='quick', seed=0):
    import bitstring
    from bitstring import Bits, BitStream, ConstBitStream
    rng = random.Random(seed)
    fails = []
    evals = 0
    lim = 4096 if tier == 'quick' else 40000
    nums = list(range(-lim, lim + 1)) + [rng.randrange(-2 ** 200, 2 ** 200) for _ in range(300 if tier == 'quick' else 3000)]
    refs = {'ue': ref_ue, 'se': ref_se, 'uie': ref_uie, 'sie': ref_sie}
    for name, ref in refs.items():
        for i in nums:
            evals += 1
            if name in ('ue', 'uie') and i < 0:
                try:
                    Bits(**{name: i})
                    fails.append({'call': f'Bits({name}={i})', 'observed': 'accepted', 'expected': 'CreationError'})
                except ValueError:
                    pass
                continue
            try:
                b = Bits(**{name: i})
                ok = b.bin == ref(i) and getattr(b, name) == i
            except Exception as e:
                ok = False
            if not ok:
                fails.append({'call': f'Bits({name}={i})', 'expected': ref(i)[:80]})
                if len(fails) > 5:
                    break
    # every creation route of a code gives the same codeword -- 0 (the one-bit codeword '1') included
    from bitstring import pack, BitArray, Dtype
    for name, ref in refs.items():
        for v in [0, 1, 2, 5, 100] + ([-1, -2, -100] if name in ('se', 'sie') else []):
            evals += 1
            want = ref(v)
            routes = {'keyword': lambda: Bits(**{name: v}).bin, 'format string': lambda: Bits(f'{name}={v}').bin, 'pack positional': lambda: pack(name, v).bin,
                      'pack keyword value': lambda: pack(f'{name}=n', n=v).bin, 'pack mixed': lambda: pack(f'{name}=a, {name}', v, a=v).bin[:len(want)],
                      'property': lambda: (lambda x: (setattr(x, name, v), x.bin)[1])(BitArray()), 'Dtype.build': lambda: Dtype(name).build(v).bin}
            for rn, f in routes.items():
                try:
                    got = f()
                except Exception as e:
                    got = type(e).__name__
                if got != want:
                    fails.append({'call': f'{rn} of {name}={v}', 'observed': got[:40], 'expected': want[:40],
                                  'python': f"import bitstring\ntry:\n    FAILS = bitstring.pack('{name}=n', n={v}).bin != '{want}' or bitstring.Bits({name}={v}).bin != '{want}'\nexcept Exception:\n    FAILS = True\n"})
    # self-delimiting streams: concatenations read back one codeword at a time
    for _ in range(400 if tier == 'quick' else 4000):
        names = [rng.choice(list(refs)) for _ in range(rng.randint(1, 6))]
        vals = [rng.randint(0, 300) if n in ('ue', 'uie') else rng.randint(-300, 300) for n in names]
        s = BitStream().join([Bits(**{n: v}) for n, v in zip(names, vals)])
        s = BitStream(s)
        pos = 0
        evals += 1
        for n, v in zip(names, vals):
            got = s.read(n)
            pos += len(refs[n](v))
            if got != v or s.pos != pos:
                fails.append({'call': f'stream of {list(zip(names, vals))}', 'observed': (got, s.pos), 'expected': (v, pos)})
                break
        if list(s.unpack(', '.join(names))) != vals:
            fails.append({'call': f'unpack {names}', 'expected': vals})
    # every short bit string as decoder input: value + exact length, or ReadError with pos unchanged; truncated -> error
    maxlen = 12 if tier == 'quick' else 15
    for L in range(0, maxlen + 1):
        for x in range(1 << L):
            bits = format(x, f'0{L}b') if L else ''
            for name, ref in refs.items():
                evals += 1
                s = ConstBitStream(bin=bits) if bits else ConstBitStream()
                try:
                    v = s.read(name)
                    code = ref(v)
                    if not bits.startswith(code) or s.pos != len(code):
                        fails.append({'call': f"ConstBitStream(bin='{bits}').read('{name}')", 'observed': (v, s.pos)})
                except bitstring.ReadError:
                    if s.pos != 0:
                        fails.append({'call': f"ConstBitStream(bin='{bits}').read('{name}')", 'observed': 'pos moved on ReadError'})
                    # no codeword may be a prefix of the data
                    if any(bits.startswith(ref(v)) for v in range(0, 70)) or (name in ('se', 'sie') and any(bits.startswith(ref(-v)) for v in range(1, 70))):
                        fails.append({'call': f"ConstBitStream(bin='{bits}').read('{name}')", 'observed': 'ReadError although a codeword is present'})
                except Exception as e:
                    fails.append({'call': f"ConstBitStream(bin='{bits}').read('{name}')", 'observed': type(e).__name__})
                # the list routes have no second position check of their own: same value and position, or ReadError with pos unchanged
                for route in ('readlist', 'peeklist', 'unpack'):
                    s2 = ConstBitStream(bin=bits) if bits else ConstBitStream()
                    try:
                        vv = getattr(s2, route)(name)
                        code = ref(vv[0])
                        okr = len(vv) == 1 and bits.startswith(code) and s2.pos == (len(code) if route == 'readlist' else 0)
                        if not okr:
                            fails.append({'call': f"ConstBitStream(bin='{bits}').{route}('{name}')", 'observed': (vv, s2.pos),
                                          'python': f"import bitstring\ns = bitstring.ConstBitStream(bin='{bits}')\ntry:\n    s.{route}('{name}')\n    FAILS = True\nexcept bitstring.ReadError:\n    FAILS = s.pos != 0\n" if not bits.startswith(code) else "FAILS = True"})
                    except bitstring.ReadError:
                        if s2.pos != 0:
                            fails.append({'call': f"ConstBitStream(bin='{bits}').{route}('{name}')", 'observed': 'pos moved on ReadError'})
                    except Exception as e:
                        fails.append({'call': f"ConstBitStream(bin='{bits}').{route}('{name}')", 'observed': type(e).__name__})
                # whole-bitstring property accepts exactly one codeword
                try:
                    v = getattr(Bits(bin=bits) if bits else Bits(), name)
                    if ref(v) != bits:
                        fails.append({'call': f"Bits(bin='{bits}').{name}", 'observed': v, 'expected': 'InterpretError (extra bits)'})
                except ValueError:
                    pass
                except Exception as e:
                    fails.append({'call': f"Bits(bin='{bits}').{name}", 'observed': type(e).__name__})
            if len(fails) > 8:
                break
    wit = [dict(f, python=f.get('python') or f"FAILS = True  # {f['call']}") for f in fails[:3]]
    return {'id': 'C10.bounded', 'obligations': [], 'evaluations': evals,
            'bounded': [{'id': 'C10/uie-sie-streams-bounded', 'function': 'uie2bitstore/sie2bitstore/_readuie/_readsie/read/unpack',
                         'bound': f'integers in [-{lim}, {lim}] + random to 2^200; every bit string of length <= {maxlen} as decoder input; random streams of <= 6 codes',
                         'evaluations': evals, 'failures': wit}],
            'summary': f'{evals} native evaluations, {len(fails)} failures'}


def creation_routes_isolation(tier='quick', seed=0):
    """(shared with C04) a Golomb code handed to a mutable bitstring is its own: changing that object in place must not change what the same value encodes to afterwards"""
    from props import C04
    r = C04.dtype_routes_isolation(tier, seed, only=('ue', 'se', 'uie', 'sie'))
    for b in r.get('bounded', []):
        b['id'] = b['id'].replace('C04/', 'C10/')
    r['id'] = 'C10.isolation'
    return r
