"""C08 (construction routes), C15 (offset/length beyond the source), C17 (read-back of a bit window)."""
from pyvc.contract import contract, Shape, INLINE
from pyvc import sym, spec
from pyvc.sym import lor, lnot, land, ite
from pyvc.spec import bits, mk_bits, sub, mk_store
from pyvc.shapes import m_bits, r_bits
from pyvc.extern import BA, BBytes, SymBytes
from pyvc.interp import Obj
from pyvc import files
from .common import *

_lo_combos = opt_combos(['length', 'offset'])
_TMP = None


def _unset(interp, cls='Bits'):
    return Obj(interp.get_module('bitstring').ns[cls])


def _window_spec(C, nbits, src_bit, length, offset, cls_obj, target):
    """the selected window source[offset : offset + length], CreationError when it is not inside the source"""
    off = 0 if offset is None else offset
    if sym.truth(off < 0):
        C.throw('ValueError')
    if length is None:
        if sym.truth(off > nbits):
            C.throw('ValueError')
        ln = nbits - off
    else:
        ln = length
        if sym.truth(lor(ln < 0, off + ln > nbits)):
            C.throw('ValueError')
    target.attrs['_bitstore'] = mk_store(C, BA(ln, lambda i: src_bit(off + i)))
    return None


def _bytes_shapes():
    out = []
    for kind in ('bytes', 'bytearray'):
        for d in _lo_combos:
            def build(S, interp, kind=kind, d=d):
                v = S.view('data')
                S.assume(sym.eq(v.n % 8, 0))
                data = SymBytes(v.n // 8 if not isinstance(v.n, int) else v.n // 8, v.bit, kind)
                return [_unset(interp), data, mk_opt(S, 'length', d['length']), mk_opt(S, 'offset', d['offset'])], {}

            def real(vals, kind=kind, d=d):
                import bitstring, bitarray
                b = bitarray.bitarray([int(x) for x in vals['data']]).tobytes()
                if kind == 'bytearray':
                    b = bytearray(b)
                return [object.__new__(bitstring.Bits), b, rv(vals, 'length', d['length']), rv(vals, 'offset', d['offset'])], {}
            out.append(Shape(f'{kind}/{cname(d)}', build, real))
    return out


@contract('bits.Bits._setbytes_with_truncation', shapes=_bytes_shapes(), props={'C15', 'C08', 'C17'}, kind='public', observe_args='on_return',
          note="Bits(bytes=b, length=n, offset=k): exactly the bit window b[k:k+n] (n defaulting to the rest); CreationError when "
               "k < 0, n < 0 or the window runs past the data; the caller's buffer is not retained")
def setbytes_spec(C, self, data, length=None, offset=None):
    bb = data.as_bbytes()
    return _window_spec(C, bb.nbytes * 8, bb.bit, length, offset, None, self)


def _ba_shapes():
    out = []
    for d in _lo_combos:
        def build(S, interp, d=d):
            return [_unset(interp), S.view('ba'), mk_opt(S, 'length', d['length']), mk_opt(S, 'offset', d['offset'])], {}

        def real(vals, d=d):
            import bitstring, bitarray
            return [object.__new__(bitstring.Bits), bitarray.bitarray([int(x) for x in vals['ba']]),
                    rv(vals, 'length', d['length']), rv(vals, 'offset', d['offset'])], {}
        out.append(Shape(cname(d), build, real))
    return out


@contract('bits.Bits._setbitarray', shapes=_ba_shapes(), props={'C15', 'C08', 'C04'}, kind='public', observe_args='on_return',
          note="Bits(bitarray=ba, length=n, offset=k): the window ba[k:k+n] in a fresh buffer; CreationError for k < 0, n < 0 "
               "or a window past the end")
def setbitarray_spec(C, self, ba, length, offset):
    return _window_spec(C, ba.n, ba.bit, length, offset, None, self)


# ---- files ----------------------------------------------------------------------------------------------
def _file_shapes():
    out = []
    for d in _lo_combos:
        def build(S, interp, d=d):
            v = S.view('file')
            S.assume(land(sym.eq(v.n % 8, 0), v.n > 0))
            fs = files.FileSystem()
            fs.files['f.bin'] = (v.n // 8, v.bit)
            interp.fs = fs
            return [_unset(interp), 'f.bin', mk_opt(S, 'length', d['length']), mk_opt(S, 'offset', d['offset'])], {}

        def real(vals, d=d):
            import bitstring, bitarray, tempfile, os, atexit, shutil
            global _TMP
            if _TMP is None:
                _TMP = tempfile.mkdtemp(prefix='pyvc-files-')
                atexit.register(shutil.rmtree, _TMP, True)
            p = os.path.join(_TMP, 'f.bin')
            with open(p, 'wb') as fh:
                fh.write(bitarray.bitarray([int(x) for x in vals['file']]).tobytes())
            return [object.__new__(bitstring.Bits), p, rv(vals, 'length', d['length']), rv(vals, 'offset', d['offset'])], {}
        out.append(Shape(cname(d), build, real))
    return out


@contract('bits.Bits._setfile', shapes=_file_shapes(), props={'C15', 'C08', 'C17'}, kind='public', observe_args='on_return',
          note="Bits(filename=f, length=n, offset=k): logical content is the window file[k:k+n]; CreationError when the window "
               "is not inside the file (mmap/open are trusted: the mapped content is the file's bytes)")
def setfile_spec(C, self, filename, length=None, offset=None):
    nbytes, bit = C.interp.fs.files[filename]
    r = _window_spec(C, nbytes * 8, bit, length, offset, None, self)
    return r


def _bytesio_shapes():
    out = []
    for d in _lo_combos:
        if d['length'] is None and d['offset'] is None:
            continue

        def build(S, interp, d=d):
            v = S.view('data')
            S.assume(sym.eq(v.n % 8, 0))
            io = files.BytesIOModel(v.n // 8, v.bit)
            return [_unset(interp), io, mk_opt(S, 'length', d['length']), mk_opt(S, 'offset', d['offset'])], {}

        def real(vals, d=d):
            import bitstring, bitarray, io
            b = bitarray.bitarray([int(x) for x in vals['data']]).tobytes()
            return [object.__new__(bitstring.Bits), io.BytesIO(b), rv(vals, 'length', d['length']), rv(vals, 'offset', d['offset'])], {}
        out.append(Shape('BytesIO/' + cname(d), build, real))
    return out


@contract('bits.Bits._setauto', shapes=_bytesio_shapes(), props={'C15', 'C08', 'C17'}, kind='public', observe_args='on_return',
          note="Bits(BytesIO(b), length=n, offset=k): the window b[k:k+n]; CreationError when it is not inside the data")
def setauto_spec(C, self, s, length, offset):
    if not isinstance(s, files.BytesIOModel):
        return INLINE
    return _window_spec(C, s.nbytes * 8, s.bit, length, offset, None, self)


@contract('bitstore.BitStore.frombuffer', shapes=[], props=set(), kind='internal', note='(inlined)')
def _frombuffer(C, *a, **k):
    return INLINE
