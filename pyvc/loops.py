"""Loop invariants (the unbounded route for loops).

A sidecar registers, per (function qualname, loop ordinal), an invariant over the loop's locals (and, where the
loop writes the heap, a havoc function for the heap cells it may write).  The handler then generates the three
usual obligations instead of unrolling:

  init       the invariant holds on entry                                   (side obligation on the entry path)
  preserved  from an arbitrary state satisfying invariant and guard, one execution of the real body
             re-establishes the invariant                                     (its own path, which then ends)
  use        after the loop only `invariant and not guard` is known            (the continuing path)

The set of locals the body assigns is computed from the AST; they are havocked (fresh symbols).  Heap writes in
the body are checked against the declared `heap` list through the interpreter's write log (a frame obligation).
"""
import ast
import z3
from .sym import Unsupported
from . import sym
from .sym import SInt, SBool, is_sym
from .interp import _Break, _Continue, PyRaise

REGISTRY = {}      # (qualname, ordinal) -> LoopSpec


class LoopSpec:
    def __init__(self, qualname, ordinal, inv, havoc_heap=None, note='', int_vars=None, bool_vars=None, keep=None):
        self.qualname, self.ordinal, self.inv = qualname, ordinal, inv
        self.havoc_heap = havoc_heap
        self.note = note
        self.int_vars = int_vars
        self.bool_vars = bool_vars or []
        self.keep = keep or []
        REGISTRY[(qualname, ordinal)] = self


def loop_invariant(qualname, ordinal, **kw):
    def deco(fn):
        LoopSpec(qualname, ordinal, fn, **kw)
        return fn
    return deco


def fresh_view(c, prefix='h'):
    """a havocked bit view: fresh length and content; every index at which it is read is noted, so that quantified
    invariants about it are instantiated exactly there (array-property style saturation)"""
    from .extern import BA
    n = SInt(c.fresh_int(prefix + '.n'))
    f = c.fresh_fun(prefix)
    c.assume(n >= 0)

    def bit(i):
        t = sym._int_t(i)
        sym.note_index(t)
        return sym.mk_bool(f(t))
    return BA(n, bit)


class PathDone(Exception):
    """the inductive-step path ends here (its obligations have been recorded)"""


def assigned_names(stmts):
    out = set()
    for s in stmts:
        for n in ast.walk(s):
            if isinstance(n, ast.Name) and isinstance(n.ctx, ast.Store):
                out.add(n.id)
            elif isinstance(n, ast.AugAssign) and isinstance(n.target, ast.Name):
                out.add(n.target.id)
    return out


class L:
    """view of the loop state handed to invariants: L.v('name') current value, L.old('name') value at loop entry"""

    def __init__(self, frame, entry, assuming=False):
        self.frame = frame
        self.entry = entry
        self.assuming = assuming     # True when the invariant is being assumed (hints may be registered)

    def v(self, name):
        if name not in self.frame.locals:
            # the loop was rewritten (a local renamed or removed): the invariant no longer describes it -> undecided, not an error
            raise Unsupported(f"the loop invariant refers to the local '{name}', which this loop no longer has")
        return self.frame.locals[name]

    def old(self, name):
        if name not in self.entry:
            raise Unsupported(f"the loop invariant refers to the entry value of '{name}', which this loop no longer has")
        return self.entry[name]

    def has(self, name):
        return name in self.frame.locals

    def forall(self, fn):
        """(forall i. fn(i)) -- instantiated on demand when the invariant is assumed, skolemised when it is a goal;
        fn maps a z3 Int term to a bool/SBool"""
        if self.assuming:
            sym.forall_hyp(lambda t: sym._b(fn(SInt(t))))
            return True
        return sym.forall_goal(lambda t: fn(SInt(t)))


def install(interp):
    for key, ls in REGISTRY.items():
        interp.loop_handlers[key] = make_handler(ls)


def make_handler(ls):
    def handler(interp, node, frame):
        if not sym.have_ctx():
            # concrete execution (replay / conformance): just run the loop
            yield from (interp._while(node, frame, None) if isinstance(node, ast.While) else interp._for(node, frame, None))
            return
        c = sym.ctx()
        if not isinstance(node, ast.While):
            raise sym.Unsupported("loop invariants are implemented for while loops")
        entry = dict(frame.locals)
        tag = f'{ls.qualname}#loop{ls.ordinal}'
        # 1. init
        g = ls.inv(L(frame, entry))
        r, m = c.valid(g, final=True)
        c.side_obligations.append((f'loop-init:{tag}', r, m))
        # 2. havoc
        names = sorted(assigned_names(node.body) - set(ls.keep))
        for nm in names:
            if nm not in frame.locals:
                continue
            cur = frame.locals[nm]
            if nm in ls.bool_vars or isinstance(cur, (bool, SBool)):
                frame.locals[nm] = SBool(c.fresh_bool(nm))
            elif sym.is_intlike(cur):
                frame.locals[nm] = SInt(c.fresh_int(nm))
            else:
                raise sym.Unsupported(f"loop {tag}: cannot havoc local {nm} of type {type(cur).__name__}")
        if ls.havoc_heap is not None:
            ls.havoc_heap(interp, L(frame, entry), c)
        c.assume(ls.inv(L(frame, entry, assuming=True)))
        # 3. fork: inductive step / exit
        step = c.branch(c.fresh_bool('loop_step'))
        test = interp.eval(node.test, frame)
        if step:
            if not interp.truthy(test):
                raise sym.Infeasible()
            log_before = interp.write_log
            interp.write_log = []
            try:
                try:
                    yield from interp.exec_block(node.body, frame)
                except _Continue:
                    pass
                except _Break:
                    interp.write_log = log_before
                    return                      # the path continues after the loop
            finally:
                writes = interp.write_log if isinstance(interp.write_log, list) else []
                interp.write_log = log_before
            g2 = ls.inv(L(frame, entry))
            r, m = c.valid(g2, final=True)
            if r != 'unsat':
                c.side_obligations.append((f'loop-preserved:{tag}', r, m))
            else:
                c.side_obligations.append((f'loop-preserved:{tag}', 'unsat', None))
            if ls.havoc_heap is None and any(w[0] in ('ba', 'attr') for w in writes):
                c.side_obligations.append((f'loop-frame:{tag}', 'sat', None))
            raise PathDone()
        if interp.truthy(test):
            raise sym.Infeasible()
        yield from interp.exec_block(node.orelse, frame)
    return handler
