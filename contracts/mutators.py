"""C03 (+C06 position effects): in-place mutators of BitArray / BitStream equal their sequence-level
specification; nothing outside the addressed range moves; a rejected call leaves the content as it was."""
from pyvc.contract import contract, Shape, INLINE
from pyvc import sym, spec, ints
from pyvc.sym import lor, lnot, land, ite, smin, smax
from pyvc.spec import bits, mk_bits, cat, sub, splice, rev, zeros
from pyvc.shapes import m_bits, r_bits
from pyvc.extern import BA, _sel2b, _sel, _sel2, _not
from .common import *
from .bits_seq import _self_shapes, _operand_shapes
from .bits_ops import _set_bits


def window(C, V, start, end):
    """_validate_slice: negative values offset by len, None -> 0 / len; ValueError unless 0 <= s <= e <= len"""
    n = V.n
    s = 0 if start is None else ite(start < 0, start + n, start)
    e = n if end is None else ite(end < 0, end + n, end)
    if sym.truth(lnot(land(0 <= s, s <= e, e <= n))):
        C.throw('ValueError')
    return s, e


_se_combos = opt_combos(['start', 'end'])
_se_args = (lambda S, interp, d, self_: [mk_opt(S, 'start', d['start']), mk_opt(S, 'end', d['end'])],
            lambda v, d, self_: [rv(v, 'start', d['start']), rv(v, 'end', d['end'])])


@contract('bits.Bits._validate_slice', shapes=_self_shapes(*_se_args, combos=_se_combos, states=SELF_STATES),
          props={'C03', 'C07', 'C20'}, kind='internal',
          note="(start, end) as non-negative positions; ValueError unless 0 <= start <= end <= len")
def validate_slice(C, self, start, end):
    return window(C, bits(self), start, end)


def _pos_after(self, newpos):
    if '_pos' in self.attrs:
        self.attrs['_pos'] = newpos


# ---- append / prepend / += -----------------------------------------------------------------
def _append_shapes(fn_states, operands=OPERANDS):
    return _operand_shapes(fn_states, operands)


@contract('bitarray_.BitArray.append', shapes=_append_shapes([('BitArray', 'plain')]), props={'C03'}, kind='public',
          note="a.append(t): a holds old bits followed by bits(t) (t may be a itself); t unchanged")
def ba_append(C, self, bs):
    _set_bits(C, self, cat(bits(self), promote_bits(C, bs)))
    return None


@contract('bitstream.ConstBitStream.append', shapes=_append_shapes([('BitStream', 'plain')]), props={'C03', 'C06'}, kind='public',
          note="s.append(t) on a BitStream: content as BitArray.append, pos moves to the end")
def stream_append(C, self, bs):
    V = cat(bits(self), promote_bits(C, bs))
    _set_bits(C, self, V)
    _pos_after(self, V.n)
    return None


@contract('bitarray_.BitArray.__iadd__', shapes=_append_shapes([('BitArray', 'plain')]), props={'C03'}, kind='public',
          note="a += t appends in place and returns a")
def ba_iadd(C, self, bs):
    _set_bits(C, self, cat(bits(self), promote_bits(C, bs)))
    return self


@contract('bitstream.BitStream.__iadd__', shapes=_append_shapes([('BitStream', 'plain')]), props={'C03', 'C06'}, kind='public',
          note="s += t appends in place, returns s, pos moves to the end")
def stream_iadd(C, self, bs):
    V = cat(bits(self), promote_bits(C, bs))
    _set_bits(C, self, V)
    _pos_after(self, V.n)
    return self


@contract('bitarray_.BitArray.prepend', shapes=_append_shapes([('BitArray', 'plain')]), props={'C03'}, kind='public',
          note="a.prepend(t): bits(t) followed by the old bits")
def ba_prepend(C, self, bs):
    _set_bits(C, self, cat(promote_bits(C, bs), bits(self)))
    return None


@contract('bitstream.BitStream.prepend', shapes=_append_shapes([('BitStream', 'plain')]), props={'C03', 'C06'}, kind='public',
          note="s.prepend(t): content as BitArray.prepend, pos reset to 0")
def stream_prepend(C, self, bs):
    _set_bits(C, self, cat(promote_bits(C, bs), bits(self)))
    _pos_after(self, 0)
    return None


# ---- insert / overwrite ----------------------------------------------------------------------
def _bs_pos_shapes(states, operands, pos_kinds=('int',)):
    out = []
    for cls, st in states:
        for k in operands:
            for pk in pos_kinds:
                def build(S, interp, cls=cls, st=st, k=k, pk=pk):
                    o = m_bits(S, interp, 'self', cls, st)
                    return [o, m_operand(S, interp, 'bs', k, o), mk_opt(S, 'p', None if pk is None else 'int')], {}

                def real(vals, cls=cls, st=st, k=k, pk=pk):
                    o = r_bits(vals, 'self', cls, st)
                    return [o, r_operand(vals, 'bs', k, o), rv(vals, 'p', pk)], {}
                out.append(Shape(f'{cls}/{st}/{opname(k)}/pos={pk}', build, real))
    return out


def _insert_core(C, self, bs, pos, stream):
    V, W = bits(self), promote_bits(C, bs)
    if sym.truth(sym.eq(W.n, 0)):
        return None
    if pos is None:
        pos = self.attrs['_pos']
    p = ite(pos < 0, pos + V.n, pos)
    if sym.truth(lor(p < 0, p > V.n)):
        C.throw('ValueError')
    _set_bits(C, self, splice(V, p, p, W))
    if stream:
        _pos_after(self, p + W.n)
    return None


@contract('bitarray_.BitArray.insert', shapes=_bs_pos_shapes([('BitArray', 'plain')], OPERANDS), props={'C03'}, kind='public',
          note="a.insert(t, pos): old[:pos] + t + old[pos:] (negative pos from the end); ValueError outside [0, len] "
               "leaving a unchanged; empty t is a no-op")
def ba_insert(C, self, bs, pos):
    return _insert_core(C, self, bs, pos, False)


@contract('bitstream.BitStream.insert', shapes=_bs_pos_shapes([('BitStream', 'plain')], OPERANDS, ('int', None)),
          props={'C03', 'C06'}, kind='public',
          note="as BitArray.insert with pos defaulting to the current position; afterwards pos = insert position + len(t)")
def stream_insert(C, self, bs, pos=None):
    return _insert_core(C, self, bs, pos, True)


def _overwrite_core(C, self, bs, pos, stream):
    V, W = bits(self), promote_bits(C, bs)
    if sym.truth(sym.eq(W.n, 0)):
        return None
    if pos is None:
        pos = self.attrs['_pos']
    p = ite(pos < 0, pos + V.n, pos)
    if sym.truth(lor(p < 0, p > V.n)):
        C.throw('ValueError')
    hi = smin(p + W.n, V.n)
    _set_bits(C, self, splice(V, p, hi, W))
    if stream:
        _pos_after(self, p + W.n)
    return None


@contract('bitarray_.BitArray.overwrite', shapes=_bs_pos_shapes([('BitArray', 'plain')], OPERANDS), props={'C03'}, kind='public',
          note="a.overwrite(t, pos): old[:pos] + t + old[pos+len(t):] (extends a when t runs past the end); "
               "ValueError outside [0, len]; also for t is a")
def ba_overwrite(C, self, bs, pos):
    return _overwrite_core(C, self, bs, pos, False)


@contract('bitstream.ConstBitStream.overwrite', shapes=_bs_pos_shapes([('BitStream', 'plain')], OPERANDS, ('int', None)),
          props={'C03', 'C06'}, kind='public',
          note="as BitArray.overwrite with pos defaulting to the current position; afterwards pos = position + len(t)")
def stream_overwrite(C, self, bs, pos=None):
    return _overwrite_core(C, self, bs, pos, True)


# ---- deletion --------------------------------------------------------------------------------
_key_combos = [{'key': 'index'}] + [dict(d, key='slice') for d in opt_combos(['start', 'stop', 'step'], 'step')]
from .bits_seq import _mk_key, _r_key


def _del_view(C, V, key):
    tmp = BA(V.n, V.bit)
    tmp.pyvc_delitem(C.interp, key)        # list semantics of deletion (the assumed contract of a bit list)
    return tmp


def _delitem_spec(stream):
    def f(C, self, key):
        V = bits(self)
        W = _del_view(C, V, key)
        _set_bits(C, self, W)
        if stream and sym.truth(lnot(sym.eq(W.n, V.n))):
            _pos_after(self, 0)
        return None
    return f


contract('bitarray_.BitArray.__delitem__', shapes=_self_shapes(_mk_key, _r_key, _key_combos, states=[('BitArray', 'plain')]),
         props={'C03'}, kind='public',
         note="del a[k]: list deletion of the selected bits (any step); IndexError for an out-of-range index")(_delitem_spec(False))
contract('bitstream.BitStream.__delitem__', shapes=_self_shapes(_mk_key, _r_key, _key_combos, states=[('BitStream', 'plain')]),
         props={'C03', 'C06'}, kind='public',
         note="as BitArray.__delitem__; pos is reset to 0 iff the length changed")(_delitem_spec(True))


# ---- reverse / rotate / clear ------------------------------------------------------------------
@contract('bitarray_.BitArray.reverse', shapes=_self_shapes(*_se_args, combos=_se_combos, states=MUT_STATES), props={'C03', 'C06'},
          kind='public', note="reverse(start, end): bits of [start, end) reversed, everything else and the length unchanged; "
                              "ValueError for an invalid range; a stream's pos is not moved")
def ba_reverse(C, self, start=None, end=None):
    V = bits(self)
    s, e = window(C, V, start, end)
    a = V.bit
    _set_bits(C, self, BA(V.n, lambda i: _sel2(land(i >= s, i < e), a, s + e - 1 - i, a, i)))
    return None


_rot_combos = opt_combos(['start', 'end'])
_rot_args = (lambda S, interp, d, self_: [S.int('bits'), mk_opt(S, 'start', d['start']), mk_opt(S, 'end', d['end'])],
             lambda v, d, self_: [v['bits'], rv(v, 'start', d['start']), rv(v, 'end', d['end'])])


def _rot_spec(right):
    def f(C, self, nbits, start=None, end=None):
        V = bits(self)
        if sym.truth(sym.eq(V.n, 0)):
            C.throw('Error')
        if sym.truth(nbits < 0):
            C.throw('ValueError')
        s, e = window(C, V, start, end)
        if sym.truth(sym.eq(s, e)):
            return None                      # nothing to rotate
        w = e - s
        k = nbits % w
        a = V.bit
        if right:
            # new[s + j] = old[s + (j - k) mod w]
            src = lambda i: s + ite(i - s - k < 0, i - s - k + w, i - s - k)
        else:
            src = lambda i: s + ite(i - s + k >= w, i - s + k - w, i - s + k)
        _set_bits(C, self, BA(V.n, lambda i: _sel2(land(i >= s, i < e), a, src(i), a, i)))
        return None
    return f


contract('bitarray_.BitArray.ror', shapes=_self_shapes(*_rot_args, combos=_rot_combos, states=MUT_STATES), props={'C03', 'C06', 'C20'},
         kind='public', note="ror(bits, start, end): [start, end) rotated right by bits mod (end-start), rest unchanged; "
                             "Error if empty, ValueError for bits < 0 or an invalid range; an empty range is a no-op")(_rot_spec(True))
contract('bitarray_.BitArray.rol', shapes=_self_shapes(*_rot_args, combos=_rot_combos, states=MUT_STATES), props={'C03', 'C06', 'C20'},
         kind='public', note="rol: as ror, rotating left")(_rot_spec(False))


@contract('bitarray_.BitArray.clear', shapes=_self_shapes(states=MUT_STATES), props={'C03', 'C06'}, kind='public',
          note="clear(): empty content; a stream's pos becomes 0")
def ba_clear(C, self):
    _set_bits(C, self, zeros(0))
    _pos_after(self, 0)
    return None


# ---- set / invert with a single position or all bits ----------------------------------------------
_pos_combos = [{'pos': None}, {'pos': 'int'}]
_val_pos_args = (lambda S, interp, d, self_: [S.bool('value'), mk_opt(S, 'p', d['pos'])],
                 lambda v, d, self_: [v['value'], rv(v, 'p', d['pos'])])


@contract('bitarray_.BitArray.set', shapes=_self_shapes(*_val_pos_args, combos=_pos_combos, states=MUT_STATES), props={'C03'},
          kind='public', note="set(value, pos): bit pos (negative from the end) becomes bool(value), others unchanged; "
                              "IndexError outside [-len, len); pos None sets every bit")
def ba_set(C, self, value, pos=None):
    V = bits(self)
    a = V.bit
    if pos is None:
        if sym.truth(sym.eq(V.n, 0)):
            C.throw('ValueError')          # documented behaviour of the int initialiser on an empty bitstring
        _set_bits(C, self, BA(V.n, lambda i: value))
        return None
    p = ite(pos < 0, pos + V.n, pos)
    if sym.truth(lor(p < 0, p >= V.n)):
        C.throw('IndexError')
    _set_bits(C, self, BA(V.n, lambda i: _sel(sym.eq(i, p), value, a(i))))
    return None


_inv_args = (lambda S, interp, d, self_: [mk_opt(S, 'p', d['pos'])], lambda v, d, self_: [rv(v, 'p', d['pos'])])


@contract('bitarray_.BitArray.invert', shapes=_self_shapes(*_inv_args, combos=_pos_combos, states=MUT_STATES), props={'C03'},
          kind='public', note="invert(pos): bit pos flipped, others unchanged; IndexError outside [-len, len); None flips all")
def ba_invert(C, self, pos=None):
    V = bits(self)
    a = V.bit
    if pos is None:
        _set_bits(C, self, BA(V.n, lambda i: _not(a(i))))
        return None
    p = ite(pos < 0, pos + V.n, pos)
    if sym.truth(lor(p < 0, p >= V.n)):
        C.throw('IndexError')
    _set_bits(C, self, BA(V.n, lambda i: _sel(sym.eq(i, p), _not(a(i)), a(i))))
    return None


# ---- item and slice assignment ---------------------------------------------------------------------------------------
def _setitem_shapes(states):
    out = []
    keys = [{'key': 'index'}] + [dict(d, key='slice') for d in opt_combos(['start', 'stop', 'step'], 'step')]
    vals = [('obj', 'Bits', 'immutable'), ('self',), ('str',), ('int',)]
    for cls, st in states:
        for d in keys:
            for vk in vals:
                if vk == ('int',) and d['key'] == 'slice' and d['step'] not in (None,):
                    continue          # integer with a step goes through set(): bounded (loop over a range)
                def build(S, interp, cls=cls, st=st, d=d, vk=vk):
                    o = m_bits(S, interp, 'self', cls, st)
                    k = _mk_key(S, interp, d, o)[0]
                    v = S.int('v') if vk == ('int',) else m_operand(S, interp, 'val', vk, o)
                    return [o, k, v], {}

                def real(vals_, cls=cls, st=st, d=d, vk=vk):
                    o = r_bits(vals_, 'self', cls, st)
                    k = _r_key(vals_, d, o)[0]
                    v = vals_['v'] if vk == ('int',) else r_operand(vals_, 'val', vk, o)
                    return [o, k, v], {}
                out.append(Shape(f'{cls}/{cname(d)}/{opname(vk)}', build, real))
    return out


def _setitem_spec(stream):
    from .values import enc_int

    def f(C, self, key, value):
        V = bits(self)
        n = V.n
        if isinstance(key, slice):
            if sym.is_intlike(value):
                # an integer is stored as the unsigned (>= 0) or two's-complement (< 0) value of the slice's length
                first, count, step = spec.pyslice(C, n, key.start, key.stop, None)
                W = enc_int(C, value, count, bool(sym.truth(value < 0)))
            else:
                W = promote_bits(C, value)
            tmp = BA(V.n, V.bit)
            tmp.pyvc_setitem(C.interp, key, BA(W.n, W.bit))      # list semantics of slice assignment (assumed contract of a bit list)
            R = tmp
        else:
            if sym.is_intlike(value):
                if sym.truth(lnot(lor(sym.eq(value, 0), sym.eq(value, 1), sym.eq(value, -1)))):
                    C.throw('ValueError')
                j = ite(key < 0, key + n, key)
                if sym.truth(lor(j < 0, j >= n)):
                    C.throw('IndexError')
                b = lnot(sym.eq(value, 0))
                a = V.bit
                R = BA(n, lambda i: _sel(sym.eq(i, j), b, a(i)))
            else:
                W = promote_bits(C, value)
                j = ite(key < 0, key + n, key)
                if sym.truth(lor(j < 0, j >= n)):
                    C.throw('IndexError')
                R = splice(V, j, j + 1, W)
        _set_bits(C, self, R)
        if stream and sym.truth(lnot(sym.eq(R.n, n))):
            _pos_after(self, 0)
        return None
    return f


contract('bitarray_.BitArray.__setitem__', shapes=_setitem_shapes([('BitArray', 'plain')]), props={'C03'}, kind='public',
         note="a[k] = v: list semantics -- a step-1 slice is spliced (the length may change), an extended slice is replaced "
              "element-wise (sizes must match), a single index is replaced by the bits of v (or by the bit 0/1 for an int); an integer "
              "assigned to a slice is stored in the slice's length; IndexError / ValueError leave a unchanged")(_setitem_spec(False))
contract('bitstream.BitStream.__setitem__', shapes=_setitem_shapes([('BitStream', 'plain')]), props={'C03', 'C06'}, kind='public',
         note="as BitArray.__setitem__; pos is reset to 0 iff the length changed")(_setitem_spec(True))


# ---- set / invert with several positions (a list of symbolic positions, or a range) -----------------------------------------
from pyvc.interp import SRange


def _multi_pos_shapes(states, with_value):
    out = []
    kinds = [('list', 0), ('list', 1), ('list', 2), ('list', 3), ('range', 'pos', 'inside'), ('range', 'neg', 'inside'), ('range', 'any', 'any')]
    for cls, st in states:
        for kind in kinds:
            def build(S, interp, cls=cls, st=st, kind=kind):
                o = m_bits(S, interp, 'self', cls, st)
                if kind[0] == 'list':
                    pos = [S.int(f'p{i}') for i in range(kind[1])]
                else:
                    a, b, c = S.int('ra'), S.int('rb'), S.int('rc')
                    if kind[1] == 'any':
                        S.assume(lnot(sym.eq(c, 0)))
                    else:
                        S.assume(c > 0 if kind[1] == 'pos' else c < 0)
                    pos = SRange(a, b, c)
                    if kind[2] == 'inside':
                        # a non-empty range all of whose positions are valid non-negative indices (the fast path)
                        n = bits(o).n
                        cnt = interp.call(interp.builtins['len'], [pos], {})
                        last = a + (cnt - 1) * c
                        S.assume(land(cnt > 0, a >= 0, a < n, last >= 0, last < n))
                return ([o, S.bool('value'), pos] if with_value else [o, pos]), {}

            def real(vals, cls=cls, st=st, kind=kind):
                o = r_bits(vals, 'self', cls, st)
                pos = [vals[f'p{i}'] for i in range(kind[1])] if kind[0] == 'list' else range(vals['ra'], vals['rb'], vals['rc'])
                return ([o, vals['value'], pos] if with_value else [o, pos]), {}

            def gen(rng, cls=cls, kind=kind):
                n = rng.randint(0, 24)
                v = {'self': [rng.random() < 0.5 for _ in range(n)], 'ra': rng.randint(-n - 3, n + 3), 'rb': rng.randint(-n - 3, n + 3),
                     'rc': rng.choice([1, 1, 2, 3, 7, -1, -1, -2, -5]), 'value': rng.random() < 0.5}
                if cls == 'BitStream':
                    v['self.pos'] = rng.randint(0, n)
                return v
            loops = kind[0] == 'range' and (kind[2] == 'any' or not with_value)
            hard = kind[0] == 'range'       # nonlinear with a symbolic step: load-sensitive
            out.append(Shape(f'{cls}/' + '-'.join(str(x) for x in kind), build, real, gen=gen if kind[0] == 'range' and kind[2] == 'any' else None,
                             stable=not (loops or hard), bounded_only=loops, timeout_ms=5000 if hard else None))
    return out


def _positions(C, pos):
    """the positions an iterable denotes, in order: a list of values, or (first, count, step) for a range"""
    if isinstance(pos, SRange):
        cnt = C.interp.call(C.interp.builtins['len'], [pos], {})
        return ('range', pos.start, cnt, pos.step)
    return ('list', list(pos))


def _apply_positions(C, self, pos, f):
    """apply bit -> f(bit) at every position in order; an out-of-range position raises IndexError after the earlier ones were applied"""
    V = bits(self)
    n = V.n
    P = _positions(C, pos)
    cur = BA(V.n, V.bit)
    if P[0] == 'range' and not sym.have_ctx() and all(isinstance(x, int) for x in P[1:]) and P[2] <= 64:
        # concrete evaluation (replay, bounded stand-in): a range is the list of its positions, applied one by one -- which also
        # fixes what happens when some position is out of range (the earlier ones are applied, then IndexError) or named twice
        P = ('list', list(range(P[1], P[1] + P[2] * P[3], P[3])))
    if P[0] == 'list':
        for p in P[1]:
            j = ite(p < 0, p + n, p)
            if sym.truth(lor(j < 0, j >= n)):
                _set_bits(C, self, cur)
                C.throw('IndexError')
            a = cur.bit
            cur = BA(n, lambda i, a=a, j=j: (lambda old: _sel(sym.eq(i, j), f(old), old))(a(i)))     # (a(i) once: the views nest)
        _set_bits(C, self, cur)
        return None
    _, first, cnt, step = P
    # every position of the range must be a valid index (negative ones count from the end)
    last = first + (cnt - 1) * step
    if sym.truth(cnt > 0):
        lo, hi = (first, last) if sym.truth(step > 0) else (last, first)
        if sym.truth(lor(lo < -n, hi >= n)):
            raise sym.Unsupported("range with an out-of-range position: which prefix is applied is left to the bounded stand-in")
        if sym.truth(land(lo < 0, hi >= 0)):
            raise sym.Unsupported("range straddling zero may name a position twice: left to the bounded stand-in")
        a = V.bit

        def newbit(i):
            # i is selected iff i (or i - n) is first + t*step for some 0 <= t < cnt
            def sel(x):
                q, r = sym.floordiv_mod(x - first, step)
                return land(sym.eq(r, 0), q >= 0, q < cnt)
            return _sel(lor(sel(i), sel(i - n)), f(a(i)), a(i))
        _set_bits(C, self, BA(n, newbit))
    return None


@contract('bitarray_.BitArray.set@positions', target='bitarray_.BitArray.set', shapes=_multi_pos_shapes(MUT_STATES, True),
          props={'C03'}, kind='public',
          note="set(value, positions): every listed position (negative from the end) becomes bool(value), nothing else changes; a range "
               "means the positions it contains; an out-of-range position raises IndexError after the earlier positions were applied")
def ba_set_positions(C, self, value, pos):
    return _apply_positions(C, self, pos, lambda b: value)


@contract('bitarray_.BitArray.invert@positions', target='bitarray_.BitArray.invert', shapes=_multi_pos_shapes(MUT_STATES, False),
          props={'C03'}, kind='public',
          note="invert(positions): every listed position is flipped once per occurrence; IndexError for an out-of-range position "
               "after the earlier ones were applied")
def ba_invert_positions(C, self, pos):
    return _apply_positions(C, self, pos, lambda b: _not(b))


# ---- byteswap (nested loops over patterns: bounded stand-in) -------------------------------------------------------------------
def _byteswap_shapes():
    out = []
    for cls, st in MUT_STATES:
        def build(S, interp, cls=cls, st=st):
            return [m_bits(S, interp, 'self', cls, st), S.raw('fmt'), mk_opt(S, 'start', 'int'), mk_opt(S, 'end', 'int'), S.bool('repeat')], {}

        def real(vals, cls=cls, st=st):
            return [r_bits(vals, 'self', cls, st), vals['fmt'], vals['start'], vals['end'], vals['repeat']], {}

        def gen(rng, cls=cls):
            n = rng.choice([0, 8, 16, 24, 32, 40, 48, 7, 20, 33, rng.randint(0, 64)])
            fmt = rng.choice([0, 1, 2, 3, 4, 2, [1, 2], [2, 1], [1], 'h', '<2h', 'bh', -1, [0], [1, -1]])
            v = {'self': [rng.random() < 0.5 for _ in range(n)], 'fmt': fmt, 'start': rng.choice([None, 0, 8, 3, rng.randint(-n - 2, n + 2)]),
                 'end': rng.choice([None, n, 8, 16, rng.randint(-n - 2, n + 2)]), 'repeat': rng.random() < 0.6}
            if cls == 'BitStream':
                v['self.pos'] = rng.randint(0, n)
            return v
        out.append(Shape(f'{cls}/{st}', build, real, gen=gen, stable=False, bounded_only=True))
    return out


@contract('bitarray_.BitArray.byteswap', shapes=_byteswap_shapes(), props={'C03', 'C18'}, kind='public',
          note="byteswap(fmt, start, end, repeat): within [start, end), for each complete repetition of the byte-size pattern (one "
               "repetition only when repeat is False) the bytes of each group are reversed; nothing outside [start, end) and nothing "
               "in an incomplete final pattern changes; the length never changes; returns the number of repetitions  (BOUNDED: nested loops)")
def byteswap_spec(C, self, fmt=None, start=None, end=None, repeat=True):
    import re as _re
    V = bits(self)
    D = [bool(V.bit(i)) for i in range(V.n)]
    s, e = window(C, V, start, end)
    codes = {'b': 1, 'B': 1, 'h': 2, 'H': 2, 'l': 4, 'L': 4, 'i': 4, 'I': 4, 'q': 8, 'Q': 8, 'e': 2, 'f': 4, 'd': 8}
    if fmt is None or (isinstance(fmt, int) and fmt == 0):
        sizes = [(e - s) // 8]
    elif isinstance(fmt, int):
        if fmt < 0:
            C.throw('ValueError')
        sizes = [fmt]
    elif isinstance(fmt, str):
        m = _re.match(r'^[<>@=]?((?:\d*[bBhHlLiIqQefd])+)$', fmt)
        if not m:
            C.throw('ValueError')
        sizes = []
        for t in _re.findall(r'\d*[bBhHlLiIqQefd]', m.group(1)):
            sizes += [codes[t[-1]]] * (int(t[:-1]) if len(t) > 1 else 1)
    else:
        sizes = list(fmt)
        if any((not isinstance(x, int)) or x < 0 for x in sizes):
            C.throw('ValueError')
    total = 8 * sum(sizes)
    if total == 0:
        return 0
    reps = 0
    p = s
    while p + total <= e and (repeat or reps == 0):
        q = p
        for sz in sizes:
            chunk = D[q:q + 8 * sz]
            D[q:q + 8 * sz] = [b for k in range(sz - 1, -1, -1) for b in chunk[8 * k:8 * k + 8]]
            q += 8 * sz
        p += total
        reps += 1
    _set_bits(C, self, BA.concrete(D))
    return reps


# byteswap with a *one-shot* iterable as the format ("an iterable of integers" is the documented type: an iterator, a generator).
# The same specification; only the real argument differs (the model keeps the list of the values the iterator yields).  Added after a
# round-7 sub-agent's remark: the validation loop consumed the iterator, so byteswap(iter([2])) swapped nothing and returned 0.
def _byteswap_oneshot_shapes():
    from pyvc.replay import OneShot
    out = []
    for sh in _byteswap_shapes():
        def real(vals, r=sh.real):
            a, k = r(vals)
            lst = list(a[1])
            a[1] = OneShot(lst)
            return a, k

        def gen(rng, g=sh.gen):
            v = g(rng)
            v['fmt'] = rng.choice([[1], [2], [2], [4], [1, 2], [2, 1], [3, 1], [1, 1, 2], [0], [], [1, -1], [8]])
            return v
        out.append(Shape(sh.name, sh.build, real, gen=gen, stable=False, bounded_only=True))
    return out


contract('bitarray_.BitArray.byteswap@one-shot-iterator', target='bitarray_.BitArray.byteswap', shapes=_byteswap_oneshot_shapes(), props={'C03'},
         kind='public', note="byteswap(fmt) where fmt is an iterator / generator of byte sizes: as for the list of the values it yields  "
                             "(BOUNDED: nested loops)")(byteswap_spec)
