"""C07: search, split and count equal the brute-force definition."""
import z3
from pyvc.contract import contract, Shape, INLINE
from pyvc import sym, spec
from pyvc.sym import lor, lnot, land, ite, implies, SInt
from pyvc.spec import bits, mk_bits, sub
from pyvc.shapes import m_bits, r_bits
from pyvc.extern import BA, view_eq
from pyvc.search import occ_term
from .common import *
from .bits_seq import _self_shapes
from .mutators import window

BA_KINDS = [None, False, True]


def _find_shapes(states=SELF_STATES, operands=(('obj', 'Bits', 'immutable'), ('str',), ('obj', 'Bits', 'buffer')), extra_opts=(False, True)):
    out = []
    for cls, st in states:
        for k in operands:
            for d in opt_combos(['start', 'end']):
                for ba in BA_KINDS:
                    for optba in (extra_opts if ba is None else (False,)):
                        def build(S, interp, cls=cls, st=st, k=k, d=d, ba=ba):
                            o = m_bits(S, interp, 'self', cls, st)
                            return [o, m_operand(S, interp, 'bs', k, o), mk_opt(S, 'start', d['start']),
                                    mk_opt(S, 'end', d['end']), ba], {}

                        def real(vals, cls=cls, st=st, k=k, d=d, ba=ba):
                            o = r_bits(vals, 'self', cls, st)
                            return [o, r_operand(vals, 'bs', k, o), rv(vals, 'start', d['start']), rv(vals, 'end', d['end']), ba], {}
                        aligned = bool(ba) or (ba is None and optba)
                        out.append(Shape(f'{cls}/{st}/{opname(k)}/{cname(d)}/ba={ba}/opt={optba}', build, real,
                                         opts={'bytealigned': optba}, props={'C07'} if aligned else None, stable=not aligned))
    return out


def _aligned(ba, p):
    return (p % 8 == 0) if ba else True


def find_post(first):
    """relational post of find / rfind over the brute-force definition"""
    def post(C, args, kwargs, out):
        self, bs, start, end, bytealigned = args
        D, P = bits(self), promote_bits(C, bs)
        ba = C.option('bytealigned') if bytealigned is None else bytealigned
        # exceptional outcomes fixed by the statement
        if sym.truth(sym.eq(P.n, 0)):
            yield ('empty-pattern-raises', out.kind == 'exc' and out.value.cls.is_subclass(C.interp.builtins['ValueError']))
            return
        n = D.n
        s = 0 if start is None else ite(start < 0, start + n, start)
        e = n if end is None else ite(end < 0, end + n, end)
        if sym.truth(lnot(land(0 <= s, s <= e, e <= n))):
            yield ('invalid-range-raises', out.kind == 'exc' and out.value.cls.is_subclass(C.interp.builtins['ValueError']))
            return
        if out.kind == 'exc':
            yield ('raises', False, f'unexpected {out.value.cls.name}')
            return
        r = out.value
        yield ('tuple', isinstance(r, tuple) and len(r) in (0, 1))
        if not isinstance(r, tuple):
            return
        if not sym.have_ctx():
            # concrete replay: compare with the brute-force scan
            ms = _brute(_concrete(D), _concrete(P), s, e, bool(ba))
            if len(r) == 0:
                yield ('complete', not ms)
            else:
                yield ('sound', r[0] in ms)
                yield ('extremal', bool(ms) and r[0] == (ms[0] if first else ms[-1]))
                if '_pos' in self.attrs:
                    yield ('pos-moves-to-match', self.attrs['_pos'] == r[0])
            return
        st, et, m = sym._int_t(s), sym._int_t(e), sym._int_t(P.n)

        def inwin(x):
            t = z3.And(st <= x, x + m <= et, occ_term(D, P, x))
            if ba:
                t = z3.And(t, x % 8 == 0)
            return t
        c = sym.ctx()
        q = c.fresh_int('q')        # skolem: an arbitrary position
        if len(r) == 0:
            yield ('complete', sym.mk_bool(z3.Not(inwin(q))))
        else:
            p = sym._int_t(r[0])
            yield ('sound', sym.mk_bool(inwin(p)))
            yield ('extremal', sym.mk_bool(z3.Implies(inwin(q), (p <= q) if first else (p >= q))))
            if '_pos' in self.attrs:
                yield ('pos-moves-to-match', sym.eq(self.attrs['_pos'], r[0]))
    return post


contract('bits.Bits.find', shapes=_find_shapes([s for s in SELF_STATES if s[0] in ('Bits', 'BitArray')]), props={'C07'},
         kind='public', relational=True, observe_args=False,
         note="find: () iff no occurrence lies wholly inside [start, end) (on a byte boundary when byte-aligned), else the "
              "lowest such position; ValueError for an empty pattern or an invalid range")(find_post(True))
contract('bits.Bits.rfind', shapes=_find_shapes([s for s in SELF_STATES if s[0] in ('Bits', 'BitArray')]), props={'C07'},
         kind='public', relational=True, observe_args=False,
         note="rfind: as find, the highest position")(find_post(False))
contract('bitstream.ConstBitStream.find', shapes=_find_shapes([s for s in SELF_STATES if s[0] in ('ConstBitStream', 'BitStream')]),
         props={'C07', 'C06'}, kind='public', relational=True, observe_args=False,
         note="as Bits.find; on success pos moves to the match, otherwise pos is unchanged")(find_post(True))
contract('bitstream.ConstBitStream.rfind', shapes=_find_shapes([s for s in SELF_STATES if s[0] in ('ConstBitStream', 'BitStream')]),
         props={'C07', 'C06'}, kind='public', relational=True, observe_args=False,
         note="as Bits.rfind; on success pos moves to the match")(find_post(False))


# ---- startswith / endswith / count / all / any ----------------------------------------------------
def _pre_shapes():
    out = []
    for cls, st in SELF_STATES:
        for k in (('obj', 'Bits', 'immutable'), ('str',), ('self',), ('obj', 'Bits', 'buffer')):
            for d in opt_combos(['start', 'end']):
                def build(S, interp, cls=cls, st=st, k=k, d=d):
                    o = m_bits(S, interp, 'self', cls, st)
                    return [o, m_operand(S, interp, 'bs', k, o), mk_opt(S, 'start', d['start']), mk_opt(S, 'end', d['end'])], {}

                def real(vals, cls=cls, st=st, k=k, d=d):
                    o = r_bits(vals, 'self', cls, st)
                    return [o, r_operand(vals, 'bs', k, o), rv(vals, 'start', d['start']), rv(vals, 'end', d['end'])], {}
                out.append(Shape(f'{cls}/{st}/{opname(k)}/{cname(d)}', build, real))
    return out


@contract('bits.Bits.startswith', shapes=_pre_shapes(), props={'C07', 'C08'}, kind='public',
          note="startswith(p, start, end): p occurs at start and fits inside [start, end); ValueError for an invalid range")
def startswith_spec(C, self, prefix, start=None, end=None):
    D, P = bits(self), promote_bits(C, prefix)
    s, e = window(C, D, start, end)
    if sym.truth(s + P.n > e):
        return False
    return view_eq(sub(D, s, s + P.n), P)


@contract('bits.Bits.endswith', shapes=_pre_shapes(), props={'C07', 'C08'}, kind='public',
          note="endswith(p, start, end): p occurs ending at end and fits inside [start, end)")
def endswith_spec(C, self, suffix, start=None, end=None):
    D, P = bits(self), promote_bits(C, suffix)
    s, e = window(C, D, start, end)
    if sym.truth(s + P.n > e):
        return False
    return view_eq(sub(D, e - P.n, e), P)


@contract('bits.Bits.count', shapes=_self_shapes(lambda S, interp, d, self_: [d['v']], lambda v, d, self_: [d['v']],
                                                combos=[{'v': 0}, {'v': 1}, {'v': True}]),
          props={'C07', 'C08'}, kind='public', note="count(v): number of bits equal to bool(v) in the bitstring")
def count_spec(C, self, value):
    from pyvc.extern import count_ones
    V = bits(self)
    c = count_ones(V)
    return c if value else V.n - c


def _allany(which):
    def f(C, self, value, pos=None):
        from pyvc.extern import all_set, any_set
        V = bits(self)
        v = bool(value)
        if which == 'all':
            return all_set(V) if v else lnot(any_set(V))
        return any_set(V) if v else lnot(all_set(V))
    return f


_v_args = (lambda S, interp, d, self_: [d['v']], lambda v, d, self_: [d['v']])
contract('bits.Bits.all', shapes=_self_shapes(*_v_args, combos=[{'v': 0}, {'v': 1}]), props={'C07', 'C08'}, kind='public',
         note="all(v): every bit equals bool(v)")(_allany('all'))
contract('bits.Bits.any', shapes=_self_shapes(*_v_args, combos=[{'v': 0}, {'v': 1}]), props={'C07', 'C08'}, kind='public',
         note="any(v): some bit equals bool(v)")(_allany('any'))


# ---- generators: findall / split / cut / replace (bounded stand-in: the bodies loop over external iterators) --------------
import random as _random


def _periodic_inputs(rng, with_delim=True):
    """data with many (overlapping, aligned and unaligned) occurrences: repetitions of a short unit"""
    if rng.random() < 0.3:
        # whole-byte patterns overlapping themselves at byte shifts (the byte-aligned fast paths)
        unit = [rng.random() < 0.5 for _ in range(8)] if rng.random() < 0.6 else [rng.random() < 0.5] * 8
        reps = rng.randint(2, 9)
        data = [rng.random() < 0.5 for _ in range(rng.choice([0, 0, 8, 3]))] + unit * reps + [rng.random() < 0.5 for _ in range(rng.choice([0, 0, 8, 5]))]
        pat = unit * rng.choice([1, 2, 2, 3])
        return data, pat
    unit = [rng.random() < 0.5 for _ in range(rng.choice([1, 2, 3, 4, 8, 8, 16]))]
    if rng.random() < 0.4:
        unit = [unit[0]] * len(unit)
    reps = rng.randint(0, max(1, 48 // max(1, len(unit))))
    data = (unit * reps)[:rng.randint(0, 64)] if rng.random() < 0.3 else unit * reps
    for _ in range(rng.randint(0, 2)):
        if data:
            data[rng.randrange(len(data))] ^= True
    plen = rng.choice([1, 2, 3, 8, 8, 16, 16, 24, len(unit), 2 * len(unit)])
    start = rng.randrange(len(data)) if data else 0
    pat = (data[start:start + plen] if rng.random() < 0.8 else [rng.random() < 0.5 for _ in range(plen)]) or [True]
    if rng.random() < 0.04:
        pat = []                     # the empty pattern: ValueError for find, rfind, findall, in, split, replace
    return data, pat


def _brute(D, P, s, e, ba):
    n, m = len(D), len(P)
    return [p for p in range(s, e - m + 1) if D[p:p + m] == P and (not ba or p % 8 == 0)]


def _concrete(V):
    return [bool(V.bit(i)) for i in range(V.n)]


def _search_shapes(extra_args, extra_real, gen_extra, states=SELF_STATES_MEM, names=('count',)):
    out = []
    for cls, st in states:
        for ba in BA_KINDS:
            def build(S, interp, cls=cls, st=st, ba=ba):
                o = m_bits(S, interp, 'self', cls, st)
                return [o, m_operand(S, interp, 'bs', ('obj', 'Bits', 'immutable'), o)] + extra_args(S) + [ba], {}

            def real(vals, cls=cls, st=st, ba=ba):
                o = r_bits(vals, 'self', cls, st)
                return [o, r_operand(vals, 'bs', ('obj', 'Bits', 'immutable'), o)] + extra_real(vals) + [ba], {}

            def gen(rng, cls=cls):
                data, pat = _periodic_inputs(rng)
                v = {'self': data, 'bs': pat}
                if cls in ('ConstBitStream', 'BitStream'):
                    v['self.pos'] = rng.randint(0, len(data))
                v.update(gen_extra(rng, len(data)))
                return v
            out.append(Shape(f'{cls}/{st}/ba={ba}', build, real, gen=gen, stable=False, bounded_only=True))
    return out


def _opt(rng, n):
    return rng.choice([None, None, rng.randint(-n - 2, n + 2)])


_fa_args = (lambda S: [mk_opt(S, 'start', 'int'), mk_opt(S, 'end', 'int'), mk_opt(S, 'count', 'int')],
            lambda v: [v['start'], v['end'], v['count']],
            lambda rng, n: {'start': rng.choice([0, 0, rng.randint(-n - 2, n + 2)]), 'end': rng.choice([n, n, rng.randint(-n - 2, n + 2)]),
                            'count': rng.choice([0, 1, 2, 1000, 1000, -1])})


@contract('bits.Bits.findall', shapes=_search_shapes(*_fa_args), props={'C07'}, kind='public',
          note="findall: every position (overlapping ones included) where the pattern lies wholly inside [start, end), byte-aligned "
               "ones only when asked, in increasing order, at most count; ValueError for an empty pattern, an invalid range or "
               "count < 0  (BOUNDED: the body loops over bitarray.search / bytes.find)")
def findall_spec(C, self, bs, start=None, end=None, count=None, bytealigned=None):
    D, P = _concrete(bits(self)), _concrete(promote_bits(C, bs))
    if count is not None and count < 0:
        C.throw('ValueError')
    if not P:
        C.throw('ValueError')
    s, e = window(C, bits(self), start, end)
    ba = C.option('bytealigned') if bytealigned is None else bytealigned
    ms = _brute(D, P, s, e, ba)
    return ('gen', ms if count is None else ms[:count])


def _nonoverlap(ms, m):
    out = []
    for p in ms:
        if not out or p >= out[-1] + m:
            out.append(p)
    return out


_sp_args = _fa_args


@contract('bits.Bits.split', shapes=_search_shapes(*_sp_args), props={'C07'}, kind='public',
          note="split: the pieces between successive non-overlapping occurrences of the delimiter found left to right inside "
               "[start, end); the first piece may be empty, every later piece starts with the delimiter; at most count pieces; "
               "ValueError for an empty delimiter / invalid range / count < 0  (BOUNDED)")
def split_spec(C, self, delimiter, start=None, end=None, count=None, bytealigned=None):
    V = bits(self)
    D, P = _concrete(V), _concrete(promote_bits(C, delimiter))
    if not P:
        C.throw('ValueError')
    s, e = window(C, V, start, end)
    ba = C.option('bytealigned') if bytealigned is None else bytealigned
    if count is not None and count < 0:
        C.throw('ValueError')
    if count == 0:
        return ('gen', [])
    ms = _nonoverlap(_brute(D, P, s, e, ba), len(P))
    cuts = [s] + ms + [e]
    pieces = [(cuts[i], cuts[i + 1]) for i in range(len(cuts) - 1)]
    if count is not None:
        pieces = pieces[:count]
    return ('gen', [mk_bits(C, self.cls, sub(V, a, b), pos=0) for a, b in pieces])


def _cut_shapes():
    out = []
    for cls, st in SELF_STATES_MEM:
        def build(S, interp, cls=cls, st=st):
            return [m_bits(S, interp, 'self', cls, st), S.int('bits'), mk_opt(S, 'start', 'int'), mk_opt(S, 'end', 'int'), mk_opt(S, 'count', 'int')], {}

        def real(vals, cls=cls, st=st):
            return [r_bits(vals, 'self', cls, st), vals['bits'], vals['start'], vals['end'], vals['count']], {}

        def gen(rng, cls=cls):
            n = rng.randint(0, 40)
            v = {'self': [rng.random() < 0.5 for _ in range(n)], 'bits': rng.choice([1, 2, 3, 7, 8, 9, n, n + 1, 0, -1]),
                 'start': rng.choice([None, 0, rng.randint(-n - 2, n + 2)]), 'end': rng.choice([None, n, rng.randint(-n - 2, n + 2)]),
                 'count': rng.choice([None, None, 0, 1, 2, 100, -1])}
            if cls in ('ConstBitStream', 'BitStream'):
                v['self.pos'] = rng.randint(0, n)
            return v
        out.append(Shape(f'{cls}/{st}', build, real, gen=gen, stable=False, bounded_only=True))
    return out


@contract('bits.Bits.cut', shapes=_cut_shapes(), props={'C07', 'C17'}, kind='public',
          note="cut(bits, start, end, count): successive bits-sized chunks of [start, end), the last one shorter, at most count; "
               "ValueError for bits <= 0, count < 0 or an invalid range  (BOUNDED: generator loop)")
def cut_spec(C, self, nbits, start=None, end=None, count=None):
    V = bits(self)
    s, e = window(C, V, start, end)
    if count is not None and count < 0:
        C.throw('ValueError')
    if nbits <= 0:
        C.throw('ValueError')
    out = []
    p = s
    while p < e and (count is None or len(out) < count):
        q = min(p + nbits, e)
        out.append(mk_bits(C, self.cls, sub(V, p, q), pos=0))
        p = q
    return ('gen', out)


def _replace_shapes():
    out = []
    for cls, st in MUT_STATES:
        for ba in BA_KINDS:
            def build(S, interp, cls=cls, st=st, ba=ba):
                o = m_bits(S, interp, 'self', cls, st)
                return [o, m_operand(S, interp, 'old', ('obj', 'Bits', 'immutable'), o), m_operand(S, interp, 'new', ('obj', 'Bits', 'immutable'), o),
                        mk_opt(S, 'start', 'int'), mk_opt(S, 'end', 'int'), mk_opt(S, 'count', 'int'), ba], {}

            def real(vals, cls=cls, st=st, ba=ba):
                o = r_bits(vals, 'self', cls, st)
                return [o, r_operand(vals, 'old', ('obj', 'Bits', 'immutable'), o), r_operand(vals, 'new', ('obj', 'Bits', 'immutable'), o),
                        vals['start'], vals['end'], vals['count'], ba], {}

            def gen(rng, cls=cls):
                data, pat = _periodic_inputs(rng)
                n = len(data)
                v = {'self': data, 'old': pat, 'new': [rng.random() < 0.5 for _ in range(rng.choice([0, 1, len(pat), 8, 3]))],
                     'start': rng.choice([None, 0, rng.randint(-n - 2, n + 2)]), 'end': rng.choice([None, n, rng.randint(-n - 2, n + 2)]),
                     'count': rng.choice([None, None, 0, 1, 2])}
                if cls == 'BitStream':
                    v['self.pos'] = rng.randint(0, n)
                return v
            out.append(Shape(f'{cls}/{st}/ba={ba}', build, real, gen=gen, stable=False, bounded_only=True))
    return out


def _replace_spec(stream):
    def f(C, self, old, new, start=None, end=None, count=None, bytealigned=None):
        from .bits_ops import _set_bits
        V = bits(self)
        D, P, N = _concrete(V), _concrete(promote_bits(C, old)), _concrete(promote_bits(C, new))
        if count == 0:
            return 0
        if not P:
            C.throw('ValueError')
        s, e = window(C, V, start, end)
        ba = C.option('bytealigned') if bytealigned is None else bytealigned
        ms = _nonoverlap(_brute(D, P, s, e, ba), len(P))
        if count is not None:
            ms = ms[:count]
        outb = []
        p = 0
        for m in ms:
            outb += D[p:m] + N
            p = m + len(P)
        outb += D[p:]
        if ms:
            _set_bits(C, self, BA.concrete(outb))
        if stream and '_pos' in self.attrs and len(outb) != len(D):
            self.attrs['_pos'] = 0
        return len(ms)
    return f


contract('bitarray_.BitArray.replace', shapes=[sh for sh in _replace_shapes() if sh.name.startswith('BitArray')], props={'C07', 'C03'},
         kind='public', note="replace: successive non-overlapping occurrences of old inside [start, end), found left to right (byte-"
                             "aligned only when asked), at most count, are replaced by new; returns how many  (BOUNDED)")(_replace_spec(False))
contract('bitstream.BitStream.replace', shapes=[sh for sh in _replace_shapes() if sh.name.startswith('BitStream')], props={'C07', 'C03', 'C06'},
         kind='public', note="as BitArray.replace; pos is reset to 0 iff the length changed  (BOUNDED)")(_replace_spec(True))


from pyvc.contract import REGISTRY as _R
for _q in ('bits.Bits.findall', 'bits.Bits.split', 'bits.Bits.cut'):
    _R[_q].inline = True        # generator contracts are not substituted at call sites


# ---- `bs in s` -----------------------------------------------------------------------------------------
def _contains_shapes():
    out = []
    for cls, st in SELF_STATES:
        for k in (('obj', 'Bits', 'immutable'), ('str',), ('obj', 'BitArray', 'plain')):
            for optba in (False, True):
                def build(S, interp, cls=cls, st=st, k=k):
                    o = m_bits(S, interp, 'self', cls, st)
                    return [o, m_operand(S, interp, 'bs', k, o)], {}

                def real(vals, cls=cls, st=st, k=k):
                    o = r_bits(vals, 'self', cls, st)
                    return [o, r_operand(vals, 'bs', k, o)], {}
                out.append(Shape(f'{cls}/{st}/{opname(k)}/opt={optba}', build, real, opts={'bytealigned': optba}))
    return out


@contract('bits.Bits.__contains__', shapes=_contains_shapes(), props={'C07', 'C06'}, kind='public', relational=True, observe_args=False,
          note="`bs in s`: True iff bs occurs at some bit position of s -- at any position, whatever options.bytealigned says; "
               "ValueError for an empty pattern; a stream's pos does not move")
def contains_post(C, args, kwargs, out):
    self, bs = args
    D, P = bits(self), promote_bits(C, bs)
    if sym.truth(sym.eq(P.n, 0)):
        yield ('empty-pattern-raises', out.kind == 'exc' and out.value.cls.is_subclass(C.interp.builtins['ValueError']))
        return
    if out.kind == 'exc':
        yield ('raises', False, f'unexpected {out.value.cls.name}')
        return
    r = out.value
    yield ('bool', isinstance(r, (bool, sym.SBool)))
    if '_pos' in self.attrs:
        p0 = z3.Int('self.pos') if sym.have_ctx() else None
        if p0 is not None:
            yield ('pos-unchanged', sym.eq(self.attrs['_pos'], SInt(p0)))
    if not sym.have_ctx():
        ms = _brute(_concrete(D), _concrete(P), 0, len(_concrete(D)), False)
        yield ('iff-some-occurrence', bool(r) == bool(ms))
        return
    m, n = sym._int_t(P.n), sym._int_t(D.n)

    def occurs(x):
        return z3.And(0 <= x, x + m <= n, occ_term(D, P, x))
    q = sym.ctx().fresh_int('q')
    if sym.truth(r):
        w = z3.Int('w!occ')
        yield ('sound', sym.mk_bool(z3.Exists([w], occurs(w))))
    else:
        yield ('complete', sym.mk_bool(z3.Not(occurs(q))))


# ---- bounded sweep of the whole search family in both bit numberings, including data longer than the 8192-bit chunks of the
# ---- reverse / lsb0 searches (C07's quantifier names them; C12: the lsb0 result is the msb0 result on the bit-reversed operands)
def _long_inputs(rng):
    """sparse occurrences of a short pattern in data long enough to need several chunks"""
    n = rng.choice([8192, 8193, 8200, 9000, 16384 + 7, 17000])
    m = rng.choice([1, 3, 8, 9, 16])
    pat = [rng.random() < 0.5 for _ in range(m)]
    if rng.random() < 0.25:
        # constant data and pattern: every position matches, so a position reported twice or skipped at a chunk border shows
        bit = rng.random() < 0.5
        return [bit] * n, [bit] * m
    data = [rng.random() < 0.5 for _ in range(n)]
    borders = [0, n - m, rng.randrange(0, n - m + 1), 8 * rng.randrange(0, (n - m) // 8 + 1)]
    for k in (1, 2):
        for d in (-m - 1, -m, -m + 1, -1, 0, 1):
            borders += [8192 * k + d, n - 8192 * k + d, n - m + 1 - 8192 * k + d]      # chunk borders counted from either end
    for _ in range(rng.randint(1, 8)):                       # plant a few, most at the chunk borders and the very ends
        at = rng.choice(borders)
        if 0 <= at <= n - m:
            data[at:at + m] = pat
    return data, pat


def _rv(xs, on):
    return xs[::-1] if on else xs


def _sweep_shapes(extra_names, gen_extra, states, nbs=1, long_ok=True, modes=(False, True), needles=(('obj', 'Bits', 'immutable'),)):
    out = []
    for cls, st in states:
      for needle in needles:
        for ba in BA_KINDS:
            for lsb0 in modes:
                def build(S, interp, cls=cls, st=st, ba=ba, needle=needle):
                    o = m_bits(S, interp, 'self', cls, st)
                    ops = [m_operand(S, interp, f'bs{i}', needle, o) for i in range(nbs)]
                    return [o] + ops + [mk_opt(S, nm, 'int') for nm in extra_names] + [ba], {}

                def real(vals, cls=cls, st=st, ba=ba, needle=needle):
                    o = r_bits(vals, 'self', cls, st)
                    ops = [r_operand(vals, f'bs{i}', needle, o) for i in range(nbs)]
                    return [o] + ops + [vals[nm] for nm in extra_names] + [ba], {}

                def gen(rng, cls=cls, needle=needle):
                    long = long_ok and rng.random() < 0.08
                    data, pat = _long_inputs(rng) if long else _periodic_inputs(rng)
                    v = {'self': data, 'bs0': pat}
                    if needle[-1] == 'buffer':
                        # the pattern is a buffer-backed object whose buffer is longer than its logical length
                        raw = list(pat) + [rng.random() < 0.5 for _ in range(rng.choice([1, 5, 8, 11]))]
                        raw += [False] * (-len(raw) % 8)
                        v = {'self': data, 'bs0.raw': raw, 'bs0.ml': len(pat)}
                    for i in range(1, nbs):
                        v[f'bs{i}'] = [rng.random() < 0.5 for _ in range(rng.choice([0, 1, len(pat), 8, 3]))]
                    if cls in ('ConstBitStream', 'BitStream'):
                        v['self.pos'] = rng.randint(0, len(data))
                    v.update(gen_extra(rng, len(data)))
                    if long:
                        # whole-range searches: the point of the long inputs is the chunking, not the window handling
                        n = len(data)
                        for nm, choices in (('start', [None, 0, 0, 5, 8192 - 3]), ('end', [None, n, n, n - 5]), ('count', [None, None, 1000, 3])):
                            if nm in v:
                                v[nm] = rng.choice(choices)
                    return v
                out.append(Shape(f'{cls}/{st}/ba={ba}/lsb0={lsb0}' + ('/needle-buffer' if needle[-1] == 'buffer' else ''), build, real, gen=gen, stable=False, bounded_only=True,
                                 opts={'lsb0': True} if lsb0 else {}, props=({'C07', 'C12'} if lsb0 else {'C07'}) | ({'C08'} if needle[-1] == 'buffer' else set())))
    return out


_se = (['start', 'end'], lambda rng, n: {'start': rng.choice([None, None, 0, rng.randint(-n - 2, n + 2)]), 'end': rng.choice([None, None, n, rng.randint(-n - 2, n + 2)])})
_sec = (['start', 'end', 'count'], lambda rng, n: {'start': rng.choice([None, 0, 0, rng.randint(-n - 2, n + 2)]), 'end': rng.choice([None, n, n, rng.randint(-n - 2, n + 2)]),
                                                    'count': rng.choice([None, None, 0, 1, 2, 5, 1000, -1])})


def _find_sweep_spec(first):
    def f(C, self, bs, start=None, end=None, bytealigned=None):
        V = bits(self)
        D, P = _rv(_concrete(V), C.lsb0), _rv(_concrete(promote_bits(C, bs)), C.lsb0)
        if not P:
            C.throw('ValueError')
        s, e = window(C, V, start, end)
        ba = C.option('bytealigned') if bytealigned is None else bytealigned
        ms = _brute(D, P, s, e, ba)
        if not ms:
            return ()
        p = ms[0] if first else ms[-1]
        if '_pos' in self.attrs:
            self.attrs['_pos'] = p
        return (p,)
    return f


_PLAIN = [s for s in SELF_STATES_MEM if s[0] in ('Bits', 'BitArray')]
_STRM = [s for s in SELF_STATES_MEM if s[0] in ('ConstBitStream', 'BitStream')]
for _nm, _first in (('find', True), ('rfind', False)):
    contract(f'bits.Bits.{_nm}@sweep', target=f'bits.Bits.{_nm}', shapes=_sweep_shapes(*_se, states=_PLAIN, needles=(('obj', 'Bits', 'immutable'), ('obj', 'Bits', 'buffer'))),
             props={'C07', 'C08'}, kind='public',
             note=f"{_nm} against the brute-force scan in both bit numberings, aligned and not, short periodic and > 8192-bit data  (BOUNDED)")(_find_sweep_spec(_first))
    contract(f'bitstream.ConstBitStream.{_nm}@sweep', target=f'bitstream.ConstBitStream.{_nm}', shapes=_sweep_shapes(*_se, states=_STRM), props={'C07', 'C06'},
             kind='public', note=f"as Bits.{_nm}; pos moves to the match  (BOUNDED)")(_find_sweep_spec(_first))


def _findall_sweep(C, self, bs, start=None, end=None, count=None, bytealigned=None):
    V = bits(self)
    D, P = _rv(_concrete(V), C.lsb0), _rv(_concrete(promote_bits(C, bs)), C.lsb0)
    if count is not None and count < 0:
        C.throw('ValueError')
    if not P:
        C.throw('ValueError')
    s, e = window(C, V, start, end)
    ba = C.option('bytealigned') if bytealigned is None else bytealigned
    ms = _brute(D, P, s, e, ba)
    return ('gen', ms if count is None else ms[:count])


contract('bits.Bits.findall@sweep', target='bits.Bits.findall', shapes=_sweep_shapes(*_sec, states=SELF_STATES_MEM), props={'C07'}, kind='public',
         note="findall in both bit numberings incl. > 8192-bit data: all matching positions in increasing order, at most count  (BOUNDED)")(_findall_sweep)


def _piece(C, self, V, a, b):
    n = V.n
    return mk_bits(C, self.cls, sub(V, n - b, n - a) if C.lsb0 else sub(V, a, b), pos=0)


def _split_sweep(C, self, delimiter, start=None, end=None, count=None, bytealigned=None):
    V = bits(self)
    D, P = _rv(_concrete(V), C.lsb0), _rv(_concrete(promote_bits(C, delimiter)), C.lsb0)
    if not P:
        C.throw('ValueError')
    s, e = window(C, V, start, end)
    ba = C.option('bytealigned') if bytealigned is None else bytealigned
    if count is not None and count < 0:
        C.throw('ValueError')
    if count == 0:
        return ('gen', [])
    ms = _nonoverlap(_brute(D, P, s, e, ba), len(P))
    cuts = [s] + ms + [e]
    pieces = [(cuts[i], cuts[i + 1]) for i in range(len(cuts) - 1)]
    if count is not None:
        pieces = pieces[:count]
    return ('gen', [_piece(C, self, V, a, b) for a, b in pieces])


# (lsb0 split is not a mirror of msb0 split -- the repository's own test pins pieces that still *start* with the delimiter, taken
#  from the least significant end -- and C12 does not list split; it is left unclaimed)
contract('bits.Bits.split@sweep', target='bits.Bits.split', shapes=_sweep_shapes(*_sec, states=SELF_STATES_MEM, long_ok=False, modes=(False,)), props={'C07'}, kind='public',
         note="split with negative / None / out-of-range windows and counts  (BOUNDED)")(_split_sweep)


def _replace_sweep(stream):
    def f(C, self, old, new, start=None, end=None, count=None, bytealigned=None):
        from .bits_ops import _set_bits
        V = bits(self)
        D, P, N = (_rv(_concrete(x), C.lsb0) for x in (V, promote_bits(C, old), promote_bits(C, new)))
        if count == 0:
            return 0
        if not P:
            C.throw('ValueError')
        s, e = window(C, V, start, end)
        ba = C.option('bytealigned') if bytealigned is None else bytealigned
        ms = _nonoverlap(_brute(D, P, s, e, ba), len(P))
        if count is not None:
            ms = ms[:count]
        outb = []
        p = 0
        for m in ms:
            outb += D[p:m] + N
            p = m + len(P)
        outb += D[p:]
        if ms:
            _set_bits(C, self, BA.concrete(_rv(outb, C.lsb0)))
        if stream and '_pos' in self.attrs and len(outb) != len(D):
            self.attrs['_pos'] = 0
        return len(ms)
    return f


_MUT_MEM = [s for s in MUT_STATES]
_secr = (['start', 'end', 'count'], lambda rng, n: {'start': rng.choice([None, 0, 0, rng.randint(-n - 2, n + 2)]), 'end': rng.choice([None, n, n, rng.randint(-n - 2, n + 2)]),
                                                     'count': rng.choice([None, None, 0, 1, 2, 5, 1000])})     # (a negative count is not specified for replace)
contract('bitarray_.BitArray.replace@sweep', target='bitarray_.BitArray.replace', shapes=_sweep_shapes(*_secr, states=[s for s in _MUT_MEM if s[0] == 'BitArray'], nbs=2, long_ok=False),
         props={'C07', 'C03'}, kind='public', note="replace in both bit numberings  (BOUNDED)")(_replace_sweep(False))
contract('bitstream.BitStream.replace@sweep', target='bitstream.BitStream.replace', shapes=_sweep_shapes(*_secr, states=[s for s in _MUT_MEM if s[0] == 'BitStream'], nbs=2, long_ok=False),
         props={'C07', 'C03', 'C06'}, kind='public', note="as BitArray.replace; pos reset iff the length changed  (BOUNDED)")(_replace_sweep(True))
for _q in ('bits.Bits.findall@sweep', 'bits.Bits.split@sweep'):
    _R[_q].inline = True


# ---- cut in both bit numberings (C12: the lsb0 chunks are the msb0 chunks of the reversed data, reversed back) -------------
def _cut_sweep_shapes():
    out = []
    for cls, st in SELF_STATES_MEM:
        for lsb0 in (False, True):
            def build(S, interp, cls=cls, st=st):
                return [m_bits(S, interp, 'self', cls, st), S.int('bits'), mk_opt(S, 'start', 'int'), mk_opt(S, 'end', 'int'), mk_opt(S, 'count', 'int')], {}

            def real(vals, cls=cls, st=st):
                return [r_bits(vals, 'self', cls, st), vals['bits'], vals['start'], vals['end'], vals['count']], {}

            def gen(rng, cls=cls):
                n = rng.randint(0, 40)
                v = {'self': [rng.random() < 0.5 for _ in range(n)], 'bits': rng.choice([1, 2, 3, 7, 8, 9, n, n + 1, 0, -1]),
                     'start': rng.choice([None, 0, rng.randint(-n - 2, n + 2)]), 'end': rng.choice([None, n, rng.randint(-n - 2, n + 2)]),
                     'count': rng.choice([None, None, 0, 1, 2, 100, -1])}
                if cls in ('ConstBitStream', 'BitStream'):
                    v['self.pos'] = rng.randint(0, n)
                return v
            out.append(Shape(f'{cls}/{st}/lsb0={lsb0}', build, real, gen=gen, stable=False, bounded_only=True, opts={'lsb0': True} if lsb0 else {},
                             props={'C07', 'C12'} if lsb0 else {'C07'}))
    return out


def _cut_sweep(C, self, nbits, start=None, end=None, count=None):
    V = bits(self)
    s, e = window(C, V, start, end)
    if count is not None and count < 0:
        C.throw('ValueError')
    if nbits <= 0:
        C.throw('ValueError')
    out = []
    p = s
    while p < e and (count is None or len(out) < count):
        q = min(p + nbits, e)
        out.append(_piece(C, self, V, p, q))
        p = q
    return ('gen', out)


contract('bits.Bits.cut@sweep', target='bits.Bits.cut', shapes=_cut_sweep_shapes(), props={'C07'}, kind='public',
         note="cut in both bit numberings  (BOUNDED)")(_cut_sweep)
_R['bits.Bits.cut@sweep'].inline = True
