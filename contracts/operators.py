"""The operators as client code writes them (a + b, a & b, a == b, n * a ...) over every ordered pair of the four classes.

The per-method contracts (Bits.__add__ ...) say what each method does; which method Python runs for `a + b` is decided by the
data model's dispatch (left operand first, except that a proper subclass's *different* reflected method has priority).  These
contracts close that gap: the expression itself is the verified text (contracts/_client_code.py), the methods it reaches are
the real ones, and the result must have the class of the left operand whatever the class of the right one."""
from pyvc.contract import contract, Shape, REGISTRY
from pyvc import sym
from pyvc.spec import bits, mk_bits, cat
from pyvc.shapes import m_bits, r_bits
from .common import *
from . import bits_seq, bits_ops, eqhash, repeat

_PAIR_STATES = [('Bits', 'immutable'), ('BitArray', 'plain'), ('ConstBitStream', 'immutable'), ('BitStream', 'plain'), ('Bits', 'buffer')]


def _pair_shapes(same_object=True):
    out = []
    for lc, ls in _PAIR_STATES:
        for rc, rs in _PAIR_STATES:
            def build(S, interp, lc=lc, ls=ls, rc=rc, rs=rs):
                return [m_bits(S, interp, 'a', lc, ls), m_bits(S, interp, 'b', rc, rs)], {}

            def real(vals, lc=lc, ls=ls, rc=rc, rs=rs):
                return [r_bits(vals, 'a', lc, ls), r_bits(vals, 'b', rc, rs)], {}
            out.append(Shape(f'{lc}-{ls}+{rc}-{rs}', build, real))
        if same_object:
            def build1(S, interp, lc=lc, ls=ls):
                o = m_bits(S, interp, 'a', lc, ls)
                return [o, o], {}

            def real1(vals, lc=lc, ls=ls):
                o = r_bits(vals, 'a', lc, ls)
                return [o, o], {}
            out.append(Shape(f'{lc}-{ls}+same-object', build1, real1))
    return out


def _method_spec(qual):
    def f(C, a, b):
        return REGISTRY[qual].spec(C, a, b)
    return f


contract('client.op_add', shapes=_pair_shapes(), props={'C01', 'C04'}, kind='public',
         note="a + b for bitstrings of any two classes: bits(a) then bits(b) in a new object of a's class (pos 0); operands unchanged")(
    lambda C, a, b: mk_bits(C, a.cls, cat(bits(a), bits(b)), pos=0))

for _op in ('and', 'or', 'xor'):
    contract(f'client.op_{_op}', shapes=_pair_shapes(), props={'C16', 'C04'}, kind='public',
             note=f"a {_op} b for bitstrings of any two classes: per-bit result in a's class; ValueError for unequal lengths")(
        _method_spec(f'bitstream.ConstBitStream.__{_op}__'))

contract('client.op_eq', shapes=_pair_shapes(), props={'C13'}, kind='public',
         note="a == b for bitstrings of any two classes: True iff same length and bits")(_method_spec('bits.Bits.__eq__'))
contract('client.op_ne', shapes=_pair_shapes(), props={'C13'}, kind='public', note="a != b: the negation")(_method_spec('bits.Bits.__ne__'))
