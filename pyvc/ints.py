"""Assumed contracts of bitarray.util integer / digit-string conversions.

int2ba / ba2int are specified through two uninterpreted functions over (normalised) bit
arrays: uval(arr, n) -- the unsigned value of the n bits -- and ubit(v, n, k) -- bit k
(0 = most significant) of the n-bit representation of v.  The assumed facts are exactly:
range (0 <= uval < 2^n), two's complement (sval = uval - 2^n iff the top bit is set),
uval(int2ba(v, n)) = v, and ubit(uval(arr, n), n, k) = arr[k] (instantiated on demand).
"""
import z3
from . import sym
from .sym import SInt, SBool, Unsupported, NeedConcrete, is_sym, ite, land, lor, lnot
from .extern import BA, SStr
from .interp import OpaqueStr

A = z3.ArraySort(z3.IntSort(), z3.BoolSort())
ubit = z3.Function('ubit', z3.IntSort(), z3.IntSort(), z3.IntSort(), z3.BoolSort())
uval = z3.Function('uval', A, z3.IntSort(), z3.IntSort())


def _concrete_bits(v, n):
    return [bool((v >> (n - 1 - k)) & 1) for k in range(n)]


def int2ba(interp, i, length=None, endian=None, signed=False):
    if isinstance(i, (bool, SBool)) or not sym.is_intlike(i):
        interp.throw('TypeError', 'int expected')
    if length is None:
        if is_sym(i):
            raise NeedConcrete("int2ba without length on a symbolic int")
        if i < 0 and not signed:
            interp.throw('OverflowError', 'unsigned integer not positive')
        length = max(i.bit_length(), 1) if not signed else (i.bit_length() + 1)
    if not sym.is_intlike(length):
        interp.throw('TypeError', 'int expected for length')
    if sym.truth(length <= 0):
        interp.throw('ValueError', 'length must be > 0')
    signed = interp.truthy(signed)
    if isinstance(i, int) and isinstance(length, int):
        if signed:
            if not -(1 << (length - 1)) <= i < (1 << (length - 1)):
                interp.throw('OverflowError', 'signed integer not in range')
            v = i + (1 << length) if i < 0 else i
        else:
            if i < 0:
                interp.throw('OverflowError', 'unsigned integer not positive')
            if i >= (1 << length):
                interp.throw('OverflowError', 'unsigned integer not in range')
            v = i
        return BA.concrete(_concrete_bits(v, length))
    p = sym.pow2(length)
    if signed:
        half = sym.pow2(length - 1)
        if sym.truth(lor(i < -half, i >= half)):
            interp.throw('OverflowError', 'signed integer not in range')
        c = sym.ctx()
        c.assume(sym._int_t(p) == 2 * sym._int_t(half))
        v = ite(i < 0, i + p, i)
    else:
        if sym.truth(i < 0):
            interp.throw('OverflowError', 'unsigned integer not positive')
        if sym.truth(i >= p):
            interp.throw('OverflowError', 'unsigned integer not in range')
        v = i
    vt, nt = sym._int_t(v), sym._int_t(length)
    r = BA(length, lambda k: sym.mk_bool(ubit(vt, nt, sym._int_t(k))))
    c = sym.ctx()
    c.assume(uval(r.as_array(), nt) == vt)
    if signed:
        # top bit set iff negative
        c.assume(ubit(vt, nt, z3.IntVal(0)) == (sym._int_t(i) < 0))
    r.tag = ('uint', v, length)
    # all-zeros / all-ones facts, instantiated at the skolem indices of view goals
    c.__dict__.setdefault('ubit_terms', []).append((vt, nt, sym._int_t(p)))
    return r


def ba2int(interp, ba, signed=False):
    if not isinstance(ba, BA):
        interp.throw('TypeError', 'bitarray expected')
    if sym.truth(sym.eq(ba.n, 0)):
        interp.throw('ValueError', 'non-empty bitarray expected')
    signed = interp.truthy(signed)
    if isinstance(ba.n, int):
        bits = [ba.bit(k) for k in range(ba.n)]
        if all(isinstance(b, bool) for b in bits):
            v = 0
            for b in bits:
                v = (v << 1) | int(b)
            if signed and bits[0]:
                v -= 1 << ba.n
            return v
    c = sym.ctx()
    nt = sym._int_t(ba.n)
    arr = ba.as_array()
    u = uval(arr, nt)
    p = sym.pow2(ba.n)
    c.assume(z3.And(u >= 0, u < sym._int_t(p)))
    # ubit(uval(arr, n), n, k) = arr[k] for the skolem indices used by goals
    c.uval_terms = getattr(c, 'uval_terms', [])
    c.uval_terms.append((u, nt, ba))
    if not signed:
        return SInt(u)
    top = sym._b(ba.bit(0))
    c.assume(top == (u >= sym._int_t(sym.pow2(ba.n - 1))))
    c.assume(sym._int_t(p) == 2 * sym._int_t(sym.pow2(ba.n - 1)))
    return sym.mk_int(z3.If(top, u - sym._int_t(p), u))


_HEX = '0123456789abcdef'


def _digits2ba(interp, s, bits_per, alphabet, what):
    if isinstance(s, SStr):
        if s.kind != what:
            raise Unsupported("digit string of another base")
        v = s.view
        return BA(v.n, v.bit)
    if isinstance(s, OpaqueStr) or not isinstance(s, (str, bytes)):
        if isinstance(s, (str, bytes)):
            raise Unsupported("opaque digit string")
        interp.throw('TypeError', 'str expected')
    if isinstance(s, bytes):
        s = s.decode('ascii', 'replace')
    bits = []
    for ch in s:
        if ch in ' \n\r\t\v':
            continue
        d = alphabet.find(ch.lower() if what == 'hex' else ch)
        if d < 0:
            interp.throw('ValueError', f'invalid digit found for base, got {ch!r}')
        bits.extend(_concrete_bits(d, bits_per))
    return BA.concrete(bits)


def _ba2digits(interp, ba, bits_per, alphabet, what):
    if not isinstance(ba, BA):
        interp.throw('TypeError', 'bitarray expected')
    if sym.truth(lnot(sym.eq(sym.floordiv_mod(ba.n, bits_per)[1], 0))):
        interp.throw('ValueError', f'bitarray length must be multiple of {bits_per}')
    if isinstance(ba.n, int):
        bits = [ba.bit(k) for k in range(ba.n)]
        if all(isinstance(b, bool) for b in bits):
            out = []
            for j in range(0, ba.n, bits_per):
                d = 0
                for b in bits[j:j + bits_per]:
                    d = (d << 1) | int(b)
                out.append(alphabet[d])
            return ''.join(out)
    return SStr(what, BA(ba.n, ba.bit))


def hex2ba(interp, s, endian=None):
    return _digits2ba(interp, s, 4, _HEX, 'hex')


def ba2hex(interp, ba, group=0, sep=' '):
    return _ba2digits(interp, ba, 4, _HEX, 'hex')


def base2ba(interp, n, s, endian=None):
    if n == 8:
        return _digits2ba(interp, s, 3, '01234567', 'oct')
    if n == 2:
        return _digits2ba(interp, s, 1, '01', 'bin')
    if n == 16:
        return _digits2ba(interp, s, 4, _HEX, 'hex')
    raise Unsupported(f"base2ba base {n}")


def ba2base(interp, n, ba, group=0, sep=' '):
    if n == 8:
        return _ba2digits(interp, ba, 3, '01234567', 'oct')
    if n == 2:
        return _ba2digits(interp, ba, 1, '01', 'bin')
    if n == 16:
        return _ba2digits(interp, ba, 4, _HEX, 'hex')
    raise Unsupported(f"ba2base base {n}")
