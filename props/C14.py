"""C14 extras: type promotion (complete enumeration over dtype kinds) and a bounded list-model differential for the loop-bearing
Array operations (slices with a step, reverse, tolist/iteration, count, equals, copy, extend, element-wise operators)."""
import itertools
import math
import operator
import random

META = {'explanation': 'item-level operations proved as list-of-chunks equations; promotion rules enumerated completely; loop-bearing '
                       'operations and element-wise operators checked against a Python list model (bounded).'}
EXTRA_TASKS = ['inplace_ops', 'promotion', 'list_model']


def _ob(oid, ok, witness=None):
    d = {'id': oid, 'backend': 'enum', 'kind': 'public', 'verdict': 'proved' if ok else 'refuted', 'qualname': oid.split('/')[1],
         'shape': oid.split('/')[-1], 'clause': ''}
    if witness:
        d['witness'] = dict(witness, reproduced=True)
    return d


def promotion(tier='quick', seed=0):
    from bitstring import Array, Dtype
    names = ['uint8', 'uint16', 'uint32', 'int8', 'int16', 'int32', 'uintle16', 'uintbe16', 'intle16', 'intbe16', 'intle32', 'intbe32',
             'uintne16', 'bool', 'float16', 'float32', 'float64', 'floatle32', 'bfloat', 'p4binary', 'p3binary', 'e4m3mxfp', 'e2m1mxfp', 'mxint',
             'hex8', 'bin8', 'bytes1', 'bits8']
    ds = [Dtype(n) for n in names]

    def kind(d):
        if d.return_type is float:
            return 'float'
        if d.return_type is int or d.return_type is bool:
            return 'int'
        return None
    bad = None
    evals = 0
    for a, b in itertools.product(ds, repeat=2):
        evals += 1
        ka, kb = kind(a), kind(b)
        try:
            got = Array._promotetype(a, b)
        except ValueError:
            got = 'ValueError'
        if ka is None or kb is None:
            want = 'ValueError'                       # rule 1
        elif ka != kb:
            want = a if ka == 'float' else b          # rule 3
        elif ka == 'int' and a.is_signed != b.is_signed:
            want = a if a.is_signed else b            # rule 4
        elif a.length != b.length:
            want = a if a.length > b.length else b    # rule 5
        else:
            want = a                                  # rule 6: in a tie the first type wins
        ok = (got == 'ValueError') if want == 'ValueError' else (got is want or (got == want and got.name == want.name and got.length == want.length))
        if not ok and bad is None:
            bad = {'inputs': {'type1': str(a), 'type2': str(b), 'got': str(got), 'rule_says': str(want)},
                   'python': f"import bitstring\nr = bitstring.Array._promotetype(bitstring.Dtype({str(a)!r}), bitstring.Dtype({str(b)!r}))\n"
                             f"FAILS = str(r) != {str(want)!r}"}
    return {'id': 'C14.promotion', 'obligations': [_ob('C14/array_.Array._promotetype/the-six-documented-rules/all-ordered-pairs-of-28-dtypes', bad is None, bad)],
            'evaluations': evals, 'exhaustive': True, 'functions': ['array_.Array._promotetype'], 'summary': f'{evals} ordered pairs'}


def _list_case_inner(rng, lsb0):
    """one randomly chosen list operation on one randomly chosen Array against the Python list model -> (ok, description);
    deterministic in (seed, i), so a failure replays by calling it again"""
    import bitstring
    from bitstring import Array, BitArray, Dtype
    specs = [('uint8', lambda: rng.randrange(256)), ('int5', lambda: rng.randrange(-16, 16)), ('uintle16', lambda: rng.randrange(65536)),
             ('float32', lambda: rng.choice([0.0, 1.5, -2.25, 1024.0])), ('bytes2', lambda: bytes(rng.randrange(256) for _ in range(2))),
             ('hex4', lambda: rng.choice('0123456789abcdef')), ('bool', lambda: rng.random() < 0.5), ('>h', lambda: rng.randrange(-2 ** 15, 2 ** 15))]
    desc = ''
    dt, gen = rng.choice(specs)
    vals = [gen() for _ in range(rng.randint(0, 7))]
    trailing = rng.choice(['', '', '0b1', '0b101']) if dt != 'bool' else ''
    try:
        a = Array(dt, vals, trailing_bits=trailing or None)
        w = a.itemsize
        model = list(vals)
        op = rng.choice(['slice', 'setslice', 'setslice_array', 'setslice_self', 'routes', 'extend_routes', 'delslice', 'reverse', 'tolist', 'iter', 'count', 'equals', 'copy', 'extend', 'insert', 'pop', 'len', 'dtype'])
        if lsb0 and op == 'len':
            op = 'tolist'        # (the data-layout clause of 'len' is stated for msb0)
        desc = f'Array({dt!r}, {vals!r}, trailing_bits={trailing!r}).{op}'
        tb = a.trailing_bits.bin
        if op == 'slice':
            k = slice(rng.choice([None, rng.randint(-9, 9)]), rng.choice([None, rng.randint(-9, 9)]), rng.choice([None, 1, 2, 3, -1, -2]))
            ok = a[k].tolist() == model[k]
            desc += f'[{k}]'
        elif op == 'setslice':
            k = slice(rng.choice([None, rng.randint(-9, 9)]), rng.choice([None, rng.randint(-9, 9)]), rng.choice([None, 1, 2, -1]))
            new = [gen() for _ in range(rng.randint(0, 4))]
            desc += f'[{k}] = {new!r}'
            try:
                model[k] = new
                exp = model
            except ValueError:
                exp = ValueError
            try:
                a[k] = new
                ok = exp is not ValueError and a.tolist() == exp and a.trailing_bits.bin == tb
            except ValueError:
                ok = exp is ValueError and a.tolist() == list(vals)
        elif op == 'setslice_self':
            # the assigned value is the Array itself (or an iterator over it): a list takes a snapshot of the right-hand side first
            k = slice(rng.choice([None, None, rng.randint(-9, 9)]), rng.choice([None, None, rng.randint(-9, 9)]), rng.choice([None, 1, -1, -1, 2]))
            how = rng.choice(['a', 'iter(a)', 'reversed(a.tolist())'])
            desc += f'[{k}] = {how}'
            try:
                model[k] = {'a': model, 'iter(a)': iter(model), 'reversed(a.tolist())': reversed(list(model))}[how]
                exp = model
            except ValueError:
                exp = ValueError
            try:
                a[k] = {'a': a, 'iter(a)': iter(a), 'reversed(a.tolist())': reversed(a.tolist())}[how]
                ok = exp is not ValueError and a.tolist() == exp and a.trailing_bits.bin == tb
            except ValueError:
                ok = exp is ValueError and a.tolist() == list(vals)
        elif op == 'setslice_array':
            # the assigned value is itself an Array -- of the same or another dtype, with or without trailing bits of its own:
            # what is assigned is its *items*
            k = slice(rng.choice([None, rng.randint(-9, 9)]), rng.choice([None, rng.randint(-9, 9)]), rng.choice([None, None, 1, 2, -1]))
            src_vals = [gen() for _ in range(rng.randint(0, 4))]
            src_tb = rng.choice(['', '0b1', '0b01101']) if dt != 'bool' else ''
            src = Array(dt, src_vals, trailing_bits=src_tb or None)
            if rng.random() < 0.3 and w % 8 == 0 and dt not in ('bytes2', 'float32'):
                # a source whose trailing bits come from re-reading wider data
                src = Array('uint8', [1, 2, 3][:rng.randint(0, 3)])
            src_vals = src.tolist()          # (trailing bits as wide as an item are an item)
            desc += f'[{k}] = Array({src.dtype!s}, {src_vals!r}, trailing_bits={src_tb!r})'
            try:
                model[k] = list(src_vals)
                exp = model
            except ValueError:
                exp = ValueError
            try:
                a[k] = src
                ok = exp is not ValueError and a.tolist() == exp and a.trailing_bits.bin == tb
            except ValueError:
                ok = exp is ValueError and a.tolist() == list(vals)
        elif op == 'routes':
            # every construction route holds the same items: the data is the concatenation of the items' encodings whatever the source
            import io
            enc = a.data[:len(a.data) - len(a.trailing_bits)] if len(a.trailing_bits) else a.data
            srcs = [('tuple', lambda: tuple(vals)), ('generator', lambda: (v for v in vals)), ('Array', lambda: Array(dt, vals)), ('Bits', lambda: bitstring.Bits(enc)),
                    ('BitArray', lambda: BitArray(enc))]
            if len(enc) % 8 == 0:
                srcs += [('bytes', lambda: enc.tobytes()), ('bytearray', lambda: bytearray(enc.tobytes())), ('memoryview', lambda: memoryview(enc.tobytes()))]
            srcs.append(('int', lambda: len(vals)))
            kind, mk_src = rng.choice(srcs)
            desc += f' rebuilt from {kind}'
            b2 = Array(dt, mk_src(), trailing_bits=trailing or None)
            if kind == 'int':
                ok = len(b2) == len(vals) and b2.trailing_bits.bin == tb and b2.data.bin.count('1') == tb.count('1') and len(b2.data) == len(vals) * w + len(tb)
            else:
                ok = b2.data.bin == a.data.bin and b2.tolist() == a.tolist() and b2.trailing_bits.bin == tb and b2.data is not a.data
                if ok and len(b2):
                    # the new Array owns its data: changing it does not change the source
                    b2[0] = gen()
                    ok = a.tolist() == model and (kind not in ('BitArray',) or True)
        elif op == 'extend_routes':
            more = [gen() for _ in range(rng.randint(0, 3))]
            kind = rng.choice(['list', 'tuple', 'generator', 'Array'])
            src = {'list': lambda: list(more), 'tuple': lambda: tuple(more), 'generator': lambda: (v for v in more), 'Array': lambda: Array(dt, more)}[kind]()
            desc += f'.extend(<{kind} of {more!r}>)'
            if trailing:
                try:
                    a.extend(src)
                    ok = False
                except ValueError:
                    ok = a.tolist() == model and a.trailing_bits.bin == tb
            else:
                a.extend(src)
                ok = a.tolist() == model + more
                if ok and kind == 'Array' and len(more):
                    src[0] = gen()                  # the source stays independent of the extended Array
                    ok = a.tolist() == model + more
        elif op == 'delslice':
            k = slice(rng.choice([None, rng.randint(-9, 9)]), rng.choice([None, rng.randint(-9, 9)]), rng.choice([None, 1, 2, 3, -1, -2]))
            desc += f' del [{k}]'
            del model[k]
            del a[k]
            ok = a.tolist() == model and a.trailing_bits.bin == tb
        elif op == 'reverse':
            if trailing:
                try:
                    a.reverse()
                    ok = False
                except ValueError:
                    ok = a.tolist() == model
            else:
                a.reverse()
                ok = a.tolist() == model[::-1]
        elif op == 'tolist':
            ok = a.tolist() == model and len(a) == len(model)
        elif op == 'iter':
            ok = list(a) == model
        elif op == 'count':
            v = gen()
            if isinstance(v, int) and rng.random() < 0.3:
                # any value may be asked for, not only representable ones: a list simply counts no match
                v = rng.choice([-1, 1 << 70, 10 ** 400, -(10 ** 400), 1 << 1999, True, 2.5])
            desc += f'({v!r})'
            ok = a.count(v) == model.count(v)
        elif op == 'equals':
            ok = a.equals(Array(dt, vals, trailing_bits=trailing or None)) and not a.equals(Array(dt, vals + [gen()], trailing_bits=trailing or None))
        elif op == 'copy':
            import copy
            c = copy.copy(a)
            ok = c.equals(a) and c.data is not a.data
            if len(c):
                c[0] = gen()
                ok = ok and a.tolist() == model
        elif op == 'extend':
            more = [gen() for _ in range(rng.randint(0, 3))]
            if trailing:
                try:
                    a.extend(more)
                    ok = False
                except ValueError:
                    ok = a.tolist() == model
            else:
                a.extend(more)
                ok = a.tolist() == model + more
        elif op == 'insert':
            i, v = rng.randint(-9, 9), gen()
            model.insert(i, v)
            a.insert(i, v)
            ok = a.tolist() == model and a.trailing_bits.bin == tb
        elif op == 'pop':
            if not model:
                try:
                    a.pop()
                    ok = False
                except IndexError:
                    ok = True
            else:
                i = rng.randint(-len(model), len(model) - 1)
                ok = a.pop(i) == model.pop(i) and a.tolist() == model and a.trailing_bits.bin == tb
        elif op == 'len':
            ok = len(a) == len(model) and a.data.bin == ''.join(Dtype(dt if not dt.startswith('>') else 'intbe16').build(v).bin for v in vals) + tb
        else:
            before = a.data.bin
            a.dtype = 'uint8' if w % 8 == 0 else 'bin1'
            ok = a.data.bin == before
    except Exception as e:
        ok = False
        desc = f'{desc if "desc" in dir() else dt}: {type(e).__name__}: {e}'
    return ok, desc


def _list_case(seed, i):
    """deterministic in (seed, i); a quarter of the cases run with options.lsb0 set (an Array is a list of items in either
    bit numbering)"""
    import bitstring
    rng = random.Random(seed * 1000003 + i)
    lsb0 = rng.random() < 0.25
    saved = bitstring.options.lsb0
    bitstring.options.lsb0 = lsb0
    try:
        ok, desc = _list_case_inner(rng, lsb0)
    finally:
        bitstring.options.lsb0 = saved
    return ok, ('[lsb0] ' if lsb0 else '') + desc


def list_model(tier='quick', seed=0):
    import bitstring
    from bitstring import Array, BitArray, Dtype
    rng = random.Random(seed)
    fails = []
    evals = 0
    N = 4000 if tier == 'quick' else 300000
    for i in range(N):
        evals += 1
        ok, desc = _list_case(seed, i)
        if not ok:
            fails.append({'call': desc[:200], 'python': "import sys\nsys.path.insert(0, '/verif')\nfrom props.C14 import _list_case\n"
                                                       f"ok, desc = _list_case({seed}, {i})\nprint(desc)\nFAILS = not ok\n"})
            if len(fails) > 6:
                break
    # element-wise operators against the list model (with the documented promotion and overflow -> ValueError)
    ops = [operator.add, operator.sub, operator.mul, operator.floordiv, operator.lshift, operator.rshift, operator.and_, operator.or_, operator.xor,
           operator.lt, operator.ge, operator.eq]
    for _ in range(N // 2):
        dt = rng.choice(['uint8', 'int8', 'uint16'])
        d = Dtype(dt)
        vals = [rng.randrange(0, 100) for _ in range(rng.randint(1, 5))]
        op = rng.choice(ops)
        v = rng.randrange(1 if op is operator.floordiv else 0, 9)
        evals += 1
        a = Array(dt, vals)
        try:
            if op in (operator.and_, operator.or_, operator.xor):
                b = bitstring.Bits(uint=v, length=d.bitlength)
                got = op(a, b).tolist()
                want = [op(x, v) for x in vals]
            else:
                r = op(a, v)
                got = r.tolist()
                want = [op(x, v) for x in vals]
            ok = got == want
        except ValueError:
            ok = any(not (0 <= op(x, v) < 2 ** d.bitlength) if not d.is_signed else not (-2 ** (d.bitlength - 1) <= op(x, v) < 2 ** (d.bitlength - 1))
                     for x in vals) or op is operator.floordiv and v == 0
        except ZeroDivisionError:
            ok = v == 0
        except Exception as e:
            ok = False
        if not ok:
            fails.append({'call': f'Array({dt!r}, {vals}) {op.__name__} {v}', 'python': "FAILS = True"})
    return {'id': 'C14.list_model', 'obligations': [], 'evaluations': evals,
            'bounded': [{'id': 'C14/array_.Array/list-model-differential', 'qualname': 'array_.Array', 'shape': 'random ops', 'function': 'Array slices/reverse/tolist/count/equals/copy/extend/operators',
                         'bound': f'{N} random single operations on Arrays of <= 7 items x 8 dtypes with/without trailing bits; {N // 2} element-wise operator cases',
                         'evaluations': evals, 'failures': fails[:3]}], 'summary': f'{evals} cases, {len(fails)} failures'}


def inplace_ops(tier='quick', seed=0):
    """in-place element-wise operators on Arrays: the list model's result, or ValueError / ZeroDivisionError-as-ValueError with the
    Array unchanged -- in particular when only *some* items overflow (bounded, native)"""
    import bitstring
    from bitstring import Array, Dtype
    rng = random.Random(seed ^ 0x5eed)
    fails = []
    evals = 0
    for _ in range(3000 if tier == 'quick' else 60000):
        # in-place operators: the list model's result, or ValueError with the Array unchanged -- also when only *some* items overflow
        iops = [(operator.iadd, operator.add), (operator.isub, operator.sub), (operator.imul, operator.mul), (operator.ifloordiv, operator.floordiv),
                (operator.ilshift, operator.lshift), (operator.irshift, operator.rshift)]
        dt2 = rng.choice(['uint8', 'int8', 'uint12', 'intle16'])
        d2 = Dtype(dt2)
        lo, hi = (-(1 << (d2.bitlength - 1)), (1 << (d2.bitlength - 1)) - 1) if d2.is_signed else (0, (1 << d2.bitlength) - 1)
        vals2 = [rng.choice([lo, hi, 0, 1, rng.randint(lo, hi), rng.randint(lo // 4, hi // 4)]) for _ in range(rng.randint(1, 6))]
        iop, pop_ = rng.choice(iops)
        v2 = rng.choice([0, 1, 2, 3, 10, 100]) if iop in (operator.ilshift, operator.irshift) else rng.choice([1, 2, 3, 10, 100, -1, -7, hi // 2])
        tb2 = rng.choice(['', '', '0b1'])
        a2 = Array(dt2, vals2, trailing_bits=tb2 or None)
        before = a2.data.bin
        evals += 1
        desc2 = f"a = Array({dt2!r}, {vals2!r}, trailing_bits={tb2!r}); a {iop.__name__} {v2}"
        try:
            want2 = [pop_(x, v2) for x in vals2]
            fits = all(lo <= w <= hi for w in want2)
        except (ZeroDivisionError, ValueError):
            want2, fits = None, False
        try:
            a2 = iop(a2, v2)
            ok2 = fits and a2.tolist()[:len(vals2)] == want2
        except (ValueError, ZeroDivisionError):
            ok2 = (not fits) and a2.data.bin == before
        except Exception:
            ok2 = False
        if not ok2:
            fails.append({'call': desc2 + (' (must succeed with the list result)' if fits else ' (must raise and leave a unchanged)'),
                          'python': 'import bitstring, operator\nfrom bitstring import Array\n'
                                    f"a = Array({dt2!r}, {vals2!r}, trailing_bits={(tb2 or None)!r}); before = a.data.bin\n"
                                    f"try:\n    a = operator.{iop.__name__}(a, {v2})\n    FAILS = not ({fits} and a.tolist()[:{len(vals2)}] == {want2!r})\n"
                                    f"except (ValueError, ZeroDivisionError):\n    FAILS = {fits} or a.data.bin != before\n"})

        if len(fails) > 5:
            break
    return {'id': 'C14.inplace', 'obligations': [], 'evaluations': evals,
            'bounded': [{'id': 'C14/array_.Array._apply_op_to_all_elements_inplace/list-model-and-rollback', 'qualname': 'array_.Array._apply_op_to_all_elements_inplace',
                         'shape': 'random items x operators', 'function': 'Array += -= *= //= <<= >>= with a scalar', 'bound': '3000 random cases (60000 thorough)',
                         'evaluations': evals, 'failures': fails[:3]}],
            'summary': f'{evals} in-place operations, {len(fails)} failures'}
