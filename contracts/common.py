"""Shared shape helpers for the bitstring classes."""
import itertools
from pyvc.contract import Shape
from pyvc import sym, spec, shapes
from pyvc.extern import BA, PStr, SymBytes
from pyvc.shapes import m_bits, r_bits, m_store, r_store
from pyvc.interp import Obj

# (class, store state): the representation states reachable through the constructors.
# Mutable classes always own a plain in-memory store (BitArray.__init__/BitStream.__init__ copy
# immutable stores -- obligation of the constructor contracts); immutable classes hold either an
# in-memory store or a read-only buffer with a logical length shorter than the buffer.
SELF_STATES = [('Bits', 'immutable'), ('Bits', 'buffer'), ('BitArray', 'plain'),
               ('ConstBitStream', 'immutable'), ('ConstBitStream', 'buffer'), ('BitStream', 'plain')]
SELF_STATES_MEM = [(c, s) for c, s in SELF_STATES if s != 'buffer']
MUT_STATES = [('BitArray', 'plain'), ('BitStream', 'plain')]

# operand kinds for a BitsType parameter
OPERANDS = [('obj', 'Bits', 'immutable'), ('obj', 'BitArray', 'plain'), ('obj', 'ConstBitStream', 'immutable'),
            ('obj', 'BitStream', 'plain'), ('obj', 'Bits', 'buffer'), ('self',), ('str',), ('bytes',)]
OPERANDS_SMALL = [('obj', 'Bits', 'immutable'), ('obj', 'BitStream', 'plain'), ('self',), ('str',)]


def opname(k):
    return '-'.join(k)


def m_operand(S, interp, name, kind, self_obj):
    if kind[0] == 'self':
        return self_obj
    if kind[0] == 'obj':
        return m_bits(S, interp, name, kind[1], kind[2])
    if kind[0] == 'str':
        return PStr(S.view(name))
    if kind[0] == 'bytes':
        v = S.view(name)
        if S.values is None:
            S.assume(sym.eq(v.n % 8, 0))
        return SymBytes(v.n // 8 if not isinstance(v.n, int) else v.n // 8, v.bit)
    raise ValueError(kind)


def r_operand(vals, name, kind, self_obj):
    if kind[0] == 'self':
        return self_obj
    if kind[0] == 'obj':
        return r_bits(vals, name, kind[1], kind[2])
    if kind[0] == 'str':
        b = vals[name]
        return ('0b' + ''.join('1' if x else '0' for x in b)) if b else ''
    if kind[0] == 'bytes':
        import bitarray
        return bitarray.bitarray([int(x) for x in vals[name]]).tobytes()
    raise ValueError(kind)


def promote_bits(C, x):
    """the bits an operand denotes (spec side)"""
    if isinstance(x, Obj) and any(k.name == 'Bits' for k in x.cls.mro):
        return spec.bits(x)
    if isinstance(x, PStr):
        return BA(x.view.n, x.view.bit)
    if isinstance(x, str) and (x == '' or (x.startswith('0b') and set(x[2:]) <= {'0', '1'})):
        return BA.concrete([ch == '1' for ch in x[2:]])
    if isinstance(x, SymBytes):
        return BA(x.nbytes * 8, x.bit)
    if isinstance(x, BA):
        return BA(x.n, x.bit)
    raise sym.Unsupported(f"promote_bits of {type(x).__name__}")


def opt_combos(names, step_name=None):
    out = []
    for combo in itertools.product(*[(None, 'int')] * len(names)):
        d = dict(zip(names, combo))
        if step_name and d[step_name] == 'int':
            for sg in ('pos', 'neg', 'zero'):
                e = dict(d)
                e[step_name] = sg
                out.append(e)
        else:
            out.append(d)
    return out


def cname(d):
    return ','.join(f'{k}={v}' for k, v in d.items())


def mk_opt(S, name, kind):
    if kind is None:
        return None
    if kind == 'zero':
        return 0                  # (a slice step of 0: ValueError in every mode)
    v = S.int(name)
    if S.values is None:
        if kind == 'pos':
            S.assume(v > 0)
        elif kind == 'neg':
            S.assume(v < 0)
    return v


def rv(vals, name, kind):
    if kind == 'zero':
        return 0
    return None if kind is None else vals[name]


def is_stream(cls):
    return any(k.name == 'ConstBitStream' for k in cls.mro)
