"""C03 (+C06 position effects): in-place mutators of BitArray / BitStream equal their sequence-level
specification; nothing outside the addressed range moves; a rejected call leaves the content as it was."""
from pyvc.contract import contract, Shape, INLINE
from pyvc import sym, spec, ints
from pyvc.sym import lor, lnot, land, ite, smin, smax
from pyvc.spec import bits, mk_bits, cat, sub, splice, rev, zeros
from pyvc.shapes import m_bits, r_bits
from pyvc.extern import BA, _sel2b, _sel, _sel2, _not
from .common import *
from .bits_seq import _self_shapes, _operand_shapes
from .bits_ops import _set_bits


def window(C, V, start, end):
    """_validate_slice: negative values offset by len, None -> 0 / len; ValueError unless 0 <= s <= e <= len"""
    n = V.n
    s = 0 if start is None else ite(start < 0, start + n, start)
    e = n if end is None else ite(end < 0, end + n, end)
    if sym.truth(lnot(land(0 <= s, s <= e, e <= n))):
        C.throw('ValueError')
    return s, e


_se_combos = opt_combos(['start', 'end'])
_se_args = (lambda S, interp, d, self_: [mk_opt(S, 'start', d['start']), mk_opt(S, 'end', d['end'])],
            lambda v, d, self_: [rv(v, 'start', d['start']), rv(v, 'end', d['end'])])


@contract('bits.Bits._validate_slice', shapes=_self_shapes(*_se_args, combos=_se_combos, states=SELF_STATES),
          props={'C03', 'C07', 'C20'}, kind='internal',
          note="(start, end) as non-negative positions; ValueError unless 0 <= start <= end <= len")
def validate_slice(C, self, start, end):
    return window(C, bits(self), start, end)


def _pos_after(self, newpos):
    if '_pos' in self.attrs:
        self.attrs['_pos'] = newpos


# ---- append / prepend / += -----------------------------------------------------------------
def _append_shapes(fn_states, operands=OPERANDS):
    return _operand_shapes(fn_states, operands)


@contract('bitarray_.BitArray.append', shapes=_append_shapes([('BitArray', 'plain')]), props={'C03'}, kind='public',
          note="a.append(t): a holds old bits followed by bits(t) (t may be a itself); t unchanged")
def ba_append(C, self, bs):
    _set_bits(C, self, cat(bits(self), promote_bits(C, bs)))
    return None


@contract('bitstream.ConstBitStream.append', shapes=_append_shapes([('BitStream', 'plain')]), props={'C03', 'C06'}, kind='public',
          note="s.append(t) on a BitStream: content as BitArray.append, pos moves to the end")
def stream_append(C, self, bs):
    V = cat(bits(self), promote_bits(C, bs))
    _set_bits(C, self, V)
    _pos_after(self, V.n)
    return None


@contract('bitarray_.BitArray.__iadd__', shapes=_append_shapes([('BitArray', 'plain')]), props={'C03'}, kind='public',
          note="a += t appends in place and returns a")
def ba_iadd(C, self, bs):
    _set_bits(C, self, cat(bits(self), promote_bits(C, bs)))
    return self


@contract('bitstream.BitStream.__iadd__', shapes=_append_shapes([('BitStream', 'plain')]), props={'C03', 'C06'}, kind='public',
          note="s += t appends in place, returns s, pos moves to the end")
def stream_iadd(C, self, bs):
    V = cat(bits(self), promote_bits(C, bs))
    _set_bits(C, self, V)
    _pos_after(self, V.n)
    return self


@contract('bitarray_.BitArray.prepend', shapes=_append_shapes([('BitArray', 'plain')]), props={'C03'}, kind='public',
          note="a.prepend(t): bits(t) followed by the old bits")
def ba_prepend(C, self, bs):
    _set_bits(C, self, cat(promote_bits(C, bs), bits(self)))
    return None


@contract('bitstream.BitStream.prepend', shapes=_append_shapes([('BitStream', 'plain')]), props={'C03', 'C06'}, kind='public',
          note="s.prepend(t): content as BitArray.prepend, pos reset to 0")
def stream_prepend(C, self, bs):
    _set_bits(C, self, cat(promote_bits(C, bs), bits(self)))
    _pos_after(self, 0)
    return None


# ---- insert / overwrite ----------------------------------------------------------------------
def _bs_pos_shapes(states, operands, pos_kinds=('int',)):
    out = []
    for cls, st in states:
        for k in operands:
            for pk in pos_kinds:
                def build(S, interp, cls=cls, st=st, k=k, pk=pk):
                    o = m_bits(S, interp, 'self', cls, st)
                    return [o, m_operand(S, interp, 'bs', k, o), mk_opt(S, 'p', None if pk is None else 'int')], {}

                def real(vals, cls=cls, st=st, k=k, pk=pk):
                    o = r_bits(vals, 'self', cls, st)
                    return [o, r_operand(vals, 'bs', k, o), rv(vals, 'p', pk)], {}
                out.append(Shape(f'{cls}/{st}/{opname(k)}/pos={pk}', build, real))
    return out


def _insert_core(C, self, bs, pos, stream):
    V, W = bits(self), promote_bits(C, bs)
    if sym.truth(sym.eq(W.n, 0)):
        return None
    if pos is None:
        pos = self.attrs['_pos']
    p = ite(pos < 0, pos + V.n, pos)
    if sym.truth(lor(p < 0, p > V.n)):
        C.throw('ValueError')
    _set_bits(C, self, splice(V, p, p, W))
    if stream:
        _pos_after(self, p + W.n)
    return None


@contract('bitarray_.BitArray.insert', shapes=_bs_pos_shapes([('BitArray', 'plain')], OPERANDS), props={'C03'}, kind='public',
          note="a.insert(t, pos): old[:pos] + t + old[pos:] (negative pos from the end); ValueError outside [0, len] "
               "leaving a unchanged; empty t is a no-op")
def ba_insert(C, self, bs, pos):
    return _insert_core(C, self, bs, pos, False)


@contract('bitstream.BitStream.insert', shapes=_bs_pos_shapes([('BitStream', 'plain')], OPERANDS, ('int', None)),
          props={'C03', 'C06'}, kind='public',
          note="as BitArray.insert with pos defaulting to the current position; afterwards pos = insert position + len(t)")
def stream_insert(C, self, bs, pos=None):
    return _insert_core(C, self, bs, pos, True)


def _overwrite_core(C, self, bs, pos, stream):
    V, W = bits(self), promote_bits(C, bs)
    if sym.truth(sym.eq(W.n, 0)):
        return None
    if pos is None:
        pos = self.attrs['_pos']
    p = ite(pos < 0, pos + V.n, pos)
    if sym.truth(lor(p < 0, p > V.n)):
        C.throw('ValueError')
    hi = smin(p + W.n, V.n)
    _set_bits(C, self, splice(V, p, hi, W))
    if stream:
        _pos_after(self, p + W.n)
    return None


@contract('bitarray_.BitArray.overwrite', shapes=_bs_pos_shapes([('BitArray', 'plain')], OPERANDS), props={'C03'}, kind='public',
          note="a.overwrite(t, pos): old[:pos] + t + old[pos+len(t):] (extends a when t runs past the end); "
               "ValueError outside [0, len]; also for t is a")
def ba_overwrite(C, self, bs, pos):
    return _overwrite_core(C, self, bs, pos, False)


@contract('bitstream.ConstBitStream.overwrite', shapes=_bs_pos_shapes([('BitStream', 'plain')], OPERANDS, ('int', None)),
          props={'C03', 'C06'}, kind='public',
          note="as BitArray.overwrite with pos defaulting to the current position; afterwards pos = position + len(t)")
def stream_overwrite(C, self, bs, pos=None):
    return _overwrite_core(C, self, bs, pos, True)


# ---- deletion --------------------------------------------------------------------------------
_key_combos = [{'key': 'index'}] + [dict(d, key='slice') for d in opt_combos(['start', 'stop', 'step'], 'step')]
from .bits_seq import _mk_key, _r_key


def _del_view(C, V, key):
    tmp = BA(V.n, V.bit)
    tmp.pyvc_delitem(C.interp, key)        # list semantics of deletion (the assumed contract of a bit list)
    return tmp


def _delitem_spec(stream):
    def f(C, self, key):
        V = bits(self)
        W = _del_view(C, V, key)
        _set_bits(C, self, W)
        if stream and sym.truth(lnot(sym.eq(W.n, V.n))):
            _pos_after(self, 0)
        return None
    return f


contract('bitarray_.BitArray.__delitem__', shapes=_self_shapes(_mk_key, _r_key, _key_combos, states=[('BitArray', 'plain')]),
         props={'C03'}, kind='public',
         note="del a[k]: list deletion of the selected bits (any step); IndexError for an out-of-range index")(_delitem_spec(False))
contract('bitstream.BitStream.__delitem__', shapes=_self_shapes(_mk_key, _r_key, _key_combos, states=[('BitStream', 'plain')]),
         props={'C03', 'C06'}, kind='public',
         note="as BitArray.__delitem__; pos is reset to 0 iff the length changed")(_delitem_spec(True))


# ---- reverse / rotate / clear ------------------------------------------------------------------
@contract('bitarray_.BitArray.reverse', shapes=_self_shapes(*_se_args, combos=_se_combos, states=MUT_STATES), props={'C03', 'C06'},
          kind='public', note="reverse(start, end): bits of [start, end) reversed, everything else and the length unchanged; "
                              "ValueError for an invalid range; a stream's pos is not moved")
def ba_reverse(C, self, start=None, end=None):
    V = bits(self)
    s, e = window(C, V, start, end)
    a = V.bit
    _set_bits(C, self, BA(V.n, lambda i: _sel2(land(i >= s, i < e), a, s + e - 1 - i, a, i)))
    return None


_rot_combos = opt_combos(['start', 'end'])
_rot_args = (lambda S, interp, d, self_: [S.int('bits'), mk_opt(S, 'start', d['start']), mk_opt(S, 'end', d['end'])],
             lambda v, d, self_: [v['bits'], rv(v, 'start', d['start']), rv(v, 'end', d['end'])])


def _rot_spec(right):
    def f(C, self, nbits, start=None, end=None):
        V = bits(self)
        if sym.truth(sym.eq(V.n, 0)):
            C.throw('Error')
        if sym.truth(nbits < 0):
            C.throw('ValueError')
        s, e = window(C, V, start, end)
        if sym.truth(sym.eq(s, e)):
            return None                      # nothing to rotate
        w = e - s
        k = nbits % w
        a = V.bit
        if right:
            # new[s + j] = old[s + (j - k) mod w]
            src = lambda i: s + ite(i - s - k < 0, i - s - k + w, i - s - k)
        else:
            src = lambda i: s + ite(i - s + k >= w, i - s + k - w, i - s + k)
        _set_bits(C, self, BA(V.n, lambda i: _sel2(land(i >= s, i < e), a, src(i), a, i)))
        return None
    return f


contract('bitarray_.BitArray.ror', shapes=_self_shapes(*_rot_args, combos=_rot_combos, states=MUT_STATES), props={'C03', 'C06', 'C20'},
         kind='public', note="ror(bits, start, end): [start, end) rotated right by bits mod (end-start), rest unchanged; "
                             "Error if empty, ValueError for bits < 0 or an invalid range; an empty range is a no-op")(_rot_spec(True))
contract('bitarray_.BitArray.rol', shapes=_self_shapes(*_rot_args, combos=_rot_combos, states=MUT_STATES), props={'C03', 'C06', 'C20'},
         kind='public', note="rol: as ror, rotating left")(_rot_spec(False))


@contract('bitarray_.BitArray.clear', shapes=_self_shapes(states=MUT_STATES), props={'C03', 'C06'}, kind='public',
          note="clear(): empty content; a stream's pos becomes 0")
def ba_clear(C, self):
    _set_bits(C, self, zeros(0))
    _pos_after(self, 0)
    return None


# ---- set / invert with a single position or all bits ----------------------------------------------
_pos_combos = [{'pos': None}, {'pos': 'int'}]
_val_pos_args = (lambda S, interp, d, self_: [S.bool('value'), mk_opt(S, 'p', d['pos'])],
                 lambda v, d, self_: [v['value'], rv(v, 'p', d['pos'])])


@contract('bitarray_.BitArray.set', shapes=_self_shapes(*_val_pos_args, combos=_pos_combos, states=MUT_STATES), props={'C03'},
          kind='public', note="set(value, pos): bit pos (negative from the end) becomes bool(value), others unchanged; "
                              "IndexError outside [-len, len); pos None sets every bit")
def ba_set(C, self, value, pos=None):
    V = bits(self)
    a = V.bit
    if pos is None:
        if sym.truth(sym.eq(V.n, 0)):
            C.throw('ValueError')          # documented behaviour of the int initialiser on an empty bitstring
        _set_bits(C, self, BA(V.n, lambda i: value))
        return None
    p = ite(pos < 0, pos + V.n, pos)
    if sym.truth(lor(p < 0, p >= V.n)):
        C.throw('IndexError')
    _set_bits(C, self, BA(V.n, lambda i: _sel(sym.eq(i, p), value, a(i))))
    return None


_inv_args = (lambda S, interp, d, self_: [mk_opt(S, 'p', d['pos'])], lambda v, d, self_: [rv(v, 'p', d['pos'])])


@contract('bitarray_.BitArray.invert', shapes=_self_shapes(*_inv_args, combos=_pos_combos, states=MUT_STATES), props={'C03'},
          kind='public', note="invert(pos): bit pos flipped, others unchanged; IndexError outside [-len, len); None flips all")
def ba_invert(C, self, pos=None):
    V = bits(self)
    a = V.bit
    if pos is None:
        _set_bits(C, self, BA(V.n, lambda i: _not(a(i))))
        return None
    p = ite(pos < 0, pos + V.n, pos)
    if sym.truth(lor(p < 0, p >= V.n)):
        C.throw('IndexError')
    _set_bits(C, self, BA(V.n, lambda i: _sel(sym.eq(i, p), _not(a(i)), a(i))))
    return None
