"""C15 / C02 (build side): out-of-range or mis-sized values are rejected; in-range values have exactly the
requested length and the canonical encoding; every creation route reaches the same kernel."""
import sys as _sys
from pyvc.contract import contract, Shape, INLINE
from pyvc import sym, spec, ints
from pyvc.sym import lor, lnot, land, ite
from pyvc.spec import bits, mk_bits, sub, mk_store
from pyvc.shapes import m_bits, r_bits
from pyvc.extern import BA, BBytes, SymBytes
from pyvc.interp import Obj
from .common import *
from .bits_seq import _self_shapes
from .streams import _byterev, FIXED

INT_ROWS = {'uint': (False, 'be', False), 'int': (True, 'be', False), 'uintbe': (False, 'be', True), 'intbe': (True, 'be', True),
            'uintle': (False, 'le', True), 'intle': (True, 'le', True)}
NE = 'le' if _sys.byteorder == 'little' else 'be'
INT_ROWS['uintne'] = INT_ROWS['uint' + NE]
INT_ROWS['intne'] = INT_ROWS['int' + NE]


def enc_int(C, v, n, signed):
    """the canonical n-bit encoding of v (MSB first, two's complement), ValueError unless n >= 1 and v fits"""
    if not sym.is_intlike(n) or not sym.is_intlike(v):
        C.throw('TypeError')
    if sym.truth(n <= 0):
        C.throw('ValueError')
    p = sym.pow2(n)
    if signed:
        h = sym.pow2(n - 1)
        if sym.truth(lor(v < -h, v >= h)):
            C.throw('ValueError')
    else:
        if sym.truth(lor(v < 0, v >= p)):
            C.throw('ValueError')
    return ints.int2ba(C.interp, v, n, 'big', signed)


def _ivl_shapes(signed_vals=(False, True)):
    out = []
    for sg in signed_vals:
        def build(S, interp, sg=sg):
            return [S.int('i'), S.int('length'), sg], {}

        def real(vals, sg=sg):
            return [vals['i'], vals['length'], sg], {}
        out.append(Shape(f'signed={sg}', build, real))
    return out


@contract('bitstore_helpers.int2bitstore', shapes=_ivl_shapes(), props={'C15', 'C02'}, kind='public',
          note="int2bitstore(i, n, signed): exactly n bits holding i (two's complement, MSB first) iff n >= 1 and "
               "0 <= i < 2^n (signed: -2^(n-1) <= i < 2^(n-1)); every other (i, n) raises CreationError -- in particular the "
               "bare OverflowError re-raise at the end of the function is unreachable")
def int2bitstore_spec(C, i, length, signed):
    return mk_store(C, enc_int(C, i, length, signed))


@contract('bitstore_helpers.intle2bitstore', shapes=_ivl_shapes(), props={'C15', 'C02', 'C18'}, kind='public',
          note="intle2bitstore(i, n, signed), n a whole number of bytes: the byte-reversed big-endian encoding; "
               "callers must establish n % 8 == 0")
def intle2bitstore_spec(C, i, length, signed):
    C.requires(sym.eq(length % 8, 0) if sym.is_intlike(length) else True, 'length is a whole number of bytes')
    return mk_store(C, _byterev(enc_int(C, i, length, signed)))


# ---- Bits._set<int row>(value, length): the kernels behind every route -----------------------------
def _setter_shapes(whole, states=(('Bits', 'unset'), ('BitArray', 'plain'), ('BitStream', 'plain'))):
    out = []
    for cls, st in states:
        for lk in (None, 'int'):
            def build(S, interp, cls=cls, st=st, lk=lk):
                if st == 'unset':
                    o = Obj(interp.get_module('bitstring').ns[cls])       # object.__new__(Bits): no store yet
                else:
                    o = m_bits(S, interp, 'self', cls, st)
                ln = mk_opt(S, 'length', lk)
                if ln is not None and whole:
                    # an explicit length always comes through a Dtype, which only exists for whole-byte lengths
                    S.assume(sym.eq(ln % 8, 0))
                return [o, S.int('v'), ln], {}

            def real(vals, cls=cls, st=st, lk=lk):
                import bitstring
                o = object.__new__(getattr(bitstring, cls)) if st == 'unset' else r_bits(vals, 'self', cls, st)
                return [o, vals['v'], rv(vals, 'length', lk)], {}
            out.append(Shape(f'{cls}/{st}/length={lk}', build, real))
    return out


def _setter_spec(name):
    signed, endian, whole = INT_ROWS[name]

    def f(C, self, value, length=None):
        if length is None and '_bitstore' in self.attrs:
            n0 = bits(self).n
            if sym.truth(lnot(sym.eq(n0, 0))):
                length = n0
        if length is None or sym.truth(sym.eq(length, 0)):
            C.throw('ValueError')
        if whole and sym.truth(lnot(sym.eq(length % 8, 0))):
            C.throw('ValueError')
        V = enc_int(C, value, length, signed)
        if endian == 'le':
            V = _byterev(V)
        self.attrs['_bitstore'] = mk_store(C, V)
        return None
    return f


for _name in ('uint', 'int', 'uintbe', 'intbe', 'uintle', 'intle'):
    contract(f'bits.Bits._set{_name}', shapes=_setter_shapes(INT_ROWS[_name][2]), props={'C15', 'C02'}, kind='public',
             note=f"_set{_name}(v, n): the object holds the {_name} encoding of v in exactly n bits (n defaults to the current "
                  "non-zero length); CreationError -- and the object unchanged -- when n is missing, zero, negative, not "
                  "allowed for the type, or v does not fit")(_setter_spec(_name))


# ---- Dtype(name, n).build(v) ---------------------------------------------------------------------------
def _build_shapes(names):
    out = []
    for nm in names:
        def build(S, interp, nm=nm):
            n = S.int('n')
            D = interp.get_module('bitstring').ns['Dtype']
            unit, ok, _ = FIXED[nm]
            S.assume(ok(n * unit))
            return [interp.call(D, [nm, n], {}), S.int('v')], {}

        def real(vals, nm=nm):
            import bitstring
            return [bitstring.Dtype(nm, vals['n']), vals['v']], {}
        out.append(Shape(nm, build, real))
    return out


@contract('dtypes.Dtype.build', shapes=_build_shapes(['uint', 'int', 'uintbe', 'intbe', 'uintle', 'intle']), props={'C15', 'C02'},
          kind='public', note="Dtype(name, n).build(v): a Bits of exactly n bits with the canonical encoding, ValueError if v does not fit")
def build_spec(C, self, value):
    name, n = self.attrs['_name'], self.attrs['_length']
    if name not in INT_ROWS or n is None or not sym.is_intlike(value) or self.attrs.get('_scale') is not None:
        return INLINE
    signed, endian, whole = INT_ROWS[name]
    V = enc_int(C, value, n, signed)
    if endian == 'le':
        V = _byterev(V)
    return mk_bits(C, C.cls('Bits'), V)


# ---- Dtype(name, n): which lengths exist ------------------------------------------------------------------
def _dtype_new_shapes():
    out = []
    for nm in ('uint', 'int', 'uintbe', 'intbe', 'uintle', 'intle', 'hex', 'oct', 'bin', 'bytes', 'bool', 'bits', 'pad',
               'float', 'floatle', 'bfloat', 'ue', 'se'):
        def build(S, interp, nm=nm):
            return [interp.get_module('bitstring').ns['Dtype'], nm, S.int('n')], {}

        def real(vals, nm=nm):
            import bitstring
            return [bitstring.Dtype, nm, vals['n']], {}
        out.append(Shape(nm, build, real))
    return out


def _len_ok(name, n):
    if name in ('float', 'floatle', 'floatbe', 'floatne'):
        return lor(sym.eq(n, 16), sym.eq(n, 32), sym.eq(n, 64))
    if name in ('bfloat', 'bfloatle'):
        return sym.eq(n, 16)
    if name in ('ue', 'se', 'uie', 'sie'):
        return False
    if name == 'bits':
        return n >= 0
    return FIXED[name][1](n * FIXED[name][0])


@contract('dtypes.Dtype.__new__', shapes=_dtype_new_shapes(), props={'C15'}, kind='public', relational=True, observe_args=False,
          note="Dtype(name, n) exists exactly for the lengths the type allows (positive; whole bytes for endian types; "
               "16/32/64 for floats; 1 for bool; multiples of 4/3 for hex/oct; none for the variable-length codes); every other "
               "length raises ValueError")
def dtype_new_post(C, args, kwargs, out):
    cls, name, n = args
    ok = _len_ok(name, n)
    if sym.truth(ok):
        yield ('allowed-length-accepted', out.kind == 'ret')
        if out.kind == 'ret':
            d = out.value
            unit = 8 if name == 'bytes' else 1
            yield ('bitlength', sym.eq(d.attrs['_bitlength'], n * unit))
            yield ('name', d.attrs['_name'] == name)
    elif sym.truth(n > 0):
        # a positive length the type does not allow; (zero / negative lengths are rejected when a bitstring is
        # built -- obligations of the setters and of Dtype.build -- the Dtype object itself may exist)
        yield ('bad-length-rejected', out.kind == 'exc' and out.value.cls.is_subclass(C.interp.builtins['ValueError']))
    else:
        yield ('no-internal-error', out.kind == 'ret' or out.value.cls.is_subclass(C.interp.builtins['ValueError']))


# ---- interpretation side (C02): Bits._get<row>() on the whole bitstring --------------------------------------------------
from .streams import decode as _decode


def _getter_spec(name):
    def f(C, self):
        if name == 'bool':
            # the raw getter is only reachable through the dtype wrapper that checks the single allowed length
            C.requires(sym.eq(bits(self).n, 1), 'length 1 (checked by allowed_length_checked_get_fn)')
        return _decode(C, name, bits(self), self.cls)
    return f


for _name, _props in (('uint', {'C02'}), ('int', {'C02'}), ('uintbe', {'C02', 'C18'}), ('intbe', {'C02', 'C18'}),
                      ('uintle', {'C02', 'C18'}), ('intle', {'C02', 'C18'}), ('hex', {'C02'}), ('oct', {'C02'}), ('bin', {'C02'}),
                      ('bytes', {'C02', 'C17'}), ('bool', {'C02'})):
    _fn = {'bin': '_getbin', 'bool': '_getbool'}.get(_name, '_get' + _name)
    _states = SELF_STATES
    contract(f'bits.Bits.{_fn}', shapes=_self_shapes(states=_states), props=_props, kind='public',
             note=f"the {_name} interpretation of the whole bitstring (little-endian = big-endian of the byte-reversed bits); "
                  "InterpretError for a length the type does not admit")(_getter_spec(_name))


# ---- Dtype(existing_dtype, ...): the instance comes back as it is (Dtype objects are shared through caches: no call may change one)
def _dtype_passthrough_shapes():
    out = []
    for nm, n in (('uint', 8), ('float', 32), ('hex', 4), ('ue', None)):
        for extra in ('none', 'length', 'scale', 'both'):
            def build(S, interp, nm=nm, n=n, extra=extra):
                D = interp.get_module('bitstring').ns['Dtype']
                d = interp.call(D, [nm] + ([n] if n is not None else []), {})
                kw = {}
                if extra in ('length', 'both'):
                    kw['length'] = S.int('len2')
                if extra in ('scale', 'both'):
                    kw['scale'] = S.int('sc')
                return [D, d], kw

            def real(vals, nm=nm, n=n, extra=extra):
                import bitstring
                d = bitstring.Dtype(nm, n) if n is not None else bitstring.Dtype(nm)
                kw = {}
                if extra in ('length', 'both'):
                    kw['length'] = vals['len2']
                if extra in ('scale', 'both'):
                    kw['scale'] = vals['sc']
                return [bitstring.Dtype, d], kw
            out.append(Shape(f'{nm}{n or ""}/{extra}', build, real))
    return out


@contract('dtypes.Dtype.__new__@instance', target='dtypes.Dtype.__new__', shapes=_dtype_passthrough_shapes(), props={'C09', 'C15', 'C11'}, kind='public',
          observe_args=True, note="Dtype(d, ...) for an existing Dtype d returns d itself, unchanged (name, length, scale): a Dtype is a shared, "
                                  "memoised value and no call may rescale or resize it")
def dtype_passthrough_spec(C, cls, token, length=None, scale=None):
    return token
