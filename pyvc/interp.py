"""AST interpreter for the subset of Python that /repo/bitstring is written in.

The interpreter re-reads the real source files with ``ast`` on every run and executes the
real function bodies; values are concrete host values, symbolic ints/bools (pyvc.sym) or
model objects (Obj for repo-class instances, extern.BA for bitarray buffers).  A symbolic
condition forks the path (through sym.PathCtx.branch).  Anything outside the subset raises
sym.Unsupported: the path is then *undecided*, it never produces a verdict.

What is dropped from the source text (DESIGN.md 3.2): docstrings, annotations, @overload
stubs, the text of messages (f-strings with a symbolic part evaluate their sub-expressions
-- for the exceptions those can raise -- and yield an opaque string), and
functools.lru_cache, which is interpreted as the identity (its history effect is C09's
subject and is handled there by effect analysis).
"""
from __future__ import annotations

import ast
import os
import sys as _sys

from . import sym
from .sym import SInt, SBool, Unsupported, NeedConcrete, is_sym

REPO = os.environ.get('PYVC_REPO', '/repo')


# ======================================================================================
# values
# ======================================================================================
class OpaqueStr(str):
    """A string whose text depends on symbolic values (only ever used as a message)."""
    def __new__(cls, s='<opaque>'):
        return str.__new__(cls, s)


class ClassVal:
    def __init__(self, name, bases, ns, module=None, builtin=False):
        self.name = name
        self.bases = list(bases)
        self.ns = ns            # dict of class attributes
        self.module = module
        self.builtin = builtin
        self.mro = _c3(self)
        self.slots = None
        if '__slots__' in ns:
            s = ns['__slots__']
            self.slots = (s,) if isinstance(s, str) else tuple(s)

    def __repr__(self):
        return f'<class {self.name}>'

    def lookup(self, name):
        for c in self.mro:
            if name in c.ns:
                return c.ns[name], c
        return _MISSING, None

    def is_subclass(self, other):
        return other in self.mro

    def has_dict(self):
        """instances have a __dict__ unless every class in the mro defines __slots__"""
        for c in self.mro:
            if c.builtin:
                if c.name not in ('object',):
                    return True      # exception instances etc. have a dict
                continue
            if c.slots is None:
                return True
        return False

    def all_slots(self):
        out = []
        for c in self.mro:
            if c.slots:
                out.extend(c.slots)
        return out


def _c3(cls):
    def merge(seqs):
        res = []
        seqs = [list(s) for s in seqs if s]
        while seqs:
            for s in seqs:
                h = s[0]
                if not any(h in t[1:] for t in seqs):
                    break
            else:
                raise TypeError("inconsistent MRO")
            res.append(h)
            seqs = [[x for x in s if x is not h] for s in seqs]
            seqs = [s for s in seqs if s]
        return res
    return [cls] + merge([b.mro for b in cls.bases] + [list(cls.bases)])


class _Missing:
    def __repr__(self):
        return '<missing>'


_MISSING = _Missing()


class Obj:
    """instance of a repo (or builtin exception) class"""
    _ids = 0

    def __init__(self, cls):
        self.cls = cls
        self.attrs = {}
        Obj._ids += 1
        self.oid = Obj._ids

    def __repr__(self):
        return f'<{self.cls.name} obj#{self.oid}>'


class FuncVal:
    def __init__(self, node, module, closure, defaults, kwdefaults, qualname, owner=None):
        self.node = node
        self.module = module
        self.closure = closure
        self.defaults = defaults
        self.kwdefaults = kwdefaults
        self.qualname = qualname
        self.owner = owner           # ClassVal the function was defined in (for super())
        self.is_generator = _has_yield(node)
        self.cached = False          # decorated with functools.lru_cache
        self.name = getattr(node, 'name', '<lambda>')

    def __repr__(self):
        return f'<function {self.qualname}>'


def _has_yield(node):
    body = node.body if isinstance(node.body, list) else [node.body]
    for stmt in body:
        for n in _walk_no_nested(stmt):
            if isinstance(n, (ast.Yield, ast.YieldFrom)):
                return True
    return False


def _walk_no_nested(node):
    todo = [node]
    while todo:
        n = todo.pop()
        yield n
        for c in ast.iter_child_nodes(n):
            if isinstance(c, (ast.FunctionDef, ast.Lambda, ast.ClassDef, ast.AsyncFunctionDef)):
                continue
            todo.append(c)


class BoundMethod:
    def __init__(self, self_, func):
        self.self_ = self_
        self.func = func

    def __repr__(self):
        return f'<bound {self.func!r} of {self.self_!r}>'


class ClassMethodVal:
    def __init__(self, func):
        self.func = func


class StaticMethodVal:
    def __init__(self, func):
        self.func = func


class PropertyVal:
    def __init__(self, fget=None, fset=None, fdel=None, doc=None):
        self.fget, self.fset, self.fdel = fget, fset, fdel

    def setter(self, f):
        return PropertyVal(self.fget, f, self.fdel)

    def getter(self, f):
        return PropertyVal(f, self.fset, self.fdel)


class Partial:
    def __init__(self, func, args, kwargs):
        self.func, self.args, self.kwargs = func, tuple(args), dict(kwargs)


class Builtin:
    """host-implemented callable"""
    def __init__(self, fn, name=None, needs_interp=False):
        self.fn = fn
        self.name = name or getattr(fn, '__name__', 'builtin')
        self.needs_interp = needs_interp

    def __repr__(self):
        return f'<builtin {self.name}>'


class ModuleVal:
    def __init__(self, name, ns=None):
        self.name = name
        self.ns = ns if ns is not None else {}
        self.executed = False

    def __repr__(self):
        return f'<module {self.name}>'


class SuperVal:
    def __init__(self, cls_after, obj):
        self.cls_after = cls_after   # class whose mro position we start after
        self.obj = obj               # instance or class


class GenObj:
    def __init__(self, hostgen, qualname=''):
        self.hostgen = hostgen
        self.qualname = qualname
        self.done = False


class SRange:
    """range with symbolic bounds"""
    def __init__(self, start, stop, step):
        self.start, self.stop, self.step = start, stop, step

    def pyvc_getitem(self, interp, k):
        if isinstance(k, slice):
            raise Unsupported("slice of a symbolic range")
        n = interp.call(interp.builtins['len'], [self], {})
        j = sym.ite(k < 0, k + n, k)
        if sym.truth(sym.lor(j < 0, j >= n)):
            interp.throw('IndexError', 'range object index out of range')
        return self.start + j * self.step

    def pyvc_getattr(self, interp, name):
        if name in ('start', 'stop', 'step'):
            return getattr(self, name)
        return _MISSING

    def pyvc_truthy(self, interp):
        n = interp.call(interp.builtins['len'], [self], {})
        return sym.truth(sym.lnot(sym.eq(n, 0)))


class SeqVal:
    """a sequence of symbolic length: n items, item(j) for 0 <= j < n (the values a uniform loop yields / a comprehension builds)"""

    def __init__(self, n, item):
        self.n, self.item = n, item


class PyRaise(Exception):
    """a Python-level exception travelling through the interpreted program"""
    def __init__(self, exc):
        self.exc = exc

    def __str__(self):
        return f'PyRaise({self.exc.cls.name})'


class _Return(Exception):
    def __init__(self, v):
        self.v = v


class _Break(Exception):
    pass


class _Continue(Exception):
    pass


class Frame:
    __slots__ = ('locals', 'module', 'closure', 'func', 'exc_stack', 'is_class', 'cls_for_super', 'globals_decl',
                 'nonlocal_decl', 'loop_counts')

    def __init__(self, locals_, module, closure=None, func=None, is_class=False):
        self.locals = locals_
        self.module = module
        self.closure = closure
        self.func = func
        self.exc_stack = []
        self.is_class = is_class
        self.globals_decl = set()
        self.nonlocal_decl = set()
        self.loop_counts = {}


# ======================================================================================
# interpreter
# ======================================================================================
class Interp:
    def __init__(self, repo=REPO):
        self.load_errors = []
        from . import extern
        self.repo = repo
        self.modules = {}
        self.builtins = {}
        self.exc_classes = {}
        self.contracts = {}          # qualname -> contract used modularly at call sites
        self.under_verification = None
        self.call_depth = 0
        self.loop_handlers = {}      # (qualname, ordinal) -> handler(interp, frame, node) or None
        self.write_log = None        # list collecting (kind, target) writes when enabled
        self.trace_calls = None      # optional list of qualnames called
        self.used_contracts = None   # set of contract qualnames applied modularly (when enabled)
        self.default_loop_bound = 12
        extern.install(self)
        self.object_cls = self.builtins['object']

    # -- program loading ---------------------------------------------------------------
    def source_path(self, modname):
        parts = modname.split('.')
        p = os.path.join(self.repo, *parts)
        if os.path.isdir(p):
            return os.path.join(p, '__init__.py')
        return p + '.py'

    def get_module(self, modname):
        m = self.modules.get(modname)
        if m is not None:
            return m
        if modname == 'pyvc_client':
            # client code exercising the public operators (contracts/_client_code.py): interpreted like the package itself
            path = os.path.join(os.path.dirname(os.path.dirname(os.path.abspath(__file__))), 'contracts', '_client_code.py')
        elif not (modname == 'bitstring' or modname.startswith('bitstring.')):
            raise Unsupported(f"import of unknown module {modname}")
        else:
            path = self.source_path(modname)
        with open(path) as f:
            src = f.read()
        tree = ast.parse(src, path)
        m = ModuleVal(modname, {'__name__': modname, '__file__': path})
        m.tree = tree
        m.src = src
        self.modules[modname] = m
        if '.' in modname:
            parent, _, child = modname.rpartition('.')
            pm = self.get_module(parent)
            pm.ns.setdefault(child, m)
        frame = Frame(m.ns, m)
        # Module bodies are executed statement by statement; a top-level statement the engine cannot execute (an unmodelled
        # library call, say) is recorded and skipped instead of making the whole package -- and with it every check --
        # unusable: whatever then depends on the missing name fails *inside the model only*, which the verdict policy treats as
        # engine imprecision (undecided + bounded stand-in), never as a violation.
        for st in tree.body:
            try:
                self.run_block([st], frame)
            except (PyRaise, Unsupported, NeedConcrete) as e:
                self.load_errors.append(f'{modname}:{getattr(st, "lineno", "?")}: {type(e).__name__}: {e}')
        m.executed = True
        if '.' in modname:
            parent, _, child = modname.rpartition('.')
            self.modules[parent].ns[child] = m
        return m

    def lookup_qualname(self, q):
        """'bits.Bits._imul' / 'bitstore.indices' -> value"""
        parts = q.split('.')
        if parts[0] == 'client':
            m = self.get_module('pyvc_client')
        else:
            m = self.get_module('bitstring.' + parts[0]) if parts[0] != 'bitstring' else self.get_module('bitstring')
        v = m
        for p in parts[1:]:
            if isinstance(v, ModuleVal):
                v = v.ns[p]
            elif isinstance(v, ClassVal):
                r, _ = v.lookup(p)
                if r is _MISSING:
                    raise KeyError(q)
                v = r
            else:
                raise KeyError(q)
        if isinstance(v, (ClassMethodVal, StaticMethodVal)):
            v = v.func
        return v

    # -- exceptions --------------------------------------------------------------------
    def make_exc(self, clsname, *args):
        cls = self.builtins[clsname] if isinstance(clsname, str) else clsname
        return self.call(cls, list(args), {})

    def throw(self, clsname, *args):
        raise PyRaise(self.make_exc(clsname, *args))

    # -- statements --------------------------------------------------------------------
    def run_block(self, stmts, frame):
        """run statements of a non-generator context"""
        for _ in self.exec_block(stmts, frame):
            raise Unsupported("yield outside generator")

    def exec_block(self, stmts, frame):
        for s in stmts:
            yield from self.exec_stmt(s, frame)

    def exec_stmt(self, s, frame):
        m = getattr(self, 'st_' + type(s).__name__, None)
        if m is None:
            raise Unsupported(f"statement {type(s).__name__} at line {s.lineno}")
        r = m(s, frame)
        if r is not None:
            yield from r

    def st_Expr(self, s, frame):
        if isinstance(s.value, ast.Yield):
            v = self.eval(s.value.value, frame) if s.value.value is not None else None
            return iter([v])     # a one-element host iterator: yields v upward
        if isinstance(s.value, ast.Constant):
            return None          # docstring
        self.eval(s.value, frame)
        return None

    def st_Pass(self, s, frame):
        return None

    def st_Import(self, s, frame):
        for a in s.names:
            top = a.name.split('.')[0]
            if a.name == 'bitstring' or a.name.startswith('bitstring.'):
                self.get_module(a.name)
                v = self.get_module(top) if a.asname is None else self.get_module(a.name)
            else:
                v = self.ext_module(a.name if a.asname else top)
                if a.asname is None and '.' in a.name:
                    self.ext_module(a.name)
            self.store_name(a.asname or top, v, frame)
        return None

    def ext_module(self, name):
        if name in self.modules:
            return self.modules[name]
        raise Unsupported(f"external module {name} has no model")

    def st_ImportFrom(self, s, frame):
        if s.module == '__future__':
            return None
        modname = s.module or ''
        if s.level:
            base = frame.module.name
            if not frame.module.ns.get('__file__', '').endswith('__init__.py'):
                base = base.rpartition('.')[0]
            for _ in range(s.level - 1):
                base = base.rpartition('.')[0]
            modname = base + ('.' + modname if modname else '')
        if modname == 'bitstring' or modname.startswith('bitstring.'):
            m = self.get_module(modname)
        else:
            m = self.ext_module(modname)
        for a in s.names:
            if a.name in m.ns:
                v = m.ns[a.name]
            elif (modname + '.' + a.name).startswith('bitstring'):
                v = self.get_module(modname + '.' + a.name)
            else:
                raise Unsupported(f"cannot import {a.name} from {modname}")
            self.store_name(a.asname or a.name, v, frame)
        return None

    def st_FunctionDef(self, s, frame):
        f = self.make_function(s, frame)
        for d in reversed(s.decorator_list):
            dec = self.eval(d, frame)
            f = self.call(dec, [f], {})
        self.store_name(s.name, f, frame)
        return None

    def make_function(self, node, frame):
        a = node.args
        defaults = [self.eval(d, frame) for d in a.defaults]
        kwdefaults = {}
        for k, d in zip(a.kwonlyargs, a.kw_defaults):
            if d is not None:
                kwdefaults[k.arg] = self.eval(d, frame)
        closure = frame
        while closure is not None and closure.is_class:
            closure = closure.closure
        if closure is not None and closure.func is None and not closure.is_class:
            closure = None       # module-level frame: use globals
        name = getattr(node, 'name', '<lambda>')
        if frame.is_class:
            qual = frame.locals.get('__qualname__', '') + '.' + name
        elif frame.func is not None:
            qual = frame.func.qualname + '.<locals>.' + name
        else:
            qual = frame.module.name.replace('bitstring.', '', 1) + '.' + name
        return FuncVal(node, frame.module, closure, defaults, kwdefaults, qual)

    def st_ClassDef(self, s, frame):
        bases = [self.eval(b, frame) for b in s.bases]
        bases = [b for b in bases if isinstance(b, ClassVal)] or [self.builtins['object']]
        modshort = frame.module.name.replace('bitstring.', '', 1)
        qual = modshort + '.' + s.name if not frame.is_class else frame.locals['__qualname__'] + '.' + s.name
        ns = {'__qualname__': qual, '__module__': frame.module.name}
        cframe = Frame(ns, frame.module, closure=frame, func=frame.func, is_class=True)
        self.run_block(s.body, cframe)
        cls = ClassVal(s.name, bases, ns, module=frame.module)
        cls.qualname = qual
        for v in ns.values():
            f = v.func if isinstance(v, (ClassMethodVal, StaticMethodVal)) else v
            if isinstance(f, FuncVal) and f.owner is None:
                f.owner = cls
            if isinstance(v, PropertyVal):
                for g in (v.fget, v.fset):
                    if isinstance(g, FuncVal) and g.owner is None:
                        g.owner = cls
        for d in reversed(s.decorator_list):
            cls = self.call(self.eval(d, frame), [cls], {})
        self.store_name(s.name, cls, frame)
        return None

    def st_Return(self, s, frame):
        raise _Return(self.eval(s.value, frame) if s.value is not None else None)

    def st_Assign(self, s, frame):
        v = self.eval(s.value, frame)
        for t in s.targets:
            self.assign(t, v, frame)
        return None

    def st_AnnAssign(self, s, frame):
        if s.value is not None:
            self.assign(s.target, self.eval(s.value, frame), frame)
        return None

    def st_AugAssign(self, s, frame):
        t = s.target
        if isinstance(t, ast.Name):
            cur = self.load_name(t.id, frame)
            new = self.binop_inplace(s.op, cur, self.eval(s.value, frame))
            self.store_name(t.id, new, frame)
        elif isinstance(t, ast.Attribute):
            o = self.eval(t.value, frame)
            cur = self.getattr(o, t.attr)
            new = self.binop_inplace(s.op, cur, self.eval(s.value, frame))
            self.setattr(o, t.attr, new)
        elif isinstance(t, ast.Subscript):
            o = self.eval(t.value, frame)
            k = self.eval_slice(t.slice, frame)
            cur = self.getitem(o, k)
            new = self.binop_inplace(s.op, cur, self.eval(s.value, frame))
            self.setitem(o, k, new)
        else:
            raise Unsupported("augassign target")
        return None

    def st_Delete(self, s, frame):
        for t in s.targets:
            if isinstance(t, ast.Subscript):
                o = self.eval(t.value, frame)
                k = self.eval_slice(t.slice, frame)
                self.delitem(o, k)
            elif isinstance(t, ast.Name):
                frame.locals.pop(t.id, None)
            elif isinstance(t, ast.Attribute):
                o = self.eval(t.value, frame)
                if isinstance(o, Obj):
                    o.attrs.pop(t.attr, None)
                else:
                    raise Unsupported("del attribute")
            else:
                raise Unsupported("del target")
        return None

    def st_If(self, s, frame):
        if self.truthy(self.eval(s.test, frame)):
            return self.exec_block(s.body, frame)
        return self.exec_block(s.orelse, frame)

    def st_Assert(self, s, frame):
        if not self.truthy(self.eval(s.test, frame)):
            if s.msg is not None:
                self.eval(s.msg, frame)
            self.throw('AssertionError')
        return None

    def st_Raise(self, s, frame):
        if s.exc is None:
            if frame.exc_stack:
                raise PyRaise(frame.exc_stack[-1])
            self.throw('RuntimeError')
        e = self.eval(s.exc, frame)
        if isinstance(e, ClassVal):
            e = self.call(e, [], {})
        if not isinstance(e, Obj):
            raise Unsupported("raise of a non-exception value")
        if s.cause is not None:
            self.eval(s.cause, frame)
        raise PyRaise(e)

    def st_Global(self, s, frame):
        frame.globals_decl.update(s.names)
        return None

    def st_Nonlocal(self, s, frame):
        frame.nonlocal_decl.update(s.names)
        return None

    def st_Break(self, s, frame):
        raise _Break()

    def st_Continue(self, s, frame):
        raise _Continue()

    def st_With(self, s, frame):
        return self._with(s, frame)

    def _with(self, s, frame):
        mgrs = []
        for item in s.items:
            m = self.eval(item.context_expr, frame)
            enter = self.getattr(m, '__enter__')
            v = self.call(enter, [], {})
            if item.optional_vars is not None:
                self.assign(item.optional_vars, v, frame)
            mgrs.append(m)
        try:
            yield from self.exec_block(s.body, frame)
        finally:
            for m in reversed(mgrs):
                self.call(self.getattr(m, '__exit__'), [None, None, None], {})

    def st_Try(self, s, frame):
        return self._try(s, frame)

    def _try(self, s, frame):
        try:
            try:
                yield from self.exec_block(s.body, frame)
            except PyRaise as pr:
                handled = False
                for h in s.handlers:
                    if h.type is None:
                        match = True
                    else:
                        t = self.eval(h.type, frame)
                        match = self.exc_matches(pr.exc, t)
                    if match:
                        handled = True
                        if h.name:
                            frame.locals[h.name] = pr.exc
                        frame.exc_stack.append(pr.exc)
                        try:
                            yield from self.exec_block(h.body, frame)
                        finally:
                            frame.exc_stack.pop()
                            if h.name:
                                frame.locals.pop(h.name, None)
                        break
                if not handled:
                    raise
            else:
                yield from self.exec_block(s.orelse, frame)
        finally:
            if s.finalbody:
                yield from self.exec_block(s.finalbody, frame)

    def exc_matches(self, exc, t):
        if isinstance(t, tuple):
            return any(self.exc_matches(exc, x) for x in t)
        if isinstance(t, ClassVal):
            return exc.cls.is_subclass(t)
        raise Unsupported("except clause type")

    # loops ----------------------------------------------------------------------------
    def loop_key(self, node, frame):
        f = frame.func
        if f is None:
            return None
        if not hasattr(f, '_loop_ordinals'):
            ords = {}
            n = 0
            for x in ast.walk(f.node):
                pass
            # ordinal in source order
            loops = [x for x in _walk_no_nested_ordered(f.node) if isinstance(x, (ast.While, ast.For))]
            for i, x in enumerate(loops, 1):
                ords[id(x)] = i
            f._loop_ordinals = ords
        o = f._loop_ordinals.get(id(node))
        return (f.qualname, o)

    def st_While(self, s, frame):
        key = self.loop_key(s, frame)
        h = self.loop_handlers.get(key) if key else None
        if h is not None:
            return h(self, s, frame)
        return self._while(s, frame, key)

    def _while(self, s, frame, key):
        n = 0
        while True:
            c = self.eval(s.test, frame)
            symbolic = is_sym(c)
            if not self.truthy(c):
                break
            n += 1
            self.loop_tick(n, key, symbolic)
            try:
                yield from self.exec_block(s.body, frame)
            except _Break:
                return
            except _Continue:
                continue
        yield from self.exec_block(s.orelse, frame)

    def loop_tick(self, n, key, symbolic=True):
        if sym.have_ctx():
            c = sym.ctx()
            bound = c.loop_bound if c.loop_bound is not None else self.default_loop_bound
            if n > bound and (symbolic or n > 100000):
                c.bounded = True
                c.notes.append(f'loop {key} cut after {bound} iterations')
                raise sym.PathLimit(f'loop {key}')
        elif n > 5_000_000:
            raise Unsupported("runaway loop")

    def st_For(self, s, frame):
        key = self.loop_key(s, frame)
        h = self.loop_handlers.get(key) if key else None
        if h is not None:
            return h(self, s, frame)
        return self._for(s, frame, key)

    def _for(self, s, frame, key):
        itv = self.eval(s.iter, frame)
        if isinstance(itv, SRange) and frame.func is not None and frame.func.is_generator and sym.have_ctx():
            sv = self._uniform_map(s, frame, itv)
            if sv is not None:
                yield sv
                return
        it = self.iterate(itv)
        n = 0
        for v in it:
            n += 1
            self.assign(s.target, v, frame)
            try:
                yield from self.exec_block(s.body, frame)
            except _Break:
                return
            except _Continue:
                continue
        yield from self.exec_block(s.orelse, frame)

    def _uniform_map(self, s, frame, rng):
        """`for x in range(a, b, c): <body with exactly one yield, no other effect>` with symbolic bounds, as a SeqVal.
        The body is executed for an arbitrary index to check its shape (one yield, no break/return, no heap write, no local
        other than the loop variable assigned); item(j) re-executes it with the loop variable bound to a + j*c."""
        from . import loops as _loops
        if not isinstance(s.target, ast.Name) or s.orelse:
            return None
        assigned = _loops.assigned_names(s.body)
        if assigned - {s.target.id}:
            return None
        if any(isinstance(n, (ast.Break, ast.Continue, ast.Return)) for st in s.body for n in ast.walk(st)):
            return None
        from . import extern as _ex
        count = self.call(self.builtins['len'], [rng], {})

        def item(j, frame=frame, s=s, rng=rng):
            f2 = Frame(dict(frame.locals), frame.module, closure=frame.closure, func=frame.func)
            f2.locals[s.target.id] = rng.start + j * rng.step
            saved = self.write_log
            self.write_log = []
            try:
                ys = list(self.exec_block(s.body, f2))
                writes = self.write_log
            finally:
                self.write_log = saved
            if len(ys) != 1 or writes:
                raise Unsupported("loop body is not a uniform single-yield map")
            return ys[0]
        # shape check at an arbitrary index
        c = sym.ctx()
        k = SInt(c.fresh_int('it'))
        c.solver.push()
        try:
            c.solver.add(sym._b(sym.land(k >= 0, k < count)))
            item(k)
        except PyRaise:
            c.solver.pop()
            return None          # the body can raise: not a pure map; fall back to unrolling
        c.solver.pop()
        return SeqVal(count, item)

    def iterate(self, v):
        """host iterator over an interpreted iterable"""
        if isinstance(v, (list, tuple, str, bytes, bytearray, range, dict, set, frozenset)):
            return iter(list(v) if isinstance(v, (list, dict, set)) else v)
        if isinstance(v, GenObj):
            return self._iter_gen(v)
        if isinstance(v, SRange):
            return self._iter_srange(v)
        if isinstance(v, Obj):
            it = self.call_method(v, '__iter__', [])
            return self.iterate(it)
        if hasattr(v, '__next__') or hasattr(v, '__iter__') and not is_sym(v):
            if hasattr(v, 'pyvc_iter'):
                return v.pyvc_iter(self)
            return iter(v)
        self.throw('TypeError', 'object is not iterable')

    def _iter_gen(self, g):
        while True:
            try:
                yield self.gen_next(g)
            except PyRaise as pr:
                if pr.exc.cls.name == 'StopIteration':
                    return
                raise

    def gen_next(self, g):
        if g.done:
            self.throw('StopIteration')
        try:
            return next(g.hostgen)
        except StopIteration:
            g.done = True
            self.throw('StopIteration')
        except BaseException:
            g.done = True
            raise

    def _iter_srange(self, r):
        i = r.start
        n = 0
        step = r.step
        if is_sym(step):
            raise Unsupported("range with symbolic step")
        while True:
            c = (i < r.stop) if step > 0 else (i > r.stop)
            if not sym.truth(c):
                return
            n += 1
            self.loop_tick(n, 'range', True)
            yield i
            i = i + step

    # assignment -----------------------------------------------------------------------
    def assign(self, t, v, frame):
        if isinstance(t, ast.Name):
            self.store_name(t.id, v, frame)
        elif isinstance(t, ast.Attribute):
            self.setattr(self.eval(t.value, frame), t.attr, v)
        elif isinstance(t, ast.Subscript):
            self.setitem(self.eval(t.value, frame), self.eval_slice(t.slice, frame), v)
        elif isinstance(t, (ast.Tuple, ast.List)):
            vals = list(self.iterate(v))
            star = [i for i, e in enumerate(t.elts) if isinstance(e, ast.Starred)]
            if star:
                i = star[0]
                after = len(t.elts) - i - 1
                if len(vals) < len(t.elts) - 1:
                    self.throw('ValueError', 'not enough values to unpack')
                for e, x in zip(t.elts[:i], vals[:i]):
                    self.assign(e, x, frame)
                self.assign(t.elts[i].value, vals[i:len(vals) - after], frame)
                for e, x in zip(t.elts[i + 1:], vals[len(vals) - after:]):
                    self.assign(e, x, frame)
            else:
                if len(vals) != len(t.elts):
                    self.throw('ValueError', 'wrong number of values to unpack')
                for e, x in zip(t.elts, vals):
                    self.assign(e, x, frame)
        else:
            raise Unsupported(f"assignment target {type(t).__name__}")

    def store_name(self, name, v, frame):
        if name in frame.globals_decl:
            frame.module.ns[name] = v
            return
        if name in frame.nonlocal_decl:
            f = frame.closure
            while f is not None:
                if name in f.locals:
                    f.locals[name] = v
                    return
                f = f.closure
        frame.locals[name] = v

    def load_name(self, name, frame):
        f = frame
        first = True
        while f is not None:
            if (first or not f.is_class) and name in f.locals:
                return f.locals[name]
            first = False
            f = f.closure
        ns = frame.module.ns
        if name in ns:
            return ns[name]
        if name in self.builtins:
            return self.builtins[name]
        self.throw('NameError', name)

    # -- expressions -------------------------------------------------------------------
    def eval(self, e, frame):
        m = getattr(self, 'ex_' + type(e).__name__, None)
        if m is None:
            raise Unsupported(f"expression {type(e).__name__} at line {getattr(e, 'lineno', '?')}")
        return m(e, frame)

    def ex_Constant(self, e, frame):
        return e.value

    def ex_Name(self, e, frame):
        return self.load_name(e.id, frame)

    def ex_NamedExpr(self, e, frame):
        v = self.eval(e.value, frame)
        self.store_name(e.target.id, v, frame)
        return v

    def ex_Tuple(self, e, frame):
        return tuple(self._elts(e.elts, frame))

    def ex_List(self, e, frame):
        return self._elts(e.elts, frame)

    def ex_Set(self, e, frame):
        return set(self._elts(e.elts, frame))

    def _elts(self, elts, frame):
        out = []
        for x in elts:
            if isinstance(x, ast.Starred):
                out.extend(self.iterate(self.eval(x.value, frame)))
            else:
                out.append(self.eval(x, frame))
        return out

    def ex_Dict(self, e, frame):
        d = {}
        for k, v in zip(e.keys, e.values):
            if k is None:
                d.update(self.eval(v, frame))
            else:
                d[self.hashable(self.eval(k, frame))] = self.eval(v, frame)
        return d

    def hashable(self, k):
        if is_sym(k):
            raise NeedConcrete("symbolic dict key")
        return k

    def ex_Attribute(self, e, frame):
        return self.getattr(self.eval(e.value, frame), e.attr)

    def ex_Subscript(self, e, frame):
        o = self.eval(e.value, frame)
        k = self.eval_slice(e.slice, frame)
        return self.getitem(o, k)

    def eval_slice(self, s, frame):
        if isinstance(s, ast.Slice):
            return slice(self.eval(s.lower, frame) if s.lower is not None else None,
                         self.eval(s.upper, frame) if s.upper is not None else None,
                         self.eval(s.step, frame) if s.step is not None else None)
        return self.eval(s, frame)

    def ex_Slice(self, e, frame):
        return self.eval_slice(e, frame)

    def ex_Starred(self, e, frame):
        raise Unsupported("starred expression")

    def ex_Lambda(self, e, frame):
        return self.make_function(e, frame)

    def ex_IfExp(self, e, frame):
        if self.truthy(self.eval(e.test, frame)):
            return self.eval(e.body, frame)
        return self.eval(e.orelse, frame)

    def ex_BoolOp(self, e, frame):
        is_and = isinstance(e.op, ast.And)
        v = None
        for x in e.values:
            v = self.eval(x, frame)
            t = self.truthy(v)
            if is_and and not t:
                return v
            if not is_and and t:
                return v
        return v

    def ex_UnaryOp(self, e, frame):
        v = self.eval(e.operand, frame)
        if isinstance(e.op, ast.Not):
            if isinstance(v, (SBool, SInt)):
                return sym.lnot(v)
            return not self.truthy(v)
        if isinstance(e.op, ast.USub):
            if isinstance(v, Obj):
                return self.call_method(v, '__neg__', [])
            return -v
        if isinstance(e.op, ast.UAdd):
            return +v
        if isinstance(e.op, ast.Invert):
            if isinstance(v, Obj):
                return self.call_method(v, '__invert__', [])
            if isinstance(v, SBool):
                return -sym._int_t(v) - 1 if False else sym.mk_int(-sym._int_t(v) - 1)
            if isinstance(v, SInt):
                return -v - 1
            return ~v
        raise Unsupported("unary op")

    def ex_BinOp(self, e, frame):
        return self.binop(e.op, self.eval(e.left, frame), self.eval(e.right, frame))

    _OPNAMES = {ast.Add: 'add', ast.Sub: 'sub', ast.Mult: 'mul', ast.FloorDiv: 'floordiv', ast.Mod: 'mod',
                ast.LShift: 'lshift', ast.RShift: 'rshift', ast.BitAnd: 'and', ast.BitOr: 'or',
                ast.BitXor: 'xor', ast.Div: 'truediv', ast.Pow: 'pow', ast.MatMult: 'matmul'}

    def binop_inplace(self, op, a, b):
        name = self._OPNAMES[type(op)]
        if isinstance(a, Obj):
            f, _ = a.cls.lookup('__i' + name + '__')
            if f is not _MISSING:
                r = self.call(BoundMethod(a, f), [b], {})
                if r is not NotImplemented:
                    return r
        elif hasattr(a, 'pyvc_inplace'):
            r = a.pyvc_inplace(self, name, b)
            if r is not NotImplemented:
                return r
        elif isinstance(a, list) and name == 'add':
            a.extend(self.iterate(b))
            return a
        return self.binop(op, a, b)

    def _reflected_first(self, a, b, rname):
        """the data model's priority rule: when the right operand's class is a proper subclass of the left operand's class and
        provides a different implementation of the reflected method, that method is tried before the left operand's"""
        if not (isinstance(a, Obj) and isinstance(b, Obj)) or a.cls is b.cls or a.cls not in b.cls.mro:
            return None
        fb, _ = b.cls.lookup(rname)
        fa, _ = a.cls.lookup(rname)
        if fb is _MISSING or fb is fa:
            return None
        return fb

    def binop(self, op, a, b):
        name = self._OPNAMES[type(op)]
        tried_reflected = False
        fr = self._reflected_first(a, b, '__r' + name + '__')
        if fr is not None:
            tried_reflected = True
            r = self.call(BoundMethod(b, fr), [a], {})
            if r is not NotImplemented:
                return r
        if isinstance(a, Obj):
            f, _ = a.cls.lookup('__' + name + '__')
            if f is not _MISSING:
                r = self.call(BoundMethod(a, f), [b], {})
                if r is not NotImplemented:
                    return r
        if isinstance(b, Obj) and not tried_reflected:
            f, _ = b.cls.lookup('__r' + name + '__')
            if f is not _MISSING:
                r = self.call(BoundMethod(b, f), [a], {})
                if r is not NotImplemented:
                    return r
            self.throw('TypeError', f'unsupported operand for {name}')
        if isinstance(a, Obj):
            self.throw('TypeError', f'unsupported operand for {name}')
        if hasattr(a, 'pyvc_binop'):
            r = a.pyvc_binop(self, name, b)
            if r is not NotImplemented:
                return r
        if hasattr(b, 'pyvc_rbinop'):
            r = b.pyvc_rbinop(self, name, a)
            if r is not NotImplemented:
                return r
        return self.prim_binop(name, a, b)

    def prim_binop(self, name, a, b):
        from . import extern as _ex
        # '0' * n and concatenation of binary-digit strings (exp-Golomb encoders)
        if name == 'mul' and isinstance(a, str) and a in ('0', '1') and isinstance(b, SInt):
            bit = (a == '1')
            n = sym.smax(b, 0)
            return _ex.SStr('bin', _ex.BA(n, lambda i: bit))
        if name == 'add' and isinstance(a, _ex.SStr) and a.kind == 'bin' and isinstance(b, (str, _ex.SStr)):
            if isinstance(b, str):
                if not set(b) <= {'0', '1'}:
                    raise Unsupported("concatenating a digit string with a non-binary string")
                vb = _ex.BA.concrete([ch == '1' for ch in b])
            else:
                vb = b.view
            va = a.view
            fa, na, fb = va.bit, va.n, vb.bit
            return _ex.SStr('bin', _ex.BA(na + vb.n, lambda i: _ex._sel2(i < na, fa, i, fb, i - na)))
        if name == 'add' and (isinstance(a, _ex.SStr) and isinstance(b, str) or isinstance(b, _ex.SStr) and isinstance(a, str)):
            return OpaqueStr()          # text built from digit strings: only ever printed
        symbolic = is_sym(a) or is_sym(b)
        if symbolic:
            if not (sym.is_intlike(a) and sym.is_intlike(b)):
                if name == 'mul' and isinstance(a, (str, list, tuple, bytes)) or name == 'mul' and isinstance(b, (str, list, tuple, bytes)):
                    raise NeedConcrete("sequence repetition by a symbolic count")
                if name == 'mod' and isinstance(a, str):
                    return OpaqueStr()
                if isinstance(a, float) or isinstance(b, float):
                    raise Unsupported("float arithmetic with a symbolic int")
                self.throw('TypeError', f'unsupported operand types for {name}')
            if isinstance(a, SBool) or isinstance(a, bool):
                a = sym.mk_int(sym._int_t(a)) if name not in ('and', 'or', 'xor') else a
            if isinstance(b, SBool) or isinstance(b, bool):
                b = sym.mk_int(sym._int_t(b)) if name not in ('and', 'or', 'xor') else b
            if name == 'add':
                return a + b
            if name == 'sub':
                return a - b
            if name == 'mul':
                return a * b
            if name in ('floordiv', 'mod'):
                if sym.truth(sym.eq(b, 0)):
                    self.throw('ZeroDivisionError', 'integer division or modulo by zero')
                q, r = sym.floordiv_mod(a, b)
                return q if name == 'floordiv' else r
            if name in ('lshift', 'rshift'):
                if sym.truth(b < 0):
                    self.throw('ValueError', 'negative shift count')
                p = sym.pow2(b)
                if name == 'lshift':
                    return a * p
                return sym.floordiv_mod(a, p)[0]
            if name in ('and', 'or', 'xor') and isinstance(a, (bool, SBool)) and isinstance(b, (bool, SBool)):
                if name == 'and':
                    return sym.land(a, b)
                if name == 'or':
                    return sym.lor(a, b)
                return sym.lnot(sym.iff(a, b))
            if name == 'pow' and isinstance(a, int) and a == 2:
                if sym.truth(b < 0):
                    raise Unsupported("2 ** negative symbolic")
                return sym.pow2(b)
            raise Unsupported(f"symbolic operator {name}")
        try:
            if name == 'add':
                return a + b
            if name == 'sub':
                return a - b
            if name == 'mul':
                return a * b
            if name == 'floordiv':
                return a // b
            if name == 'mod':
                return a % b
            if name == 'lshift':
                return a << b
            if name == 'rshift':
                return a >> b
            if name == 'and':
                return a & b
            if name == 'or':
                return a | b
            if name == 'xor':
                return a ^ b
            if name == 'truediv':
                return a / b
            if name == 'pow':
                return a ** b
        except PyRaise:
            raise
        except (sym.Infeasible, sym.PathLimit, Unsupported, NeedConcrete):
            raise
        except Exception as ex:
            self.host_exc(ex)
        raise Unsupported(f"operator {name}")

    def host_exc(self, ex):
        """convert a host exception raised by a passthrough call into a Python-level one"""
        name = type(ex).__name__
        if name == 'error' and type(ex).__module__ == 'struct':
            name = 'struct.error'
        if name in self.builtins and isinstance(self.builtins[name], ClassVal):
            self.throw(name, *[a for a in ex.args if isinstance(a, (str, int))][:1])
        for c in type(ex).__mro__:
            if c.__name__ in self.builtins and isinstance(self.builtins[c.__name__], ClassVal):
                self.throw(c.__name__, str(ex))
        raise Unsupported(f"host exception {name}: {ex}")

    def ex_Compare(self, e, frame):
        left = self.eval(e.left, frame)
        result = True
        for op, rn in zip(e.ops, e.comparators):
            right = self.eval(rn, frame)
            r = self.compare(op, left, right)
            if len(e.ops) == 1:
                return r
            if is_sym(r) or is_sym(result):
                result = sym.land(result, r)
                if result is False:
                    return False
            else:
                if not self.truthy(r):
                    return r
                result = r
            left = right
        return result

    def compare(self, op, a, b):
        if isinstance(op, ast.Is):
            return self.is_(a, b)
        if isinstance(op, ast.IsNot):
            return not self.is_(a, b)
        if isinstance(op, ast.In):
            return self.contains(b, a)
        if isinstance(op, ast.NotIn):
            r = self.contains(b, a)
            return sym.lnot(r) if is_sym(r) else (not r)
        if isinstance(op, ast.Eq):
            return self.equals(a, b)
        if isinstance(op, ast.NotEq):
            if isinstance(a, Obj):
                f, _ = a.cls.lookup('__ne__')
                if f is not _MISSING and not isinstance(f, Builtin):
                    return self.call(BoundMethod(a, f), [b], {})
            r = self.equals(a, b)
            return sym.lnot(r) if is_sym(r) else (not self.truthy(r))
        opn = {ast.Lt: '__lt__', ast.LtE: '__le__', ast.Gt: '__gt__', ast.GtE: '__ge__'}[type(op)]
        if isinstance(a, Obj) or isinstance(b, Obj):
            if isinstance(a, Obj):
                f, _ = a.cls.lookup(opn)
                if f is not _MISSING:
                    r = self.call(BoundMethod(a, f), [b], {})
                    if r is not NotImplemented:
                        return r
            self.throw('TypeError', 'unorderable')
        try:
            if opn == '__lt__':
                return a < b
            if opn == '__le__':
                return a <= b
            if opn == '__gt__':
                return a > b
            return a >= b
        except TypeError as ex:
            self.host_exc(ex)

    def is_(self, a, b):
        if a is None or b is None:
            return a is b
        if isinstance(a, (Obj, ClassVal, FuncVal, ModuleVal)) or isinstance(b, (Obj, ClassVal, FuncVal, ModuleVal)):
            return a is b
        if isinstance(a, bool) and isinstance(b, bool):
            return a is b
        if isinstance(a, (SBool, bool)) and isinstance(b, (SBool, bool)):
            # `x is True` on a bool-valued symbolic
            return sym.iff(a, b)
        if is_sym(a) or is_sym(b):
            if isinstance(a, (bool, SBool)) != isinstance(b, (bool, SBool)):
                return False
            raise Unsupported("identity comparison of symbolic ints")
        return a is b

    def equals(self, a, b):
        fr = self._reflected_first(a, b, '__eq__')
        if fr is not None and not isinstance(fr, Builtin):
            r = self.call(BoundMethod(b, fr), [a], {})
            if r is not NotImplemented:
                return r
        if isinstance(a, Obj):
            f, _ = a.cls.lookup('__eq__')
            if f is not _MISSING and not isinstance(f, Builtin):
                r = self.call(BoundMethod(a, f), [b], {})
                if r is not NotImplemented:
                    return r
            if isinstance(b, Obj):
                g, _ = b.cls.lookup('__eq__')
                if g is not _MISSING and not isinstance(g, Builtin):
                    r = self.call(BoundMethod(b, g), [a], {})
                    if r is not NotImplemented:
                        return r
            return a is b
        if isinstance(b, Obj):
            return self.equals(b, a)
        if hasattr(a, 'pyvc_eq'):
            return a.pyvc_eq(self, b)
        if hasattr(b, 'pyvc_eq'):
            return b.pyvc_eq(self, a)
        if is_sym(a) or is_sym(b):
            if not (sym.is_intlike(a) and sym.is_intlike(b)):
                if isinstance(a, float) or isinstance(b, float):
                    raise Unsupported("float == symbolic int")
                return False
            return sym.eq(a, b)
        if isinstance(a, (tuple, list)) and type(a) is type(b):
            if len(a) != len(b):
                return False
            rs = [self.equals(x, y) for x, y in zip(a, b)]
            if any(is_sym(r) for r in rs):
                return sym.land(*rs)
            return all(self.truthy(r) for r in rs)
        return a == b

    def contains(self, container, item):
        if isinstance(container, Obj):
            f, _ = container.cls.lookup('__contains__')
            if f is not _MISSING:
                return self.truthy(self.call(BoundMethod(container, f), [item], {}))
            for x in self.iterate(container):
                if self.truthy(self.equals(x, item)):
                    return True
            return False
        if isinstance(container, (list, tuple, set, frozenset)) and not isinstance(container, str):
            if is_sym(item) or any(is_sym(x) for x in container):
                rs = [self.equals(x, item) for x in container]
                rs = [r for r in rs if r is not False]
                if not rs:
                    return False
                return sym.lor(*rs)
            if isinstance(item, Obj) or any(isinstance(x, Obj) for x in container):
                return any(self.truthy(self.equals(x, item)) for x in container)
            try:
                return item in container
            except TypeError:
                return any(x == item for x in container)
        if isinstance(container, dict):
            if is_sym(item):
                rs = [sym.eq(k, item) for k in container if isinstance(k, int)]
                return sym.lor(*rs) if rs else False
            return item in container
        if isinstance(container, SRange):
            raise Unsupported("in symbolic range")
        if is_sym(item):
            if isinstance(container, range):
                if container.step == 1:
                    return sym.land(item >= container.start, item < container.stop)
            raise NeedConcrete("symbolic item in host container")
        try:
            return item in container
        except TypeError as ex:
            self.host_exc(ex)

    def ex_JoinedStr(self, e, frame):
        parts = []
        opaque = False
        for v in e.values:
            if isinstance(v, ast.Constant):
                parts.append(v.value)
                continue
            val = self.eval(v.value, frame)
            spec = ''
            if v.format_spec is not None:
                spec = self.eval(v.format_spec, frame)
            if is_sym(val) or isinstance(val, OpaqueStr) or isinstance(spec, OpaqueStr):
                opaque = True
                continue
            if isinstance(val, Obj):
                if v.conversion == ord('r'):
                    s = self.repr_of(val)
                else:
                    s = self.str_of(val)
                if isinstance(s, OpaqueStr):
                    opaque = True
                    continue
                val = s
            elif _contains_model(val):
                opaque = True
                continue
            else:
                if v.conversion == ord('r'):
                    val = repr(val)
                elif v.conversion == ord('s'):
                    val = str(val)
            try:
                parts.append(format(val, spec))
            except Exception as ex:
                self.host_exc(ex)
        if opaque:
            return OpaqueStr()
        return ''.join(parts)

    def ex_FormattedValue(self, e, frame):
        raise Unsupported("bare FormattedValue")

    def str_of(self, v):
        if isinstance(v, Obj):
            f, c = v.cls.lookup('__str__')
            if f is not _MISSING and not isinstance(f, Builtin):
                return self.call(BoundMethod(v, f), [], {})
            f, c = v.cls.lookup('__repr__')
            if f is not _MISSING and not isinstance(f, Builtin):
                return self.call(BoundMethod(v, f), [], {})
            if 'args' in v.attrs:
                a = v.attrs['args']
                if len(a) == 1 and isinstance(a[0], str):
                    return a[0]
                if not a:
                    return ''
            return OpaqueStr()
        if is_sym(v) or _contains_model(v):
            return OpaqueStr()
        return str(v)

    def repr_of(self, v):
        if isinstance(v, Obj):
            f, c = v.cls.lookup('__repr__')
            if f is not _MISSING and not isinstance(f, Builtin):
                return self.call(BoundMethod(v, f), [], {})
            return OpaqueStr()
        if is_sym(v) or _contains_model(v):
            return OpaqueStr()
        return repr(v)

    def ex_ListComp(self, e, frame):
        out = []
        self._comp(e.generators, 0, Frame({}, frame.module, closure=frame, func=frame.func), lambda f: out.append(self.eval(e.elt, f)))
        return out

    def ex_SetComp(self, e, frame):
        out = set()
        self._comp(e.generators, 0, Frame({}, frame.module, closure=frame, func=frame.func), lambda f: out.add(self.eval(e.elt, f)))
        return out

    def ex_DictComp(self, e, frame):
        out = {}

        def add(f):
            out[self.hashable(self.eval(e.key, f))] = self.eval(e.value, f)
        self._comp(e.generators, 0, Frame({}, frame.module, closure=frame, func=frame.func), add)
        return out

    def ex_GeneratorExp(self, e, frame):
        # evaluated eagerly: the generator expressions in the repo have no observable laziness
        out = []
        self._comp(e.generators, 0, Frame({}, frame.module, closure=frame, func=frame.func), lambda f: out.append(self.eval(e.elt, f)))
        return iter(out)

    def _comp(self, gens, i, frame, emit):
        if i == len(gens):
            emit(frame)
            return
        g = gens[i]
        for v in self.iterate(self.eval(g.iter, frame)):
            self.assign(g.target, v, frame)
            if all(self.truthy(self.eval(c, frame)) for c in g.ifs):
                self._comp(gens, i + 1, frame, emit)

    def ex_Call(self, e, frame):
        # zero-argument super()
        if isinstance(e.func, ast.Name) and e.func.id == 'super' and not e.args:
            return self.make_super(frame)
        f = self.eval(e.func, frame)
        args = []
        for a in e.args:
            if isinstance(a, ast.Starred):
                args.extend(self.iterate(self.eval(a.value, frame)))
            else:
                args.append(self.eval(a, frame))
        kwargs = {}
        for k in e.keywords:
            if k.arg is None:
                d = self.eval(k.value, frame)
                kwargs.update(d)
            else:
                kwargs[k.arg] = self.eval(k.value, frame)
        return self.call(f, args, kwargs)

    def make_super(self, frame):
        f = frame
        while f is not None and (f.func is None or f.func.owner is None):
            f = f.closure
        if f is None:
            raise Unsupported("super() outside method")
        fn = f.func
        a = fn.node.args
        first = (a.posonlyargs + a.args)[0].arg
        return SuperVal(fn.owner, f.locals[first])

    # -- truthiness --------------------------------------------------------------------
    def truthy(self, v) -> bool:
        if isinstance(v, bool):
            return v
        if isinstance(v, (SBool, SInt)):
            return bool(v)
        if v is None:
            return False
        if isinstance(v, Obj):
            f, _ = v.cls.lookup('__bool__')
            if f is not _MISSING and not isinstance(f, Builtin):
                return self.truthy(self.call(BoundMethod(v, f), [], {}))
            f, _ = v.cls.lookup('__len__')
            if f is not _MISSING and not isinstance(f, Builtin):
                n = self.call(BoundMethod(v, f), [], {})
                return sym.truth(sym.lnot(sym.eq(n, 0)))
            return True
        if hasattr(v, 'pyvc_truthy'):
            return v.pyvc_truthy(self)
        if isinstance(v, (ClassVal, FuncVal, ModuleVal, BoundMethod, Builtin, Partial, GenObj)):
            return True
        if type(v).__module__.startswith('pyvc'):
            # a model object whose truth value has not been given a meaning: never guess
            raise Unsupported(f'truth value of a {type(v).__name__}')
        return bool(v)

    # -- attribute access --------------------------------------------------------------
    def getattr(self, o, name):
        r = self.getattr_opt(o, name)
        if r is _MISSING:
            self.throw('AttributeError', name)
        return r

    def getattr_opt(self, o, name):
        if isinstance(o, Obj):
            if name == '__class__':
                return o.cls
            if name == '__dict__' and o.cls.has_dict():
                return o.attrs
            v, c = o.cls.lookup(name)
            if isinstance(v, PropertyVal):
                if v.fget is None:
                    self.throw('AttributeError', name)
                return self.call(v.fget, [o], {})
            if name in o.attrs:
                return o.attrs[name]
            if v is not _MISSING:
                return self.bind(v, o, o.cls)
            ga, _ = o.cls.lookup('__getattr__')
            if ga is not _MISSING:
                return self.call(BoundMethod(o, ga), [name], {})
            return _MISSING
        if isinstance(o, ClassVal):
            if name == '__name__':
                return o.name
            if name == '__qualname__':
                return getattr(o, 'qualname', o.name)
            if name == '__mro__':
                return tuple(o.mro)
            if name == '__doc__':
                return None
            v, c = o.lookup(name)
            if v is _MISSING:
                return _MISSING
            if isinstance(v, ClassMethodVal):
                return BoundMethod(o, v.func)
            if isinstance(v, StaticMethodVal):
                return v.func
            return v
        if isinstance(o, ModuleVal):
            if name in o.ns:
                return o.ns[name]
            if name == '__class__':
                return _MISSING
            if o.name.startswith('bitstring'):
                try:
                    return self.get_module(o.name + '.' + name)
                except (FileNotFoundError, Unsupported):
                    return _MISSING
            return _MISSING
        if isinstance(o, SuperVal):
            return self.super_getattr(o, name)
        if isinstance(o, FuncVal):
            if name == '__name__':
                return o.name
            if name == '__qualname__':
                return o.qualname
            if name == '__doc__':
                return None
            d = getattr(o, 'fattrs', None)
            if d and name in d:
                return d[name]
            if name == 'cache_clear':
                return Builtin(lambda: None, 'cache_clear')
            return _MISSING
        if isinstance(o, BoundMethod):
            if name == '__func__':
                return o.func
            if name == '__self__':
                return o.self_
            return self.getattr_opt(o.func, name)
        if isinstance(o, Partial):
            if name == 'func':
                return o.func
            if name == 'args':
                return o.args
            if name == 'keywords':
                return o.kwargs
            return _MISSING
        if isinstance(o, Builtin):
            if name == '__name__':
                return o.name.split('.')[-1]
            if hasattr(o, 'pyvc_getattr'):
                return o.pyvc_getattr(self, name)
            return _MISSING
        if isinstance(o, PropertyVal):
            if name in ('setter', 'getter'):
                return Builtin(getattr(o, name), name)
            if name in ('fget', 'fset', 'fdel'):
                return getattr(o, name)
            return _MISSING
        if hasattr(o, 'pyvc_getattr'):
            return o.pyvc_getattr(self, name)
        if is_sym(o):
            if name in ('real', 'numerator'):
                return o
            if name == 'bit_length':
                raise Unsupported("bit_length of symbolic int")
            return _MISSING
        return self.host_getattr(o, name)

    def host_getattr(self, o, name):
        if isinstance(o, slice) and name == 'indices':
            from . import extern
            return Builtin(lambda length: extern.slice_indices(self, o, length), 'slice.indices')
        if isinstance(o, (str, bytes, bytearray)) and name in ('join',):
            def join(it):
                items = list(self.iterate(it))
                from . import extern as _ex2
                if any(isinstance(x, (OpaqueStr, _ex2.SStr)) or is_sym(x) for x in items) or isinstance(o, OpaqueStr):
                    return OpaqueStr()
                for x in items:
                    if not isinstance(x, (str, bytes, bytearray)):
                        self.throw('TypeError', 'sequence item: expected str instance')
                return o.join(items)
            return Builtin(join, 'join')
        if isinstance(o, list) and name in ('extend',):
            return Builtin(lambda it: o.extend(list(self.iterate(it))), 'list.extend')
        if isinstance(o, list) and name == 'index':
            def index(x):
                for i, y in enumerate(o):
                    if self.truthy(self.equals(y, x)):
                        return i
                self.throw('ValueError', 'not in list')
            return Builtin(index, 'list.index')
        if isinstance(o, list) and name == 'count':
            return Builtin(lambda x: sum(1 for y in o if self.truthy(self.equals(y, x))), 'list.count')
        if isinstance(o, dict) and name == 'get':
            def get(k, d=None):
                if is_sym(k):
                    for kk in o:
                        if isinstance(kk, int) and sym.truth(sym.eq(kk, k)):
                            return o[kk]
                    return d
                try:
                    return o.get(k, d)
                except TypeError:
                    return d
            return Builtin(get, 'dict.get')
        if isinstance(o, OpaqueStr):
            if name in ('endswith', 'startswith'):
                return Builtin(lambda *a: False, name)
            if name in ('lower', 'upper', 'strip', 'replace', 'format', 'lstrip', 'rstrip'):
                return Builtin(lambda *a, **k: OpaqueStr(), name)
        try:
            v = getattr(o, name)
        except AttributeError:
            return _MISSING
        if callable(v):
            return Builtin(self._host_call_wrapper(v), f'{type(o).__name__}.{name}')
        return v

    def _host_call_wrapper(self, v):
        container = isinstance(getattr(v, '__self__', None), (list, dict, set))

        def call(*args, **kwargs):
            for a in list(args) + list(kwargs.values()):
                if container:
                    break
                if is_sym(a) or _contains_model(a):
                    raise NeedConcrete(f"symbolic/model argument passed to host function {v!r}")
            try:
                return v(*args, **kwargs)
            except (PyRaise, sym.Infeasible, sym.PathLimit, Unsupported, NeedConcrete):
                raise
            except Exception as ex:
                self.host_exc(ex)
        return call

    def bind(self, v, o, cls):
        if isinstance(v, FuncVal):
            if v.name == '__new__':
                return v
            return BoundMethod(o, v)
        if isinstance(v, ClassMethodVal):
            return BoundMethod(cls, v.func)
        if isinstance(v, StaticMethodVal):
            return v.func
        if isinstance(v, Builtin) and getattr(v, 'is_method', False):
            return BoundMethod(o, v)
        if isinstance(v, Partial):
            return v          # functools.partial objects are not descriptors
        return v

    def super_getattr(self, s, name):
        obj = s.obj
        cls = obj if isinstance(obj, ClassVal) else obj.cls
        mro = cls.mro
        i = mro.index(s.cls_after) if s.cls_after in mro else -1
        for c in mro[i + 1:]:
            if name in c.ns:
                v = c.ns[name]
                if isinstance(obj, ClassVal):
                    if isinstance(v, ClassMethodVal):
                        return BoundMethod(obj, v.func)
                    if isinstance(v, StaticMethodVal):
                        return v.func
                    if isinstance(v, Builtin) and getattr(v, 'is_static_new', False):
                        return v
                    return v
                if isinstance(v, PropertyVal):
                    return self.call(v.fget, [obj], {})
                if isinstance(v, Builtin) and getattr(v, 'is_static_new', False):
                    return v
                return self.bind(v, obj, cls)
        return _MISSING

    def setattr(self, o, name, v):
        if isinstance(o, Obj):
            sa, c = o.cls.lookup('__setattr__')
            if sa is not _MISSING and not isinstance(sa, Builtin):
                self.call(BoundMethod(o, sa), [name, v], {})
                return
            self.object_setattr(o, name, v)
            return
        if isinstance(o, ClassVal):
            if self.write_log is not None:
                self.write_log.append(('classattr', o.name, name))
            o.ns[name] = v
            return
        if isinstance(o, ModuleVal):
            if name == '__class__':
                return
            o.ns[name] = v
            return
        if isinstance(o, FuncVal):
            if not hasattr(o, 'fattrs'):
                o.fattrs = {}
            o.fattrs[name] = v
            return
        if hasattr(o, 'pyvc_setattr'):
            return o.pyvc_setattr(self, name, v)
        raise Unsupported(f"setattr on {type(o).__name__}")

    def object_setattr(self, o, name, v):
        d, c = o.cls.lookup(name)
        if isinstance(d, PropertyVal):
            if d.fset is None:
                self.throw('AttributeError', f"property '{name}' has no setter")
            self.call(d.fset, [o, v], {})
            return
        if not o.cls.has_dict() and name not in o.cls.all_slots():
            self.throw('AttributeError', f"object has no attribute '{name}'")
        if self.write_log is not None:
            self.write_log.append(('attr', o, name))
        o.attrs[name] = v

    # -- subscripts --------------------------------------------------------------------
    def getitem(self, o, k):
        if isinstance(o, Obj):
            return self.call_method(o, '__getitem__', [k])
        if hasattr(o, 'pyvc_getitem'):
            return o.pyvc_getitem(self, k)
        if isinstance(o, ClassVal):
            return o       # typing-style subscription of a class
        if isinstance(o, dict):
            if is_sym(k):
                for kk in o:
                    if isinstance(kk, int) and not isinstance(kk, bool) and sym.truth(sym.eq(kk, k)):
                        return o[kk]
                self.throw('KeyError', 'symbolic key')
            try:
                return o[k]
            except KeyError:
                self.throw('KeyError', k if isinstance(k, (str, int)) else '?')
            except TypeError as ex:
                self.host_exc(ex)
        if isinstance(o, (list, tuple, str, bytes, bytearray, range)):
            if isinstance(k, slice):
                if any(is_sym(x) for x in (k.start, k.stop, k.step)):
                    if isinstance(o, OpaqueStr):
                        return OpaqueStr()
                    raise NeedConcrete("symbolic slice of a host sequence")
                return o[k]
            if is_sym(k):
                if isinstance(o, OpaqueStr):
                    return OpaqueStr()
                n = len(o)
                # fork over the feasible indices of a concrete sequence
                for i in range(-n, n):
                    if sym.truth(sym.eq(k, i)):
                        return o[i]
                self.throw('IndexError', 'index out of range')
            try:
                return o[k]
            except IndexError:
                self.throw('IndexError', 'index out of range')
            except TypeError as ex:
                self.host_exc(ex)
        try:
            return o[k]
        except Exception as ex:
            if isinstance(ex, (PyRaise, Unsupported, NeedConcrete)):
                raise
            self.host_exc(ex)

    def setitem(self, o, k, v):
        if isinstance(o, Obj):
            self.call_method(o, '__setitem__', [k, v])
            return
        if hasattr(o, 'pyvc_setitem'):
            o.pyvc_setitem(self, k, v)
            return
        if isinstance(o, (list, dict, bytearray)):
            if is_sym(k):
                raise NeedConcrete("symbolic key in host container store")
            try:
                o[k] = v
            except Exception as ex:
                self.host_exc(ex)
            return
        if isinstance(o, ModuleVal) or o is self.modules.get('sys').ns.get('modules'):
            return
        raise Unsupported(f"setitem on {type(o).__name__}")

    def delitem(self, o, k):
        if isinstance(o, Obj):
            self.call_method(o, '__delitem__', [k])
            return
        if hasattr(o, 'pyvc_delitem'):
            o.pyvc_delitem(self, k)
            return
        if isinstance(o, (list, dict, bytearray)):
            try:
                del o[k]
            except Exception as ex:
                self.host_exc(ex)
            return
        raise Unsupported(f"delitem on {type(o).__name__}")

    # -- calls -------------------------------------------------------------------------
    def call_method(self, o, name, args, kwargs=None):
        f, c = o.cls.lookup(name)
        if f is _MISSING:
            self.throw('TypeError', f"'{o.cls.name}' object does not support {name}")
        if f is None:
            self.throw('TypeError', f"'{o.cls.name}' object: {name} is None")
        b = self.bind(f, o, o.cls)
        return self.call(b, args, kwargs or {})

    def call(self, f, args, kwargs):
        if isinstance(f, BoundMethod):
            return self.call(f.func, [f.self_] + list(args), kwargs)
        if isinstance(f, FuncVal):
            return self.call_function(f, args, kwargs)
        if isinstance(f, Builtin):
            try:
                if f.needs_interp:
                    return f.fn(self, *args, **kwargs)
                return f.fn(*args, **kwargs)
            except (PyRaise, sym.Infeasible, sym.PathLimit, Unsupported, NeedConcrete, _Return, _Break, _Continue):
                raise
            except TypeError as ex:
                if 'positional argument' in str(ex) or 'keyword argument' in str(ex) or 'required' in str(ex):
                    self.throw('TypeError', str(ex))
                if any(sym.is_sym(a) or type(a).__name__ in ('SFloat', 'BA', 'SStr', 'PStr', 'Obj', 'BBytes', 'SymBytes') for a in list(args) + list(kwargs.values())):
                    # a host function this engine has no symbolic model for: the path is undecided, not an engine fault
                    raise Unsupported(f'{f.name} applied to a symbolic value ({ex})')
                raise
        if isinstance(f, ClassVal):
            return self.instantiate(f, args, kwargs)
        if isinstance(f, Partial):
            kw = dict(f.kwargs)
            kw.update(kwargs)
            return self.call(f.func, list(f.args) + list(args), kw)
        if isinstance(f, Obj):
            return self.call_method(f, '__call__', args, kwargs)
        if f is None:
            self.throw('TypeError', "'NoneType' object is not callable")
        if callable(f) and not is_sym(f):
            return self._host_call_wrapper(f)(*args, **kwargs)
        self.throw('TypeError', 'object is not callable')

    def instantiate(self, cls, args, kwargs):
        new, c = cls.lookup('__new__')
        if isinstance(new, StaticMethodVal):
            new = new.func
        if isinstance(new, FuncVal):
            o = self.call(new, [cls] + list(args), kwargs)
        else:
            o = self.call(new, [cls] + list(args), kwargs) if isinstance(new, Builtin) else Obj(cls)
        if isinstance(o, Obj) and o.cls.is_subclass(cls):
            init, c = o.cls.lookup('__init__')
            if init is not _MISSING:
                self.call(BoundMethod(o, init), args, kwargs)
        return o

    def bind_args(self, f, args, kwargs):
        a = f.node.args
        params = a.posonlyargs + a.args
        names = [p.arg for p in params]
        nposonly = len(a.posonlyargs)
        loc = {}
        args = list(args)
        kwargs = dict(kwargs)
        n = len(names)
        if len(args) > n and a.vararg is None:
            self.throw('TypeError', f'{f.qualname}() takes {n} positional arguments but {len(args)} were given')
        for nm, v in zip(names, args):
            loc[nm] = v
        if a.vararg is not None:
            loc[a.vararg.arg] = tuple(args[n:])
        ndef = len(f.defaults)
        for i, nm in enumerate(names):
            if nm in loc:
                if nm in kwargs and i >= nposonly:
                    self.throw('TypeError', f'{f.qualname}() got multiple values for argument {nm!r}')
                continue
            if nm in kwargs and i >= nposonly:
                loc[nm] = kwargs.pop(nm)
            elif i >= n - ndef:
                loc[nm] = f.defaults[i - (n - ndef)]
            else:
                self.throw('TypeError', f'{f.qualname}() missing required argument {nm!r}')
        for p in a.kwonlyargs:
            if p.arg in kwargs:
                loc[p.arg] = kwargs.pop(p.arg)
            elif p.arg in f.kwdefaults:
                loc[p.arg] = f.kwdefaults[p.arg]
            else:
                self.throw('TypeError', f'{f.qualname}() missing keyword-only argument {p.arg!r}')
        if a.kwarg is not None:
            loc[a.kwarg.arg] = kwargs
        elif kwargs:
            self.throw('TypeError', f'{f.qualname}() got an unexpected keyword argument {next(iter(kwargs))!r}')
        return loc

    def call_function(self, f, args, kwargs):
        if self.trace_calls is not None:
            self.trace_calls.append(f.qualname)
        c = self.contracts.get(f.qualname)
        if c is not None and f.qualname != self.under_verification:
            r = c.apply(self, f, args, kwargs)
            if self.used_contracts is not None and not getattr(self, 'last_apply_inlined', False):
                self.used_contracts.add(f.qualname)     # (a spec that declined -- INLINE -- was not relied on)
            self.last_apply_inlined = False
            return r
        loc = self.bind_args(f, args, kwargs)
        frame = Frame(loc, f.module, closure=f.closure, func=f)
        if isinstance(f.node, ast.Lambda):
            return self.eval(f.node.body, frame)
        if f.is_generator:
            return GenObj(self._run_generator(f, frame), f.qualname)
        self.call_depth += 1
        if self.call_depth > 150:
            self.call_depth -= 1
            self.throw('RecursionError', 'maximum recursion depth exceeded')
        try:
            self.run_block(f.node.body, frame)
        except _Return as r:
            if f.cached and getattr(self, 'cached_returns', None) is not None:
                self.cached_returns.append((f.qualname, r.v))      # a value that functools.lru_cache will hand out again
            return r.v
        finally:
            self.call_depth -= 1
        return None

    def _run_generator(self, f, frame):
        try:
            yield from self.exec_block(f.node.body, frame)
        except _Return:
            return


def _walk_no_nested_ordered(fnode):
    """pre-order, source-order walk of a function body without nested defs"""
    def rec(n):
        for c in ast.iter_child_nodes(n):
            if isinstance(c, (ast.FunctionDef, ast.Lambda, ast.ClassDef, ast.AsyncFunctionDef)):
                continue
            yield c
            yield from rec(c)
    yield from rec(fnode)


def _contains_model(v, depth=0):
    from . import extern
    if isinstance(v, (Obj, extern.BA)) or is_sym(v):
        return True
    if depth < 3 and isinstance(v, (list, tuple)):
        return any(_contains_model(x, depth + 1) for x in v)
    if depth < 3 and isinstance(v, dict):
        return any(_contains_model(x, depth + 1) for x in v.values())
    return False
