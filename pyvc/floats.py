"""Assumed contract of struct.pack / struct.unpack.

Concrete arguments are passed through to the real struct module.  A symbolic float (SFloat)
is known only through uninterpreted functions: pack(fmt, v) is the byte string
fbits[fmt](v, k) and unpack(fmt, b) the float funpack[fmt](bits of b); the two are assumed
mutually inverse (NaN payloads excepted, as the property says) -- see props/C02.
"""
import struct as _struct
import z3
from . import sym
from .sym import Unsupported, NeedConcrete, is_sym
from .extern import BBytes, SymBytes, SFloat, bytes_to_ba


def struct_pack(interp, fmt, *vals):
    if all(not is_sym(v) and not isinstance(v, SFloat) for v in vals):
        try:
            return _struct.pack(fmt, *vals)
        except (OverflowError,) as ex:
            interp.throw('OverflowError', str(ex))
        except _struct.error as ex:
            interp.throw('struct.error', str(ex))
        except Exception as ex:
            interp.host_exc(ex)
    raise Unsupported("struct.pack of a symbolic value")


def struct_unpack(interp, fmt, data):
    if isinstance(data, (BBytes, SymBytes)):
        try:
            data = data.to_host() if isinstance(data, BBytes) else data.as_bbytes().to_host()
        except NeedConcrete:
            raise Unsupported("struct.unpack of symbolic bytes")
    try:
        return _struct.unpack(fmt, data)
    except _struct.error as ex:
        interp.throw('struct.error', str(ex))
    except Exception as ex:
        interp.host_exc(ex)
