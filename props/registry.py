"""Per-property claims that go into MANIFEST.json (tools/gen_manifest.py)."""

TRUST = ("Trusted: CPython semantics as encoded by the pyvc interpreter (ints mathematical, C-layer machine limits not "
         "modelled); the assumed contracts of bitarray/struct/slice arithmetic/hash in pyvc/extern.py & co. (conformance-"
         "tested against the installed libraries at every run, not proved); z3 5.1.0 and cvc5 1.0.3; the pyvc engine itself (every proved "
         "shape is cross-checked natively on sampled inputs). Termination is not verified. ")

HOOKS = {
    'guard': 'BITSTRING_VERIF',
    'enable': 'none needed: contracts are sidecar files under /verif/contracts and the verifier re-reads /repo/bitstring/*.py on every run',
    'baseline_off_cmd': 'cd /repo && /venv/bin/python -m pytest -ra -q -p no:cacheprovider --timeout=900 --continue-on-collection-errors',
    'source_commits': [],
    'add_only': True,
}

ENGINES = [{
    'name': 'pyvc', 'path': 'pyvc/',
    'serves_properties': [],
    'kind_free_text': 'own AST->z3 symbolic executor / VC generator over the real /repo source (re-read on every run), '
                      'sidecar functional and relational contracts per function and input shape, modular use of callee '
                      'contracts, counter-models replayed on CPython, bounded native stand-in for undecided obligations',
}]

NOTES = ("All checks: ./vf check <id> --tier quick|thorough. exit 0 held / 1 VIOLATION / 3 checker error. "
         "Fix commits in /repo and known findings are listed in known_findings.json and DESIGN.md section 7.")


def _p(text, note='', technique='contract-based deductive verification: AST symbolic execution of the real functions against '
       'sidecar contracts, VCs discharged by z3 (goals z3 leaves unknown go to cvc5; only its unsat is used)', category='proof'):
    return {'category': category, 'text': text, 'note': TRUST + note, 'technique': technique}


CLAIMS = {
    'C01': _p("Every obligation (function x input shape x clause) of len/bool/indexing/slicing with any start/stop/step, + and "
              "its reflected form is proved for all lengths, contents, indices and all four classes in every store state "
              "(in-memory, buffer-backed with a shorter logical length), including result class and operands unchanged. "
              "Repetition (*, loop invariant of _imul) and iteration (uniform-map rule) are proved as well. The operators as client "
              "code writes them (a + b over every ordered pair of classes, contracts/_client_code.py) are proved with Python's "
              "dispatch rule -- incl. the priority of a subclass's reflected method -- executed by the interpreter."),
    'C03': _p("Each mutator's real body is proved equal to its sequence-level specification (content, return value, frame "
              "outside the addressed range, rollback on every raising path, stream position) for all lengths/contents/"
              "positions, for BitArray and BitStream and every operand kind incl. aliasing (bs is self). replace/byteswap/"
              "iterable positions contain loops: invariant obligations or bounded stand-in."),
    'C06': _p("0 <= pos <= len and the documented position effect are post-conditions of every stream operation under "
              "contract (read/peek of every fixed dtype with symbolic length, setters, bytealign, mutators with BitStream "
              "selfs, operators, slicing, copies, the constructors' pos argument), proved per operation; ue/se reads, readlist and "
              "peeklist (concrete format skeletons, symbolic lengths and counts incl. negative) and readto (non-aligned) are proved "
              "too; the induction over operation histories is the standard meta-argument. Byte-aligned readto: bounded."),
    'C07': _p("find/rfind are proved against the brute-force definition (sound, complete, extremal, window, ValueError cases) "
              "with bitarray.find assumed to be that definition; startswith/endswith/count/all/any proved for all inputs. "
              "`in` is proved (any position, whatever options.bytealigned). Byte-aligned search, findall, split, cut and replace go "
              "through generators/loops: bounded stand-in on the real functions, in both bit numberings, on periodic data with "
              "overlapping (byte-)aligned matches and on data longer than the 8192-bit chunks of the reverse searches.", category='other'),
    'C08': _p("Representation independence: every BitStore primitive and every Bits-level operation under contract is proved "
              "against a specification over the *logical* content for each representation state, and the window constructors "
              "(bytes, bitarray, BytesIO, file/mmap) are proved to yield exactly source[offset:offset+length], in both bit "
              "numberings. Little-endian bitarray sources are outside the (big-endian) bitarray model: bounded native sweep."),
    'C13': _p("__eq__/__ne__ are proved to be equality of (length, bits) for all class pairs, store states and positions, False "
              "for non-promotable types; __hash__ is proved to be a function of the bits only in both the <=2000 and the "
              ">2000-bit branch (so equal values hash equal); a == b as client code over every ordered class pair is proved with "
              "Python's dispatch. Operand kinds outside the model (memoryviews, array.array, iterables, BytesIO): bounded native sweep."),
    'C15': _p("For symbolic value and length: int2bitstore/intle2bitstore and the six integer setters succeed iff the value is "
              "in range and the length allowed (exactly n bits) and raise CreationError otherwise, the OverflowError re-raise "
              "is unreachable; Dtype lengths; source windows beyond the data are rejected. String/token routes are bounded."),
    'C16': _p("&, |, ^, ~, <<, >> and the in-place forms are proved per-bit against their boolean definition for all lengths, "
              "classes, store states and operand kinds incl. aliasing; errors as documented; operands (content and pos) "
              "unchanged. The algebraic laws are consequences of the pointwise contracts. Operand kinds outside the model (bitarrays and "
              "frozenbitarrays of both bit-endiannesses, promoted on the fly) are served by a bounded native sweep, labelled as such."),
    'C17': _p("tobytes is proved to be the bits followed by zero padding for every store state; the read-back constructors are "
              "proved to recover exactly the selected window or raise CreationError. tofile's chunk loop and Array are served "
              "by the bounded stand-in / later obligations."),
}

CLAIMS.update({
    'C04': _p("Value isolation is decided on a ghost heap: the ownership clause (no store or buffer shared between two objects of "
              "which one is mutable; no mutable object on an immutable-flagged or cached store; no live buffer handed out or "
              "adopted) is evaluated on every path of every contract, and the derivation routes (constructors from every source "
              "kind, bits=, copies, tobitarray, fromstring) have their own contracts. Immutable receivers: content unchanged by "
              "every method under contract. Further generic clauses: a store that outlives the call (module constant, memoised "
              "value) is never held by a mutable object or returned unflagged; a memoised BitStore result is flagged immutable; "
              "identity of returned stores. Creation routes of every registered dtype into mutable objects: bounded native sweep. "
              "The induction over histories is the standard meta-argument.",
              technique='contract-based deductive verification with ghost ownership state (identity of stores and buffers) on the '
                        'symbolically executed real code; identity facts replayed on real objects'),
    'C09': _p("Purity of every memoised function is a frame (read-effect) contract: reads*(f) over the AST call graph contains no "
              "module option unless that option is a parameter of the cached function fed with the live value at every call site; "
              "typed cache keys where equal-but-distinguishable arguments matter; the lsb0 dispatch tables rebind the same "
              "attribute set and have no other writer. A bounded warm-vs-cold interleaving run cross-checks the analysis.",
              note="Call-graph resolution is by name and class hierarchy; a method whose name also exists on a builtin type, called "
                   "on a receiver that is not self/cls/a package module or class, is taken to be a builtin call (stated assumption).",
              technique='frame/effect contracts computed from the AST of the real source (static, all paths), native history replay'),
    'C10': _p("ue/se: encoder (loop invariant tmp*2^(lz+1) <= i+1 < (tmp+1)*2^(lz+1)) and decoder (invariant: bits [oldpos,pos) are "
              "zero) are proved against the H.264 codeword definition for every integer and every bit content, incl. ReadError on "
              "truncation and exact position advance through read(); the uie/sie *encoders* (string-built) and stream concatenation are "
              "bounded stand-ins; the interleaved *decoders* (_readuie with a loop invariant over the pair structure, _readsie) are proved as well, "
              "relative to the recursive definition of the big-endian prefix value; all decoders also under options.bytealigned.", category='other'),
    'C12': _p("For every operation with positions, the real lsb0 code path (dispatch interpreted from Options.set_lsb0) is proved "
              "equal to rev . msb0-SPEC . rev on all operands for every step sign, index and range (slicing, item deletion, "
              "insert/overwrite/append/prepend/reverse/set/invert, startswith/endswith); offset_slice_indices_lsb0 satisfies the "
              "mirror law on (first, count, step) for symbolic step; whole-value operations (==, hash, len, tobytes, shifts, +, &) "
              "and the whole-value getters/setters and source windows are proved mode-independent; a slice step of 0 raises ValueError in "
              "both modes. Ranged rotations, the find family (brute-force mirror sweep incl. byte alignment on the lsb0 position and "
              "> 8192-bit data) and reads in lsb0 are load-sensitive/bounded. lsb0 split is not claimed (the repository's own test "
              "pins a non-mirror behaviour and the property does not list split)."),
})

CLAIMS.update({
    'C02': _p("For symbolic value and length every integer row (uint/int, be/le/ne) is proved on both sides: the setters, "
              "Dtype.build, the keyword route Cls(row=v, length=n) and property assignment all reach the canonical n-bit "
              "encoding (two's complement MSB first; little-endian = byte-reversed) or raise CreationError, and the getters / read "
              "return uval/sval of the (byte-reversed) bits (in both bit numberings); hex/oct/bin/bytes/bool/bits getters and reads are proved against "
              "their digit/identity definition. Round trips follow from the assumed int2ba/ba2int contract. Float rows, token "
              "strings and pack are bounded (struct / tokeniser are outside the prover); agreement of *every* creation route of every registered "
              "dtype (length in the keyword name, struct codes, Dtype('nameL'), property, pack, format string) is a bounded native sweep.", category='other'),
    'C11': _p("Every decode-table entry (all codes of 7 formats) and every rounding-table entry (65536 binary16 values x overflow "
              "modes) is compared, exhaustively, with an exact-rational model written from the format definitions and the "
              "documented overflow rules; the real encoders/getters are run on every binary16 value under both option settings "
              "and on arguments beyond binary16 (clamps). With struct.pack('>e') assumed IEEE this covers every float64 input. "
              "e8m0/bfloat: all codes; mxint, scale and the agreement of the string/pack/build routes across mxfp_overflow switches: bounded.", category='other',
              technique='complete enumeration of the finite tables against an exact-rational specification (decision by exhaustion), '
                        'bounded differential for mxint/scale'),
    'C14': _p("len, item get/set/delete, append, insert and pop are proved as list-of-chunks equations over data for symbolic item "
              "width, including byte-multiplier dtypes, negative/out-of-range indices, trailing bits untouched and rollback on a "
              "value that does not fit. Slices with a step, slice assignment (from lists and from Arrays with trailing bits of "
              "their own), reverse, tolist/iteration and the element-wise operators contain loops: bounded list-model differential "
              "(each case replayable from its seed).", category='other'),
    'C18': _p("Replacement tables, PACK_CODE_SIZE, parse_single_struct_token and structparser are enumerated completely against "
              "struct.calcsize for every code x prefix x count <= 12; little-endian = byte-reversed big-endian and the native "
              "aliases are contracts proved in C02/C15; value compatibility with struct/array is a bounded differential.",
              category='other', technique='complete enumeration of the code tables + proved endian contracts + bounded differential against struct'),
})

CLAIMS.update({
    'C05': _p("The arithmetic the property is about -- lengths add up, one value per non-pad token, the single length-less token gets "
              "max(remaining - later fixed lengths, 0) bits in whole units, too few / too many / unfitting values raise -- is proved "
              "on the real pack and _read_dtype_list for token lists with symbolic lengths and values (concrete format strings, "
              "keyword lengths). The tokeniser (regular expressions, bracket expansion) is outside the prover: bounded grammar "
              "differential against an independent encoder, plus the compositional laws on real strings.", category='other'),
    'C19': _p("str()/repr() are proved never to raise for any length, class and store state (the __str__ branches partition all "
              "lengths and every hex piece is a whole number of digits); the text content (round trips, pp layout, colour) is "
              "string code: bounded stand-in on the real functions.", category='other'),
    'C20': _p("Exception classes and post-state validity are clauses of every public contract: the check re-runs the contracts of the "
              "public mutators, stream operations, constructors/sources, value setters, operators and printing (each raising path "
              "has a documented class, rollback and pos validity proved). Entry points taking format strings and those not under "
              "contract are covered by a bounded API fuzzer and by replayable random *sequences* of operations on one object in both "
              "bit numberings that also watch every immutable object passed in earlier.", category='other'),
})

NOT_APPLICABLE = {}
