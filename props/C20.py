"""C20: well-typed misuse fails cleanly and corrupts nothing.

Deductive part: every contract of a public entry point fixes the exception class of each raising path (outcome-kind /
raises clauses: only documented classes appear in specifications) and the validity of the post-state; the check for C20
runs the contracts of the public mutators, stream operations, constructors, value setters and operators (selection below).
Bounded part: a call fuzzer over the public API with arbitrary well-typed values."""
import io
import random

META = {'explanation': 'exception classes and post-state validity are clauses of every public contract (proved); a bounded API fuzzer '
                       'covers entry points that take format strings or are not yet under contract.'}
EXTRA_TASKS = ['fuzz', 'sequences', 'array_ops']
# properties whose public contracts are re-run as the deductive part of C20
ALSO_PROPS = ['C03', 'C06', 'C15', 'C16', 'C04']

DOCUMENTED = (ValueError, IndexError, TypeError, OSError)     # (BufferError, AttributeError, AssertionError ... are not)


def fuzz(tier='quick', seed=0):
    import bitstring
    from bitstring import Bits, BitArray, ConstBitStream, BitStream, Array, Dtype, pack
    rng = random.Random(seed)
    fails = []
    evals = 0
    N = 2500 if tier == 'quick' else 40000

    def rbits(maxlen=24):
        n = rng.randint(0, maxlen)
        return ''.join(rng.choice('01') for _ in range(n))

    def rint():
        return rng.choice([0, 1, -1, 2, 7, 8, 9, -8, 100, -100, 10 ** 6, rng.randint(-40, 40)])

    def rfmt():
        return rng.choice(['uint:8', 'int:4', 'hex', 'bin', 'bits:3', 'ue', 'se', 'bool', 'float:32', 'bytes', 'pad:2', 'uint8, hex', '2*(bin2)',
                           'uintle:16', '<H', 'bfloat', 'e4m3mxfp', 'uint:0', 'uint:-1', 'bogus', '3*(uint8', 'int:n', '', 'hex:3', 'oct', 'bytes:1',
                           'uint', 'float:17', '>2h', 'bits', 'p4binary'])

    def arg(kind):
        return {'bits': lambda: rng.choice([Bits(bin=rbits()), BitArray(bin=rbits()), '0b' + rbits(6), '0x' + 'f' * rng.randint(0, 3), b'\x01', rbits(4) and [1, 0]]),
                'int': rint, 'optint': lambda: rng.choice([None, rint()]), 'fmt': rfmt, 'bool': lambda: rng.random() < 0.5,
                'iter': lambda: rng.choice([[0], [1, 2], [-1], range(0, 4), (3, 100), []])}[kind]()

    METHODS = {
        'all': ['bool', 'iter'], 'any': ['bool', 'iter'], 'count': ['bool'], 'cut': ['int', 'optint', 'optint', 'optint'], 'endswith': ['bits', 'optint', 'optint'],
        'startswith': ['bits', 'optint', 'optint'], 'find': ['bits', 'optint', 'optint', 'bool'], 'rfind': ['bits', 'optint', 'optint', 'bool'],
        'findall': ['bits', 'optint', 'optint', 'optint', 'bool'], 'split': ['bits', 'optint', 'optint', 'optint', 'bool'], 'join': ['iter'],
        'unpack': ['fmt'], 'tobytes': [], 'tobitarray': [], 'copy': [], '__getitem__': ['int'], '__mul__': ['int'], '__lshift__': ['int'], '__rshift__': ['int'],
        '__and__': ['bits'], '__or__': ['bits'], '__xor__': ['bits'], '__add__': ['bits'], '__invert__': [], '__contains__': ['bits'], '__eq__': ['bits'],
    }
    MUT = {'append': ['bits'], 'prepend': ['bits'], 'insert': ['bits', 'int'], 'overwrite': ['bits', 'int'], 'replace': ['bits', 'bits', 'optint', 'optint', 'optint', 'bool'],
           'reverse': ['optint', 'optint'], 'rol': ['int', 'optint', 'optint'], 'ror': ['int', 'optint', 'optint'], 'set': ['bool', 'iter'], 'invert': ['iter'],
           'byteswap': ['int', 'optint', 'optint', 'bool'], 'clear': [], '__setitem__': ['int', 'int'], '__delitem__': ['int'], '__ilshift__': ['int'],
           '__irshift__': ['int'], '__imul__': ['int'], '__iand__': ['bits'], '__ior__': ['bits'], '__ixor__': ['bits'], '__iadd__': ['bits']}
    STREAM = {'append': ['bits'], 'overwrite': ['bits', 'optint'], 'read': ['fmt'], 'peek': ['fmt'], 'readlist': ['fmt'], 'peeklist': ['fmt'], 'readto': ['bits', 'bool'], 'bytealign': []}
    classes = [Bits, BitArray, ConstBitStream, BitStream]
    opt0 = (bitstring.options.lsb0, bitstring.options.bytealigned, bitstring.options.mxfp_overflow)
    for _ in range(N):
        cls = rng.choice(classes)
        s = rbits()
        try:
            o = cls(bin=s) if s else cls()
        except Exception as e:
            fails.append({'call': f'{cls.__name__}(bin={s!r})', 'observed': type(e).__name__, 'python': "FAILS = True"})
            continue
        if hasattr(o, 'pos'):
            o.pos = rng.randint(0, len(o))
        table = dict(METHODS)
        if isinstance(o, BitArray):
            table.update(MUT)
        if isinstance(o, ConstBitStream):
            table.update(STREAM)
        name = rng.choice(sorted(table))
        args = [arg(k) for k in table[name]]
        before = o.bin
        evals += 1
        desc = f'{cls.__name__}(bin={s!r}' + (f', pos={o.pos}' if hasattr(o, 'pos') else '') + f').{name}(*{args!r})'
        try:
            r = getattr(o, name)(*args)
            if hasattr(r, '__next__'):
                list(r)
        except DOCUMENTED:
            pass
        except bitstring.Error:
            pass
        except Exception as e:
            fails.append({'call': desc, 'observed': type(e).__name__, 'expected': 'a documented exception class',
                          'python': f"FAILS = True  # {desc} raised {type(e).__name__}"})
            continue
        bad = None
        try:
            if len(o) != len(o.bin):
                bad = 'len(s) != len(s.bin)'
            if hasattr(o, 'pos') and not (0 <= o.pos <= len(o)):
                bad = f'pos {o.pos} outside [0, {len(o)}]'
            if not isinstance(o, BitArray) and o.bin != before:
                bad = 'immutable object changed'
        except Exception as e:
            bad = f'object unusable afterwards: {type(e).__name__}'
        if (bitstring.options.lsb0, bitstring.options.bytealigned, bitstring.options.mxfp_overflow) != opt0:
            bad = 'module options changed'
            bitstring.options.lsb0, bitstring.options.bytealigned, bitstring.options.mxfp_overflow = opt0
        if bad:
            fails.append({'call': desc, 'observed': bad, 'python': f"FAILS = True  # {desc}: {bad}"})
        if len(fails) > 12:
            break
    # constructors, Dtype, pack, Array with arbitrary values
    for _ in range(N // 3):
        evals += 1
        kind = rng.choice(['ctor', 'dtype', 'pack', 'array'])
        try:
            if kind == 'ctor':
                kw = rng.choice([{'uint': rint(), 'length': rint()}, {'int': rint(), 'length': rint()}, {'hex': rng.choice(['ff', 'xyz', '', '0x1'])},
                                 {'bytes': b'ab', 'offset': rint(), 'length': rint()}, {'float': 1.5, 'length': rint()}, {'bool': rint()}, {'ue': rint()},
                                 {'bin': rng.choice(['01', '2', ''])}, {'uintle': rint(), 'length': rint()}, {'bfloat': 1.0}, {'e4m3mxfp': 1e9}, {'auto': 3}])
                desc = f'Bits(**{kw!r})'
                Bits(**kw)
            elif kind == 'dtype':
                a = (rfmt().split(',')[0], rng.choice([None, rint()]))
                desc = f'Dtype{a!r}'
                Dtype(*[x for x in a if x is not None])
            elif kind == 'pack':
                f = rfmt()
                vals = [rng.choice([rint(), 1.5, 'ff', '0b1', b'a', True]) for _ in range(rng.randint(0, 3))]
                desc = f'pack({f!r}, *{vals!r})'
                pack(f, *vals)
            else:
                f = rng.choice(['uint8', 'int4', 'float32', 'hex4', 'bytes2', 'bool', '<H', 'bogus', 'ue', 'bits3'])
                vals = [rng.choice([rint(), 1.5, 'f', b'ab', True]) for _ in range(rng.randint(0, 3))]
                desc = f'Array({f!r}, {vals!r})'
                a = Array(f, vals)
                a.tolist(); repr(a); len(a)
                if len(a):
                    a[rint() % (2 * len(a)) - len(a)] if rng.random() < 0.5 else a.pop()
        except DOCUMENTED:
            pass
        except bitstring.Error:
            pass
        except Exception as e:
            fails.append({'call': desc, 'observed': type(e).__name__, 'expected': 'a documented exception class',
                          'python': f"FAILS = True  # {desc} raised {type(e).__name__}"})
            if len(fails) > 12:
                break
    # the two mutators that ConstBitStream exposes on immutable receivers are reported under their own obligation
    imm = [f for f in fails if f['call'].startswith('ConstBitStream(') and ('.append(' in f['call'] or '.overwrite(' in f['call'])]
    fails = [f for f in fails if f not in imm]
    # de-duplicate by (method, exception)
    seen = set()
    uniq = []
    for f in fails:
        k = (f['call'].split(').')[-1].split('(')[0] if ').' in f['call'] else f['call'].split('(')[0], f.get('observed'))
        if k not in seen:
            seen.add(k)
            uniq.append(f)
    return {'id': 'C20.fuzz', 'obligations': [], 'evaluations': evals,
            'bounded': [{'id': 'C20/public-api/fuzz', 'qualname': 'public-api', 'shape': f.get('call', '')[:60] if False else 'fuzz',
                         'function': 'every public method of the four classes, constructors, Dtype, pack, Array',
                         'bound': f'{N} random method calls + {N // 3} constructor/Dtype/pack/Array calls, objects <= 24 bits, seed {seed}',
                         'evaluations': evals, 'failures': uniq[:6]},
                        {'id': 'C20/bitstream.ConstBitStream.append@immutable-receiver/fuzz', 'qualname': 'bitstream.ConstBitStream.append@immutable-receiver',
                         'shape': 'ConstBitStream/immutable', 'function': 'ConstBitStream.append / overwrite on an immutable receiver',
                         'bound': 'the calls of the fuzzer above that hit these two methods', 'evaluations': len(imm) or 1, 'failures': imm[:2]}],
            'summary': f'{evals} calls, {len(uniq)} distinct failures'}



# ---- sequences of operations on one object, in both bit numberings, with the arguments watched ---------------------------------
def _seq_case(seed, i):
    """1-4 public operations in sequence on one object (30 % of the cases under lsb0): every call succeeds or raises a documented
    exception; afterwards the object is valid, every *immutable* object involved (the receiver, and every Bits / ConstBitStream
    that was passed as an argument at any earlier step) is unchanged, and the options are as before.  Deterministic in (seed, i)."""
    import bitstring
    from bitstring import Bits, BitArray, ConstBitStream, BitStream
    rng = random.Random(seed * 1000003 + i)

    def rbits(maxlen=24):
        return ''.join(rng.choice('01') for _ in range(rng.randint(0, maxlen)))

    def rint():
        return rng.choice([0, 1, -1, 2, 7, 8, 9, -8, 100, -100, rng.randint(-40, 40)])

    def rfmt():
        return rng.choice(['uint:8', 'int:4', 'hex', 'bin', 'bits:3', 'ue', 'se', 'bool', 'float:32', 'bytes', 'pad:2', 'uint8, hex', 'uintle:16', '<H',
                           'uint:0', 'bogus', 'hex:3', 'oct', 'bits', 'bin:0'])

    def ppfmt():
        one = lambda: rng.choice(['bin', 'hex', 'oct', 'bytes', 'uint', 'int', 'float']) + rng.choice(['', '', ':0', '0', '4', '8', ':8', '16', ':3', '12'])
        return one() if rng.random() < 0.6 else one() + ', ' + one()

    def bitsarg():
        raw = bytes(rng.randrange(256) for _ in range(rng.randint(0, 4)))
        return rng.choice([Bits(bin=rbits()), ConstBitStream(bin=rbits()), BitArray(bin=rbits()), '0b' + rbits(6), '0x' + 'f' * rng.randint(0, 3), b'\x01',
                           Bits(bin=rbits()), BitArray(bin=rbits()), bytearray(raw), memoryview(raw), memoryview(raw + raw)[::2], memoryview(raw)[::-1], [1, 0, 1], (True, False)])

    lsb0 = rng.random() < 0.3
    opt0 = (bitstring.options.lsb0, bitstring.options.bytealigned, bitstring.options.mxfp_overflow)
    cls = rng.choice([Bits, BitArray, ConstBitStream, BitStream])
    s = rbits()
    steps = []
    watched = []          # (object, bin it must keep)
    ok, why = True, ''
    try:
        bitstring.options.lsb0 = lsb0
        o = cls(bin=s) if s else cls()
        if hasattr(o, 'pos'):
            o.pos = rng.randint(0, len(o))
        if not isinstance(o, BitArray):
            watched.append((o, o.bin))
        for _ in range(rng.randint(1, 4)):
            table = ['find', 'rfind', 'findall', 'split', 'cut', 'startswith', 'endswith', 'count', 'unpack', 'tobytes', 'copy', 'getitem', 'mul', 'lshift', 'and',
                     'add', 'invert', 'contains', 'eq', 'pp', 'str', 'repr', 'iter', 'hash']
            if isinstance(o, BitArray):
                table += ['append', 'prepend', 'insert', 'overwrite', 'replace', 'reverse', 'rol', 'ror', 'set', 'invertbits', 'byteswap', 'clear', 'setitem',
                          'setslice', 'delitem', 'ilshift', 'imul', 'iand', 'iadd', 'setprop', 'setprop', 'setprop', 'setprop']
            if isinstance(o, ConstBitStream):
                table += ['read', 'peek', 'readlist', 'peeklist', 'readto', 'bytealign', 'setpos']
            op = rng.choice(table)
            b = bitsarg()
            if isinstance(b, (Bits,)) and not isinstance(b, BitArray):
                watched.append((b, b.bin))
            oi = lambda: rng.choice([None, rint()])

            def watch(x):
                watched.append((x, x.bin))
                return x
            calls = {
                'find': lambda: o.find(b, oi(), oi(), rng.choice([None, True, False])), 'rfind': lambda: o.rfind(b, oi(), oi(), rng.choice([None, True, False])),
                'findall': lambda: list(o.findall(b, oi(), oi(), oi(), rng.choice([None, True]))), 'split': lambda: list(o.split(b, oi(), oi(), oi())),
                'cut': lambda: list(o.cut(rint(), oi(), oi(), oi())), 'startswith': lambda: o.startswith(b, oi(), oi()), 'endswith': lambda: o.endswith(b, oi(), oi()),
                'count': lambda: o.count(rng.random() < 0.5), 'unpack': lambda: o.unpack(rfmt()), 'tobytes': lambda: o.tobytes(), 'copy': lambda: o.copy(),
                'getitem': lambda: o[rng.choice([rint(), slice(oi(), oi(), rng.choice([None, 1, -1, 2, 0]))])], 'mul': lambda: o * rint(), 'lshift': lambda: o << rint(),
                'and': lambda: o & b, 'add': lambda: o + b, 'invert': lambda: ~o, 'contains': lambda: b in o, 'eq': lambda: o == b,
                'pp': lambda: o.pp(ppfmt(), width=rng.choice([-100, -1, 0, 1, 2, 3, 5, 20, 120]), sep=rng.choice([' ', '', '--']), show_offset=rng.random() < 0.5,
                                   stream=io.StringIO()),
                'str': lambda: str(o), 'repr': lambda: repr(o), 'iter': lambda: list(o), 'hash': lambda: hash(o) if not isinstance(o, BitArray) else None,
                'append': lambda: o.append(b), 'prepend': lambda: o.prepend(b), 'insert': lambda: o.insert(b, rint()), 'overwrite': lambda: o.overwrite(b, rint()),
                'replace': lambda: o.replace(b, bitsarg(), oi(), oi(), oi()), 'reverse': lambda: o.reverse(oi(), oi()), 'rol': lambda: o.rol(rint(), oi(), oi()),
                'ror': lambda: o.ror(rint(), oi(), oi()), 'set': lambda: o.set(rng.random() < 0.5, rng.choice([rint(), [0], [-1, 2], range(0, 4)])),
                'invertbits': lambda: o.invert(rng.choice([None, rint(), [0, -1]])), 'byteswap': lambda: o.byteswap(rint(), oi(), oi(), rng.random() < 0.5),
                'clear': lambda: o.clear(), 'setitem': lambda: o.__setitem__(rint(), rng.choice([0, 1, 2, b])),
                'setslice': lambda: o.__setitem__(slice(oi(), oi(), rng.choice([None, 1, -1, 2])), rng.choice([0, 1, 5, -1, b])),
                'delitem': lambda: o.__delitem__(rng.choice([rint(), slice(oi(), oi(), rng.choice([None, 1, -1, 2]))])), 'ilshift': lambda: o.__ilshift__(rint()),
                'imul': lambda: o.__imul__(rng.choice([0, 1, 2, -1])), 'iand': lambda: o.__iand__(b), 'iadd': lambda: o.__iadd__(b),
                'setprop': lambda: (setattr(o, rng.choice(['bits', 'bits', 'bits16', 'bits']), watch(rng.choice([Bits, ConstBitStream])(bin=rbits())))
                                    if rng.random() < 0.5 else
                                    setattr(o, rng.choice(['bits', 'bin', 'hex', 'uint', 'int', 'bytes', 'bool', 'ue', 'uint8', 'bits16', 'float']),
                                            rng.choice([b, b, '101', 'ff', rint(), b'ab', True, 1.5]))),
                'read': lambda: o.read(rng.choice([rfmt(), rint()])), 'peek': lambda: o.peek(rng.choice([rfmt(), rint()])),
                'readlist': lambda: o.readlist(rng.choice([rfmt(), [rint(), rfmt()]])), 'peeklist': lambda: o.peeklist(rng.choice([rfmt(), [rint(), rfmt()]])),
                'readto': lambda: o.readto(b, rng.choice([None, True])), 'bytealign': lambda: o.bytealign(), 'setpos': lambda: setattr(o, 'pos', rint()),
            }
            # (ConstBitStream.append / overwrite on the immutable receiver are a recorded known finding, KF1: not exercised here)
            steps.append(op)
            try:
                calls[op]()
            except DOCUMENTED:
                pass
            except bitstring.Error:
                pass
            except Exception as e:
                ok, why = False, f'step {len(steps)} ({op}) raised {type(e).__name__}: {e}'
                break
            if len(o) != len(o.bin):
                ok, why = False, f'after {op}: len(s) != len(s.bin)'
            elif hasattr(o, 'pos') and not (0 <= o.pos <= len(o)) and op != 'setprop':
                ok, why = False, f'after {op}: pos {o.pos} outside [0, {len(o)}]'      # (setprop: recorded known finding KF2)
            elif hasattr(o, 'pos') and not (0 <= o.pos <= len(o)):
                o.pos = 0
            for w, wb in watched:
                if w.bin != wb:
                    ok, why = False, f'after {op}: an immutable object involved earlier changed from {wb!r} to {w.bin!r}'
            if (bitstring.options.lsb0, bitstring.options.bytealigned, bitstring.options.mxfp_overflow) != (lsb0, opt0[1], opt0[2]):
                ok, why = False, f'after {op}: module options changed'
            if not ok:
                break
    finally:
        bitstring.options.lsb0, bitstring.options.bytealigned, bitstring.options.mxfp_overflow = opt0
    return ok, f"{cls.__name__}(bin={s!r}) lsb0={lsb0} steps={steps}: {why}"


def sequences(tier='quick', seed=0):
    fails = []
    N = 4000 if tier == 'quick' else 80000
    seen = set()
    for i in range(N):
        ok, desc = _seq_case(seed, i)
        if not ok:
            key = desc.split(': ', 1)[1][:40]
            if key in seen:
                continue
            seen.add(key)
            fails.append({'call': desc[:260], 'python': "import sys\nsys.path.insert(0, '/verif')\nfrom props.C20 import _seq_case\n"
                                                       f"ok, desc = _seq_case({seed}, {i})\nprint(desc)\nFAILS = not ok\n"})
            if len(fails) > 8:
                break
    return {'id': 'C20.sequences', 'obligations': [], 'evaluations': N,
            'bounded': [{'id': 'C20/public-api/sequences', 'qualname': 'public-api-sequences', 'shape': 'sequences', 'function': 'sequences of public operations on one object, msb0 and lsb0',
                         'bound': f'{N} sequences of 1-4 operations, objects <= 24 bits, seed {seed}', 'evaluations': N, 'failures': fails[:6]}],
            'summary': f'{N} sequences, {len(fails)} distinct failures'}



def _array_case(seed, i):
    import operator
    import bitstring
    from bitstring import Array
    rng = random.Random(seed * 1000003 + i)
    ops = [operator.add, operator.sub, operator.mul, operator.floordiv, operator.truediv, operator.mod, operator.lshift, operator.rshift, operator.and_, operator.or_,
           operator.xor, operator.iadd, operator.isub, operator.imul, operator.ifloordiv, operator.itruediv, operator.imod, operator.ilshift, operator.irshift,
           operator.lt, operator.le, operator.eq, operator.ne, operator.ge, operator.gt, operator.neg, operator.abs]
    dts = ['uint8', 'int8', 'uint12', 'float32', 'float16', 'bool', 'hex4', 'bytes2', 'intle16', 'bfloat', 'uint1']
    mk = {'float32': lambda: rng.choice([0.0, -0.0, 1.5, -2.0, 1e30]), 'float16': lambda: rng.choice([0.0, 1.0, -3.5, 65504.0]), 'bfloat': lambda: rng.choice([0.0, 1.0, -2.0]),
          'bool': lambda: rng.random() < 0.5, 'hex4': lambda: rng.choice('0123456789abcdef'), 'bytes2': lambda: bytes([rng.randrange(256), rng.randrange(256)])}
    def vals(dt, n):
        if dt in mk:
            return [mk[dt]() for _ in range(n)]
        d = bitstring.Dtype(dt)
        lo, hi = (-(1 << (d.bitlength - 1)), (1 << (d.bitlength - 1)) - 1) if d.is_signed else (0, (1 << d.bitlength) - 1)
        return [rng.choice([0, 0, 1, lo, hi, rng.randint(lo, hi)]) for _ in range(n)]
    dt1, dt2 = rng.choice(dts), rng.choice(dts)
    n = rng.randint(0, 4)
    a = Array(dt1, vals(dt1, n), trailing_bits=rng.choice([None, None, '0b1']) if dt1 != 'uint1' and dt1 != 'bool' else None)
    op = rng.choice(ops)
    numeric = dt1 not in ('hex4', 'bytes2')
    bitwise = op in (operator.and_, operator.or_, operator.xor)
    if not numeric and not bitwise:
        # arithmetic on the items of a non-numeric dtype is Python's own str/bytes arithmetic (printf-style % included): out of scope
        op = rng.choice([operator.eq, operator.ne, operator.and_, operator.or_, operator.xor])
        bitwise = op in (operator.and_, operator.or_, operator.xor)
    other_kind = rng.choice(['array same', 'array other', 'scalar', 'scalar0', 'str', 'none'] + (['bits'] * 3 if bitwise else []))
    if op in (operator.neg, operator.abs):
        call, desc = (lambda: op(a)), f'{op.__name__}(Array({dt1!r}, {a.tolist()!r}))'
    else:
        if other_kind == 'array same':
            b = Array(dt1, vals(dt1, rng.choice([n, n, n + 1])))
        elif other_kind == 'array other':
            b = Array(dt2, vals(dt2, n))
        elif other_kind == 'scalar':
            b = rng.choice([1, 2, -1, 0.5, 3, 100, 70000, True])       # (kept feasible: a shift count of 2**40 is a memory bomb in plain Python too)
        elif other_kind == 'scalar0':
            b = rng.choice([0, 0.0, -0.0, False])
        elif other_kind == 'bits':
            b = bitstring.Bits(uint=1, length=max(1, a.itemsize)) if a.itemsize else bitstring.Bits()
        elif other_kind == 'str':
            b = rng.choice(['0b1', 'abc', ''])
        else:
            b = None
        call, desc = (lambda: op(a, b)), f'Array({dt1!r}, {a.tolist()!r}) {op.__name__} {b!r}'
    before = a.data.bin
    inplace = op.__name__.startswith('i') and op.__name__ not in ('invert',)
    try:
        r = call()
        ok, why = True, ''
        if isinstance(r, Array):
            r.tolist()
    except DOCUMENTED:
        ok, why = True, ''
        if a.data.bin != before:
            ok, why = False, 'raised, yet the Array changed'
    except bitstring.Error:
        ok, why = True, ''
    except Exception as e:
        ok, why = False, f'raised {type(e).__name__}: {e}'
    if ok and not inplace and a.data.bin != before:
        ok, why = False, 'a non-in-place operator changed its operand'
    return ok, f'{desc}: {why}'


def array_ops(tier='quick', seed=0):
    """Array operators (binary, in-place, reflected, comparison, unary) with Arrays of the same and other dtypes, scalars incl. zero,
    Bits, strings and None: a documented exception or a result; a raising operator leaves the Array unchanged.  Bounded, native, replayable."""
    fails = []
    N = 6000 if tier == 'quick' else 100000
    seen = set()
    for i in range(N):
        ok, desc = _array_case(seed, i)
        if not ok:
            key = desc.split(': ', 1)[1][:30] + desc.split(')')[1][:12] if ')' in desc else desc[:40]
            if key in seen:
                continue
            seen.add(key)
            fails.append({'call': desc[:240], 'python': "import sys\nsys.path.insert(0, '/verif')\nfrom props.C20 import _array_case\n"
                                                       f"ok, desc = _array_case({seed}, {i})\nprint(desc)\nFAILS = not ok\n"})
            if len(fails) > 8:
                break
    return {'id': 'C20.array_ops', 'obligations': [], 'evaluations': N,
            'bounded': [{'id': 'C20/array_.Array/operators', 'qualname': 'array_.Array.operators', 'shape': 'random operator applications', 'function': 'Array element-wise operators',
                         'bound': f'{N} random applications, seed {seed}', 'evaluations': N, 'failures': fails[:6]}],
            'summary': f'{N} operator applications, {len(fails)} distinct failures'}
