"""C04: value isolation -- immutable objects never change, mutable ones never share state.

Decided with a ghost heap: every BitStore / buffer has an identity in the interpreter; the generic ownership clause
(pyvc.contract.alias_goals) is evaluated on every path of every contract, and the derivation routes below add the
constructors, copies and raw-buffer hand-offs.  The same identity predicate is evaluated on the real objects in replay."""
from pyvc.contract import contract, Shape, INLINE
from pyvc import sym, spec
from pyvc.sym import lor, lnot, land, ite
from pyvc.spec import bits, mk_bits, sub, cat
from pyvc.shapes import m_bits, r_bits
from pyvc.extern import BA, PStr, SymBytes, view_eq
from pyvc.interp import Obj
from .common import *

CLASSES = {'Bits': 'bits.Bits', 'BitArray': 'bitarray_.BitArray', 'ConstBitStream': 'bitstream.ConstBitStream', 'BitStream': 'bitstream.BitStream'}
SOURCES = [('obj', 'Bits', 'immutable'), ('obj', 'BitArray', 'plain'), ('obj', 'ConstBitStream', 'immutable'), ('obj', 'BitStream', 'plain'),
           ('obj', 'Bits', 'buffer'), ('str',), ('bytes',), ('bytearray',), ('bitarray',)]


def _m_src(S, interp, k):
    if k[0] == 'bytearray':
        v = S.view('src')
        S.assume(sym.eq(v.n % 8, 0))
        return SymBytes(v.n // 8, v.bit, 'bytearray')
    if k[0] == 'bitarray':
        return S.view('src')
    return m_operand(S, interp, 'src', k, None)


def _r_src(vals, k):
    import bitarray
    if k[0] == 'bytearray':
        return bytearray(bitarray.bitarray([int(x) for x in vals['src']]).tobytes())
    if k[0] == 'bitarray':
        return bitarray.bitarray([int(x) for x in vals['src']])
    return r_operand(vals, 'src', k, None)


def _ctor_shapes(kw=None):
    out = []
    for k in SOURCES:
        if kw == 'bits' and k[0] in ('bytearray', 'bitarray', 'bytes'):
            continue

        def build(S, interp, k=k):
            src = _m_src(S, interp, k)
            return ([], {'bits': src}) if kw == 'bits' else ([src], {})

        def real(vals, k=k):
            src = _r_src(vals, k)
            return ([], {'bits': src}) if kw == 'bits' else ([src], {})
        out.append(Shape(('bits=' if kw else '') + opname(k), build, real))
    return out


def _ctor_post(clsname):
    def post(C, args, kwargs, out):
        src = kwargs['bits'] if 'bits' in kwargs else args[0]
        if out.kind == 'exc':
            yield ('raises', False, out.value.cls.name)
            return
        r = out.value
        yield ('class', isinstance(r, Obj) and r.cls.name == clsname)
        from pyvc.contract import Goals, same
        g = Goals()
        same(bits(r), promote_bits(C, src), 'content', g)
        for it in g.items:
            yield it
        if '_pos' in r.attrs:
            yield ('pos', sym.eq(r.attrs['_pos'], 0))
        st = r.attrs['_bitstore']
        # the advisory flag of an immutable object's own store; a mutable source's store must not have been flagged
        if isinstance(src, Obj) and any(k.name == 'BitArray' for k in src.cls.mro):
            yield ('source-store-not-flagged', not src.attrs['_bitstore'].attrs.get('immutable'))
    return post


for _cn, _q in CLASSES.items():
    contract(_q, shapes=_ctor_shapes(), props={'C04', 'C08'}, kind='public', relational=True, observe_args=False,
             note=f"{_cn}(src): holds exactly the bits src denotes, shares no store/buffer with a mutable src or a caller-owned "
                  "buffer, never adopts a cached store when mutable, and does not flag a mutable source's store immutable")(_ctor_post(_cn))
    contract(_q + '#bits', shapes=[], props=set(), kind='internal')(lambda C, *a, **k: INLINE)

# the bits= keyword goes through Bits._setbits
for _cn, _q in CLASSES.items():
    c = contract(_q + '.__new__', shapes=[], props=set(), kind='internal')(lambda C, *a, **k: INLINE)


def _kwbits_shapes():
    return _ctor_shapes('bits')


from pyvc.contract import REGISTRY
for _cn, _q in CLASSES.items():
    REGISTRY[_q].shapes.extend(_kwbits_shapes())


# ---- copies ------------------------------------------------------------------------------------------------------
def _copy_post(C, args, kwargs, out):
    self = args[0]
    if out.kind == 'exc':
        yield ('raises', False, out.value.cls.name)
        return
    r = out.value
    yield ('class', isinstance(r, Obj) and r.cls is self.cls)
    from pyvc.contract import Goals, same
    g = Goals()
    same(bits(r), bits(self), 'content', g)
    for it in g.items:
        yield it
    if any(k.name in ('BitArray', 'ConstBitStream') for k in self.cls.mro):
        # a mutable bitstring, or one carrying a position: the copy is a new object (reading from the copy must not move the original)
        yield ('fresh-object', r is not self)
    if '_pos' in r.attrs:
        yield ('pos', sym.eq(r.attrs['_pos'], 0))


from .bits_seq import _self_shapes
for _m in ('copy', '__copy__', '_copy', '_getbits'):
    for _cn, _q in (('Bits', 'bits.Bits'), ('BitArray', 'bitarray_.BitArray'), ('ConstBitStream', 'bitstream.ConstBitStream'),
                    ('BitStream', 'bitstream.BitStream')):
        q = f'{_q}.{_m}'
        try:
            from pyvc import runner
            import ast as _ast
        except Exception:
            pass
        # only where the class defines (or inherits) the method: resolved at check time through the MRO
        if _m in ('_copy', '_getbits') and _cn != 'Bits':
            continue
        states = SELF_STATES if _cn == 'Bits' and _m in ('_copy', '_getbits') else [s for s in SELF_STATES if s[0] == _cn]
        # the method is resolved through the class's MRO at check time, so each class is checked against whatever it
        # defines or inherits on the current tree
        contract(q, shapes=_self_shapes(states=states), props={'C04', 'C06'} if 'Stream' in _cn else {'C04'}, kind='public', relational=True,
                 note=f"{_m}(): equal content, same class; a new object for mutable classes; no store shared with a mutable object")(_copy_post)


# ---- raw buffer hand-off ---------------------------------------------------------------------------------------------
@contract('bits.Bits.tobitarray', shapes=_self_shapes(), props={'C04', 'C08'}, kind='public', relational=True,
          note="tobitarray(): a bitarray with the logical content that is NOT the object's live buffer (mutating it must not "
               "change this or any other bitstring)")
def tobitarray_post(C, args, kwargs, out):
    self = args[0]
    if out.kind == 'exc':
        yield ('raises', False, out.value.cls.name)
        return
    r = out.value
    yield ('is-bitarray', isinstance(r, BA))
    from pyvc.contract import Goals, same
    g = Goals()
    same(BA(r.n, r.bit), bits(self), 'content', g)
    for it in g.items:
        yield it


def _fromstring_shapes():
    out = []
    for cn in CLASSES:
        def build(S, interp, cn=cn):
            return [interp.get_module('bitstring').ns[cn], PStr(S.view('s'))], {}

        def real(vals, cn=cn):
            import bitstring
            b = vals['s']
            return [getattr(bitstring, cn), ('0b' + ''.join('1' if x else '0' for x in b)) if b else ''], {}
        out.append(Shape(cn, build, real))
    return out


def _fromstring_post(C, args, kwargs, out):
    cls, s = args
    if out.kind == 'exc':
        yield ('raises', False, out.value.cls.name)
        return
    r = out.value
    yield ('class', isinstance(r, Obj) and r.cls is cls)
    from pyvc.contract import Goals, same
    g = Goals()
    same(bits(r), BA(s.view.n, s.view.bit), 'content', g)
    for it in g.items:
        yield it


contract('bits.Bits.fromstring', shapes=[sh for sh in _fromstring_shapes() if sh.name in ('Bits', 'BitArray')], props={'C04', 'C09'},
         kind='public', relational=True, observe_args=False,
         note="cls.fromstring(s): the bits of s in an object of cls; a mutable result never holds the cached store")(_fromstring_post)
contract('bitstream.ConstBitStream.fromstring', shapes=[sh for sh in _fromstring_shapes() if sh.name in ('ConstBitStream', 'BitStream')],
         props={'C04', 'C09'}, kind='public', relational=True, observe_args=False,
         note="as Bits.fromstring, pos 0")(_fromstring_post)


# ---- immutable receivers: no public method alters the receiver's own content ---------------------------------------
def _immutable_receiver_post(C, args, kwargs, out):
    """relational: whatever the call does (return or raise), an immutable receiver still holds its old bits"""
    self = args[0]
    before = getattr(self, '_c04_before', None)
    from pyvc.contract import Goals, same
    g = Goals()
    same(bits(self), before, 'receiver-content', g)
    for it in g.items:
        yield it


def _imm_shapes(extra, extra_real, states=(('ConstBitStream', 'immutable'), ('Bits', 'immutable'))):
    out = []
    for cls, st in states:
        def build(S, interp, cls=cls, st=st):
            o = m_bits(S, interp, 'self', cls, st)
            V = bits(o)
            o._c04_before = BA(V.n, V.bit)
            return [o] + extra(S, interp, o), {}

        def real(vals, cls=cls, st=st):
            o = r_bits(vals, 'self', cls, st)
            return [o] + extra_real(vals, o), {}
        out.append(Shape(f'{cls}/{st}', build, real))
    return out


_bs_pos = (lambda S, interp, o: [m_operand(S, interp, 'bs', ('obj', 'Bits', 'immutable'), o), S.int('p')],
           lambda v, o: [r_operand(v, 'bs', ('obj', 'Bits', 'immutable'), o), v['p']])
_bs_only = (lambda S, interp, o: [m_operand(S, interp, 'bs', ('obj', 'Bits', 'immutable'), o)],
            lambda v, o: [r_operand(v, 'bs', ('obj', 'Bits', 'immutable'), o)])
from pyvc.contract import Contract
Contract('bitstream.ConstBitStream.overwrite@immutable-receiver', target='bitstream.ConstBitStream.overwrite',
         post=_immutable_receiver_post, shapes=_imm_shapes(*_bs_pos, states=(('ConstBitStream', 'immutable'),)),
         props={'C04', 'C20'}, kind='public', observe_args=False,
         note="an immutable ConstBitStream still holds its old bits after overwrite(), whatever overwrite() does")
Contract('bitstream.ConstBitStream.append@immutable-receiver', target='bitstream.ConstBitStream.append',
         post=_immutable_receiver_post, shapes=_imm_shapes(*_bs_only, states=(('ConstBitStream', 'immutable'),)),
         props={'C04'}, kind='public', observe_args=False,
         note="an immutable ConstBitStream still holds its old bits after append(), whatever append() does")
