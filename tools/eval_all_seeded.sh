#!/bin/bash
# evaluates every stored seeded change against the check of the property it was written for; one line per change
cd "$(dirname "$0")/.."
OUT=${1:-scratch/seeded_results.txt}
mkdir -p scratch; : > $OUT
for d in seeded/*/; do
  n=$(basename $d); p=${n%%-*}
  r=$(tools/eval_seeded.sh $n $p 2>&1)
  demo=$(echo "$r" | grep "^demo:" | head -1)
  nv=$(echo "$r" | grep -c "^VIOLATION")
  nfi=$(echo "$r" | grep "^VIOLATION" | grep -c "no-failing-input-found")
  ce=$(echo "$r" | grep -c "^CHECKER-ERROR")
  echo "$n property=$p violations=$nv (of which no-failing-input-found=$nfi) checker-errors=$ce | $demo" | tee -a $OUT
done
