#!/bin/bash
# usage: tools/eval_benign.sh <patch-file> <props...>   applies a behaviour-preserving patch to /repo, runs the checks, reverts;
# prints one line per property: OK / FALSE-ALARM (VIOLATION lines) / CHECKER-ERROR
cd "$(dirname "$0")/.."
P=$1; shift
cd /repo && git diff --quiet || { echo "/repo has local changes"; exit 2; }
git -C /repo apply "$P" || { echo "patch does not apply: $P"; exit 2; }
cd /verif
for p in "$@"; do
  out=$(./vf check $p --tier quick 2>&1); rc=$?
  nv=$(echo "$out" | grep -c '^VIOLATION'); ne=$(echo "$out" | grep -c '^CHECKER-ERROR'); nu=$(echo "$out" | grep -c '^UNDECIDED')
  st=OK; [ $ne -gt 0 ] && st=CHECKER-ERROR; [ $nv -gt 0 ] && st=FALSE-ALARM
  echo "$(basename $(dirname $P))/$(basename $P) $p exit=$rc $st violations=$nv checker-errors=$ne undecided-lines=$nu"
  [ $nv -gt 0 ] && ./vf summary $p 2>/dev/null | grep -v "shapes:" | cut -c1-300 | head -3
  [ $ne -gt 0 ] && echo "$out" | grep '^CHECKER-ERROR' | head -2 | cut -c1-300
done
git -C /repo checkout -- .
