"""Contracts, shapes and the obligation checker.

A *contract* is attached (by qualified name, in a sidecar file under /verif/contracts) to a
real function of /repo/bitstring.  It has

  * ``spec(C, *args)``  -- a functional specification: host Python over model values that
    computes the outcome (return value / exception / new state of the arguments) the
    function must have.  Functions with a spec are used *modularly*: at a call site inside
    another verified function the spec is executed instead of the body.
  * or ``post(C, args, outcome)`` -- a relational post-condition returning named goals.
    Callers of such a function execute its body (always sound).
  * ``shapes`` -- the finite case split of the inputs (class tags, None-ness, store state,
    option values); inside a shape everything is symbolic.

For every (contract, shape) the checker explores all paths of the real body with the
symbolic executor, runs the spec on an isomorphic copy of the inputs, and asks the solver
to prove, path by path, that outcome and final state agree.  One *obligation* is one
(contract, shape, clause); it is discharged when every path VC is unsat.
"""
from __future__ import annotations

import time
import traceback
import os
import sys
import z3

from . import sym
from .sym import SInt, SBool, PathCtx, Infeasible, Unsupported, NeedConcrete, PathLimit, is_sym
from .interp import Interp, Obj, PyRaise, ClassVal, FuncVal, BoundMethod, GenObj, OpaqueStr, Partial, Builtin
from . import extern
from . import loops as _loops
from .extern import BA, BBytes, SStr, SymBytes

REGISTRY = {}        # qualname -> Contract


class _Inline:
    def __repr__(self):
        return 'INLINE'


INLINE = _Inline()    # returned by a spec that does not cover this argument shape: callers run the body


class PreconditionNotMet(Exception):
    """raised by C.requires in concrete mode: the sampled input lies outside the contract's precondition"""


class Contract:
    def __init__(self, qualname, spec=None, post=None, shapes=(), props=(), kind='internal', note='',
                 observe_args=True, target=None):
        self.qualname = qualname
        self.target = target or qualname      # the function of /repo this contract is about
        self.spec = spec
        self.post = post
        self.shapes = list(shapes)
        self.props = set(props)
        self.kind = kind
        self.note = note
        self.observe_args = observe_args
        REGISTRY[qualname] = self

    # used by the interpreter at call sites (modular use)
    def apply(self, interp, f, args, kwargs):
        loc = interp.bind_args(f, args, kwargs)
        a = f.node.args
        C = SpecCtx(interp, callsite=True, qualname=self.qualname)
        if a.vararg is None and a.kwarg is None:
            names = [p.arg for p in a.posonlyargs + a.args + a.kwonlyargs]
            r = self.spec(C, *[loc[n] for n in names])
        else:
            pos = [loc[p.arg] for p in a.posonlyargs + a.args]
            kw = {}
            if a.vararg is not None:
                pos += list(loc[a.vararg.arg])
                kw.update({p.arg: loc[p.arg] for p in a.kwonlyargs})
            else:
                pos += [loc[p.arg] for p in a.kwonlyargs]
            if a.kwarg is not None:
                kw.update(loc[a.kwarg.arg])
            r = self.spec(C, *pos, **kw)
        interp.last_apply_inlined = r is INLINE
        if r is INLINE:
            saved = interp.under_verification
            interp.under_verification = self.qualname
            try:
                return interp.call_function(f, args, kwargs)
            finally:
                interp.under_verification = saved
                interp.last_apply_inlined = True
        return r


def contract(qualname, **kw):
    def deco(fn):
        if kw.pop('relational', False):
            Contract(qualname, post=fn, **kw)
        else:
            Contract(qualname, spec=fn, **kw)
        return fn
    return deco


class SpecCtx:
    """handle given to spec functions"""

    def __init__(self, interp, callsite=False, qualname='', opts=None):
        self.interp = interp
        self.callsite = callsite
        self.qualname = qualname
        self._opts = opts

    @property
    def lsb0(self):
        o = self.interp.get_module('bitstring').ns['options']
        return bool(o.attrs.get('_lsb0'))

    def option(self, name):
        o = self.interp.get_module('bitstring').ns['options']
        return o.attrs.get('_' + name)

    def requires(self, cond, what=''):
        if cond is True:
            return
        if not sym.have_ctx():
            # concrete evaluation (native replay / bounded stand-in): an input outside the precondition is not a test of the contract
            if cond is False or (not sym.is_sym(cond) and not cond):
                raise PreconditionNotMet(what)
            if not sym.is_sym(cond):
                return
        c = sym.ctx()
        if self.callsite:
            r, m = c.valid(cond)
            if r != 'unsat':
                c.side_obligations.append((f'callee-pre:{self.qualname}:{what}', r, m))
            c.assume(cond)     # continue under the callee's assumption
        else:
            c.assume(cond)

    def throw(self, clsname, *args):
        if isinstance(clsname, str) and clsname not in self.interp.builtins:
            clsname = self.interp.get_module('bitstring').ns[clsname]
        self.interp.throw(clsname, *args)

    def new(self, clsname_or_cls, **attrs):
        cls = clsname_or_cls if isinstance(clsname_or_cls, ClassVal) else self.cls(clsname_or_cls)
        o = Obj(cls)
        o.attrs.update(attrs)
        return o

    def cls(self, name):
        """'Bits' / 'bitstore.BitStore' -> ClassVal"""
        it = self.interp
        if '.' in name:
            return it.lookup_qualname(name)
        return it.get_module('bitstring').ns[name]


# ======================================================================================
# symbolic-input factory
# ======================================================================================
class Sym:
    """Declares the symbolic inputs of a shape.  Two factories over the same names produce
    the same z3 constants, hence isomorphic heaps for the body and for the spec.  With
    ``values`` (a dict from a counter-model) it produces concrete inputs instead."""

    def __init__(self, values=None):
        self.values = values
        self.decls = {}          # name -> ('int'|'bool'|'view', ...)
        self.assumptions = []

    def int(self, name):
        self.decls[name] = ('int',)
        if self.values is not None:
            v = self.values[name]
            return None if v is None else int(v)        # (an optional argument may be concretised as None by a generator)
        return SInt(z3.Int(name))

    def bool(self, name):
        self.decls[name] = ('bool',)
        if self.values is not None:
            return bool(self.values[name])
        return SBool(z3.Bool(name))

    def float(self, name):
        """a symbolic Python float (uninterpreted); replayed with representative values"""
        self.decls[name] = ('float',)
        if self.values is not None:
            return float(self.values[name])
        return extern.SFloat.named(name)

    def view(self, name, n=None):
        """a bit view of symbolic length name.n (or the given length) and symbolic content"""
        self.decls[name] = ('view',)
        if self.values is not None:
            bits = [bool(b) for b in self.values[name]]
            return BA.concrete(bits)
        if n is None:
            n = SInt(z3.Int(name + '.n'))
            self.assumptions.append(n >= 0)
        arr = z3.Array(name + '.bits', z3.IntSort(), z3.BoolSort())
        return BA(n, lambda i, arr=arr: sym.mk_bool(z3.Select(arr, sym._int_t(i))))

    def raw(self, name):
        """a value that only ever exists concretely (a format string, a list): taken as is from the generator's / counter-model's
        values; in symbolic mode the shape is not explorable"""
        self.decls[name] = ('raw',)
        if self.values is None:
            raise sym.Unsupported(f'{name} has no symbolic form (bounded-only shape)')
        return self.values[name]

    def assume(self, c):
        self.assumptions.append(c)
        if self.values is None and sym.have_ctx():
            sym.ctx().assume(c)      # effective at once: later steps of the builder may branch on it

    def concretize(self, model, max_len=4096):
        """counter-model -> {name: value}"""
        vals = {}
        for name, d in self.decls.items():
            if d[0] == 'int':
                v = model.eval(z3.Int(name), model_completion=True)
                vals[name] = v.as_long()
            elif d[0] == 'bool':
                vals[name] = z3.is_true(model.eval(z3.Bool(name), model_completion=True))
            elif d[0] == 'float':
                vals[name] = 1.5        # the float sort is uninterpreted: the bounded stand-in supplies real floats
            elif d[0] == 'view':
                n = model.eval(z3.Int(name + '.n'), model_completion=True).as_long()
                if n > max_len:
                    raise ValueError(f"model length {n} too large to concretise")
                arr = z3.Array(name + '.bits', z3.IntSort(), z3.BoolSort())
                vals[name] = [z3.is_true(model.eval(z3.Select(arr, z3.IntVal(i)), model_completion=True))
                              for i in range(n)]
        return vals


# ======================================================================================
# structural comparison of outcomes
# ======================================================================================
class Goals:
    def __init__(self):
        self.items = []      # (label, term-or-bool)

    def add(self, label, g):
        self.items.append((label, g))


def _skolem_view_eq(a, b, label):
    """goal-position view equality: n1 == n2 and bit equality at a fresh (skolem) index"""
    if not sym.have_ctx():
        return extern.view_eq(a, b)       # concrete replay
    c = sym.ctx()
    k = SInt(c.fresh_int('sk'))
    sym.note_index(k)
    # uval facts: ubit(uval(arr, n), n, k) == arr[k] instantiated at the skolem index
    from . import ints
    for (u, nt, ba) in getattr(c, 'uval_terms', []):
        c.assume(z3.Implies(z3.And(k.term >= 0, k.term < nt),
                            ints.ubit(u, nt, k.term) == sym._b(ba.bit(k))))
    for (vt, nt, pt) in getattr(c, 'ubit_terms', []):
        inr = z3.And(k.term >= 0, k.term < nt)
        c.assume(z3.Implies(z3.And(inr, vt == 0), z3.Not(ints.ubit(vt, nt, k.term))))
        c.assume(z3.Implies(z3.And(inr, vt == pt - 1), ints.ubit(vt, nt, k.term)))
    n_eq = sym.eq(a.n, b.n)
    inrange = sym.land(k >= 0, k < a.n)
    return sym.land(n_eq, sym.implies(inrange, sym.iff(a.bit(k), b.bit(k))))


def same(x, y, label, goals, seen=None):
    """append goals stating that model values x (body) and y (spec) are equal"""
    if seen is None:
        seen = set()
    if isinstance(x, Obj) and isinstance(y, Obj):
        key = (x.oid, y.oid)
        if key in seen:
            return
        seen.add(key)
        if x.cls is not y.cls:
            goals.add(label + ':class', False)
            return
        # abstraction functions: a BitStore is its logical content, a bitstring is
        # (class, logical content, pos); representation flags are compared only where a
        # contract observes them explicitly
        if x.cls.name == 'Dtype':
            for k in ('_name', '_length', '_scale'):
                same(x.attrs.get(k), y.attrs.get(k), f'{label}.{k}', goals, seen)
            return
        if x.cls.name == 'BitStore':
            from .spec import store_bits
            if '_bitarray' not in x.attrs or '_bitarray' not in y.attrs:
                goals.add(label + ':store-present', '_bitarray' not in x.attrs and '_bitarray' not in y.attrs)
                return
            goals.add(label + ':wf', store_wf(x))
            same(store_bits(x), store_bits(y), label + ':bits', goals, seen)
            return
        if any(k.name == 'Bits' for k in x.cls.mro):
            if '_bitstore' not in x.attrs or '_bitstore' not in y.attrs:
                goals.add(label + ':store-present', '_bitstore' not in x.attrs and '_bitstore' not in y.attrs)
                return
            same(x.attrs['_bitstore'], y.attrs['_bitstore'], label, goals, seen)
            if ('_pos' in x.attrs) != ('_pos' in y.attrs):
                goals.add(label + ':pos-present', False)
            elif '_pos' in x.attrs:
                same(x.attrs['_pos'], y.attrs['_pos'], label + ':pos', goals, seen)
            return
        keys = sorted(set(x.attrs) | set(y.attrs))
        for k in keys:
            if k not in x.attrs or k not in y.attrs:
                goals.add(f'{label}.{k}:present', False)
                continue
            same(x.attrs[k], y.attrs[k], f'{label}.{k}', goals, seen)
        return
    if isinstance(x, BA) and isinstance(y, BA):
        goals.add(label, _skolem_view_eq(x, y, label))
        if x.readonly != y.readonly:
            goals.add(label + ':readonly', False)
        return
    if isinstance(x, BBytes) and isinstance(y, BBytes):
        goals.add(label, _skolem_view_eq(BA(x.nbytes * 8, x.bit), BA(y.nbytes * 8, y.bit), label))
        return
    if isinstance(x, (BBytes, bytes)) and isinstance(y, (BBytes, bytes)):
        bx = x if isinstance(x, BBytes) else extern.as_bbytes(None, x)
        by = y if isinstance(y, BBytes) else extern.as_bbytes(None, y)
        goals.add(label, _skolem_view_eq(BA(bx.nbytes * 8, bx.bit), BA(by.nbytes * 8, by.bit), label))
        return
    if isinstance(x, extern.PStr) and isinstance(y, extern.PStr):
        goals.add(label, _skolem_view_eq(x.view, y.view, label))
        return
    if isinstance(x, SymBytes) and isinstance(y, SymBytes):
        goals.add(label, _skolem_view_eq(BA(x.nbytes * 8, x.bit), BA(y.nbytes * 8, y.bit), label))
        return
    from . import files as _files
    if isinstance(x, (_files.BytesIOModel, _files.FileModel)) and type(x) is type(y):
        goals.add(label, _skolem_view_eq(BA(x.nbytes * 8, x.bit), BA(y.nbytes * 8, y.bit), label))
        return
    if isinstance(x, SStr) and isinstance(y, SStr):
        if x.kind != y.kind:
            goals.add(label + ':kind', False)
            return
        goals.add(label, _skolem_view_eq(x.view, y.view, label))
        return
    if isinstance(x, (SStr, str)) and isinstance(y, (SStr, str)) and (isinstance(x, SStr) or isinstance(y, SStr)):
        sx = x if isinstance(x, SStr) else _str_to_sstr(y.kind, x)
        sy = y if isinstance(y, SStr) else _str_to_sstr(x.kind, y)
        if sx is None or sy is None:
            goals.add(label + ':digits', False)
            return
        goals.add(label, _skolem_view_eq(sx.view, sy.view, label))
        return
    if isinstance(x, slice) and isinstance(y, slice):
        same(x.start, y.start, label + '.start', goals, seen)
        same(x.stop, y.stop, label + '.stop', goals, seen)
        same(x.step, y.step, label + '.step', goals, seen)
        return
    if isinstance(x, (tuple, list)) and isinstance(y, (tuple, list)):
        if type(x) is not type(y):
            goals.add(label + ':type', False)
            return
        if len(x) != len(y):
            goals.add(label + ':len', False)
            return
        for i, (a, b) in enumerate(zip(x, y)):
            same(a, b, f'{label}[{i}]', goals, seen)
        return
    from .interp import SeqVal, SRange
    if isinstance(x, SRange) and isinstance(y, SRange):
        for a in ('start', 'stop', 'step'):
            same(getattr(x, a), getattr(y, a), f'{label}.{a}', goals, seen)
        return
    if isinstance(x, SeqVal) and isinstance(y, SeqVal):
        goals.add(label + ':count', sym.eq(x.n, y.n))
        if sym.have_ctx():
            c = sym.ctx()
            if sym.truth(sym.land(x.n > 0, sym.eq(x.n, y.n))):
                # a fresh index in range exists (n > 0 on this path), so assuming it does not weaken any other goal
                k = SInt(c.fresh_int('sq'))
                sym.note_index(k)
                c.assume(sym.land(k >= 0, k < x.n))
                same(x.item(k), y.item(k), label + ':item', goals, seen)
        else:
            n = min(int(x.n), int(y.n))
            for j in range(n):
                same(x.item(j), y.item(j), f'{label}:item', goals, seen)
        return
    if isinstance(x, SeqVal) or isinstance(y, SeqVal):
        goals.add(label + ':sequence-shape', False)
        return
    if isinstance(x, GenObj) or isinstance(y, GenObj):
        goals.add(label + ':generator-compare-unsupported', None)
        return
    if x is None or y is None:
        goals.add(label, x is None and y is None)
        return
    if isinstance(x, (bool, SBool)) or isinstance(y, (bool, SBool)):
        if not (isinstance(x, (bool, SBool)) and isinstance(y, (bool, SBool))):
            goals.add(label + ':booltype', False)
            return
        goals.add(label, sym.iff(x, y))
        return
    if sym.is_intlike(x) and sym.is_intlike(y):
        goals.add(label, sym.eq(x, y))
        return
    if isinstance(x, OpaqueStr) or isinstance(y, OpaqueStr):
        goals.add(label, isinstance(x, str) and isinstance(y, str))
        return
    if isinstance(x, (ClassVal, FuncVal)) or isinstance(y, (ClassVal, FuncVal)):
        goals.add(label, x is y)
        return
    if isinstance(x, extern.SFloat) and isinstance(y, extern.SFloat):
        goals.add(label, sym.mk_bool(x.term == y.term))
        return
    if isinstance(x, float) and isinstance(y, float):
        goals.add(label, x == y or (x != x and y != y))
        return
    if isinstance(x, dict) and isinstance(y, dict):
        if set(x) != set(y):
            goals.add(label + ':keys', False)
            return
        for k in x:
            same(x[k], y[k], f'{label}[{k!r}]', goals, seen)
        return
    try:
        goals.add(label, type(x) is type(y) and x == y)
    except Exception:
        goals.add(label, False)


def _bits_objs(v, acc, depth=0):
    if isinstance(v, Obj):
        if any(k.name == 'Bits' for k in v.cls.mro):
            if all(v is not o for o in acc):
                acc.append(v)
        elif v.cls.name == 'Array' and 'data' in v.attrs:
            _bits_objs(v.attrs['data'], acc, depth + 1)
    elif isinstance(v, (list, tuple)) and depth < 3:
        for x in v:
            _bits_objs(x, acc, depth + 1)


def is_mutable_cls(cls):
    return any(k.name == 'BitArray' for k in cls.mro)


def entry_snapshot(args, kwargs):
    """(highest object id so far, {id(bitstring): its store}) taken when the call starts"""
    objs = []
    for a in list(args) + list(kwargs.values()):
        _bits_objs(a, objs)
    return Obj._ids, {id(a): a.attrs.get('_bitstore') for a in objs}


def alias_goals(result, args, kwargs, entry=None, cached_returns=()):
    """value isolation: two distinct bitstring objects of which at least one is mutable never share a store or a
    buffer; a mutable object's store is not flagged immutable (i.e. possibly shared / cached); a caller-supplied or
    returned raw buffer is never the live buffer of a bitstring"""
    objs = []
    _bits_objs(result, objs)
    for a in list(args) + list(kwargs.values()):
        _bits_objs(a, objs)
    out = []
    for i, a in enumerate(objs):
        sa = a.attrs.get('_bitstore')
        if sa is None:
            continue
        if is_mutable_cls(a.cls) and sa.attrs.get('immutable'):
            out.append(('own:mutable-object-holds-a-store-flagged-immutable', False, f'{a.cls.name}'))
        if is_mutable_cls(a.cls) and getattr(sa, 'cached', False):
            out.append(('own:mutable-object-holds-a-cached-store', False, f'{a.cls.name}'))
        if entry is not None and is_mutable_cls(a.cls) and isinstance(sa, Obj) and sa.oid <= entry[0] \
                and not any(sa is st for st in entry[1].values()):
            # neither created by this call nor owned by an argument: a module-level constant or otherwise long-lived store
            out.append(('own:mutable-object-holds-a-store-that-outlives-the-call', False, f'{a.cls.name}'))
        for b in objs[i + 1:]:
            sb = b.attrs.get('_bitstore')
            if sb is None or not (is_mutable_cls(a.cls) or is_mutable_cls(b.cls)):
                continue
            if sa is sb:
                out.append(('own:store-shared-with-a-mutable-object', False, f'{a.cls.name}/{b.cls.name}'))
            elif sa.attrs.get('_bitarray') is sb.attrs.get('_bitarray'):
                out.append(('own:buffer-shared-with-a-mutable-object', False, f'{a.cls.name}/{b.cls.name}'))
    raw = [v for v in [result] + list(args) + list(kwargs.values()) if isinstance(v, BA)]
    for r in raw:
        for a in objs:
            sa = a.attrs.get('_bitstore')
            if sa is not None and sa.attrs.get('_bitarray') is r:
                out.append(('own:raw-buffer-of-a-bitstring-exposed-or-adopted', False, a.cls.name))
    if entry is not None and isinstance(result, Obj) and result.cls.name == 'BitStore' and result.oid <= entry[0] \
            and not result.attrs.get('immutable') and not any(result is a for a in list(args) + list(kwargs.values())):
        out.append(('own:returned-store-outlives-the-call-and-is-not-flagged-immutable', False, ''))
    for q, v in cached_returns:
        if isinstance(v, Obj) and v.cls.name == 'BitStore' and v.attrs.get('immutable') is not True:
            out.append(('own:memoised-result-not-flagged-immutable', False, q))
    if not out:
        out.append(('own', True))
    return out


def store_wf(st):
    """representation invariant of a BitStore: modified_length is None or within the raw buffer"""
    ml = st.attrs.get('modified_length')
    if ml is None:
        return True
    ba = st.attrs['_bitarray']
    return sym.land(ml >= 0, ml <= ba.n)


def _str_to_sstr(kind, s):
    per = {'bin': 1, 'oct': 3, 'hex': 4}[kind]
    alphabet = {'bin': '01', 'oct': '01234567', 'hex': '0123456789abcdef'}[kind]
    bits = []
    for ch in s:
        d = alphabet.find(ch)
        if d < 0:
            return None
        bits.extend(bool((d >> (per - 1 - k)) & 1) for k in range(per))
    return SStr(kind, BA.concrete(bits))


# ======================================================================================
# shapes
# ======================================================================================
class Shape:
    """One case of the input space.  ``build(S, interp)`` returns (args, kwargs) as model
    values, declaring symbolic inputs through S.  ``real(vals)`` builds the same call on
    real objects from a concretised counter-model (for replay).  ``opts`` are option values
    in force (lsb0, bytealigned, mxfp_overflow)."""

    def __init__(self, name, build, real=None, opts=None, loop_bound=None, timeout_ms=None, note='', props=None, stable=True,
                 gen=None, bounded_only=False, may_be_empty=False):
        self.may_be_empty = may_be_empty   # True: the inputs may be unconstructible on a correct tree (then no obligation arises)
        self.bounded_only = bounded_only   # True: no symbolic exploration at all (body outside the prover); bounded stand-in only
        self.gen = gen            # optional: rng -> concrete input dict, for the bounded stand-in (domains the default
                                  # small-input generator cannot reach)
        self.props = set(props) if props is not None else None
        self.stable = stable      # False: solver verdicts on this shape are load-sensitive; it is always also served by the
                                  # bounded stand-in and is not counted in the proof tally
        self.name = name
        self.build = build
        self.real = real
        self.opts = opts or {}
        self.loop_bound = loop_bound
        self.timeout_ms = timeout_ms
        self.note = note


class Outcome:
    def __init__(self, kind, value=None):
        self.kind = kind       # 'ret' | 'exc'
        self.value = value

    def __repr__(self):
        return f'Outcome({self.kind}, {self.value!r})'


def run_callable(interp, fn, args, kwargs):
    try:
        v = interp.call(fn, list(args), dict(kwargs))
        return Outcome('ret', v)
    except PyRaise as pr:
        return Outcome('exc', pr.exc)


def exc_class_name(e):
    return e.cls.name


def set_options(interp, opts):
    """put the interpreted package into the option state of a shape (through the real setters)"""
    m = interp.get_module('bitstring')
    o = m.ns['options']
    want = {'lsb0': False, 'bytealigned': False, 'mxfp_overflow': 'saturate', 'no_color': False}
    want.update(opts or {})
    saved = interp.write_log
    interp.write_log = None
    try:
        for k, v in want.items():
            interp.setattr(o, k, v)
    finally:
        interp.write_log = saved


# ======================================================================================
# path results and the checker for one (contract, shape)
# ======================================================================================
class ClauseResult:
    def __init__(self):
        self.paths = 0
        self.unsat = 0
        self.sat = []          # (path index, model values or None, detail)
        self.unknown = 0
        self.cvc5 = 0          # paths on which z3 answered unknown and cvc5 proved the goal

    def verdict(self):
        if self.sat:
            return 'refuted'
        if self.unknown:
            return 'undecided'
        return 'proved'


def check_shape(interp, c: Contract, shape: Shape, timeout_ms=20000, max_paths=4000, wall_s=120.0, loop_bound=None):
    """-> dict(result per clause, stats).  Never raises for solver/engine trouble: those
    become 'undecided' with a reason."""
    t0 = time.time()
    fn = interp.lookup_qualname(c.target)
    set_options(interp, shape.opts)
    clauses = {}
    stats = dict(paths=0, infeasible=0, unsupported=[], bounded=0, solver_calls=0, cover=0, side_fail=[],
                 unknown_feasibility=0, errors=[], used_contracts=[])
    interp.used_contracts = set()
    work = [[]]
    lb = shape.loop_bound if shape.loop_bound is not None else loop_bound
    tmo = shape.timeout_ms or timeout_ms
    while work:
        if time.time() - t0 > wall_s:
            stats['unsupported'].append(f'wall budget {wall_s}s exhausted with {len(work)} paths pending')
            break
        if stats['paths'] >= max_paths:
            stats['unsupported'].append(f'path budget {max_paths} exhausted')
            break
        trail = work.pop()
        ctx = PathCtx(trail, timeout_ms=tmo, loop_bound=lb)
        stats['paths'] += 1
        with ctx:
            try:
                _one_path(interp, c, fn, shape, ctx, clauses, stats)
            except Infeasible:
                stats['infeasible'] += 1
            except PathLimit as e:
                stats['bounded'] += 1
            except _loops.PathDone:
                _record_side(ctx, clauses, stats, None)
            except (Unsupported, NeedConcrete) as e:
                stats['unsupported'].append(f'{type(e).__name__}: {e}')
            except RecursionError as e:
                stats['unsupported'].append('host recursion limit')
            except z3.Z3Exception as e:
                stats['errors'].append(f'z3: {e}')
            except Exception as e:       # engine bug: never a verdict
                stats['errors'].append(f'{type(e).__name__}: {e} @ ' + traceback.format_exc().splitlines()[-3].strip())
        stats['solver_calls'] += ctx.solver_calls
        stats['unknown_feasibility'] += ctx.unknown_feasibility
        work.extend(ctx.pending)
    stats['wall_s'] = round(time.time() - t0, 3)
    stats['used_contracts'] = sorted(interp.used_contracts)
    interp.used_contracts = None
    set_options(interp, {})
    return clauses, stats


def _observe_args(args, kwargs):
    return [('arg%d' % i, a) for i, a in enumerate(args)] + [('kw_' + k, v) for k, v in sorted(kwargs.items())]


def _one_path(interp, c, fn, shape, ctx, clauses, stats):
    S1 = Sym()
    args1, kw1 = shape.build(S1, interp)
    for a in S1.assumptions:
        ctx.assume(a)
    if ctx.check() == 'unsat':
        raise Infeasible()
    # ---- the real body
    entry = entry_snapshot(args1, kw1)
    interp.cached_returns = []
    interp.under_verification = c.target
    interp.contracts = {q: k for q, k in REGISTRY.items() if k.spec is not None and q != c.target and '@' not in q
                        and not getattr(k, 'inline', False)}
    try:
        out1 = run_callable(interp, fn, args1, kw1)
        if isinstance(out1.value, GenObj):
            out1 = _drain(interp, out1.value)
    finally:
        interp.under_verification = None
    cached_returns, interp.cached_returns = interp.cached_returns, None
    # ---- the specification
    goals = Goals()
    if c.spec is not None:
        S2 = Sym()
        args2, kw2 = shape.build(S2, interp)
        saved = interp.contracts
        interp.contracts = {}
        C = SpecCtx(interp, callsite=False, qualname=c.qualname)
        try:
            try:
                v2 = c.spec(C, *args2, **kw2)
                if isinstance(v2, GenObj):
                    out2 = _drain(interp, v2)
                else:
                    out2 = Outcome('ret', v2)
            except PyRaise as pr:
                out2 = Outcome('exc', pr.exc)
        finally:
            interp.contracts = saved
        if out1.kind != out2.kind:
            goals.add('outcome-kind', False)
            detail = f'body {out1.kind}({_short(out1)}) vs spec {out2.kind}({_short(out2)})'
            goals.items[-1] = ('outcome-kind', False, detail)
        elif out1.kind == 'exc':
            ok = out1.value.cls.is_subclass(out2.value.cls)
            g = ('raises', ok)
            if not ok:
                g = ('raises', False, f'body raises {out1.value.cls.name}, spec {out2.value.cls.name}')
            goals.items.append(g)
        else:
            same(out1.value, out2.value, 'result', goals)
            # aliasing: for mutable classes and for streams (which carry a position) "returns self" vs
            # "returns a new object" is observable
            v1, v2 = out1.value, out2.value
            if isinstance(v1, Obj) and isinstance(v2, Obj) and any(k.name in ('BitArray', 'ConstBitStream', 'BitStore') for k in v1.cls.mro):
                i1 = next((i for i, a in enumerate(args1) if a is v1), -1)
                i2 = next((i for i, a in enumerate(args2) if a is v2), -1)
                goals.add('result:identity', i1 == i2)
        if c.observe_args and not (c.observe_args == 'on_return' and out1.kind == 'exc' and out2.kind == 'exc'):
            for (l1, a1), (l2, a2) in zip(_observe_args(args1, kw1), _observe_args(args2, kw2)):
                same(a1, a2, 'state:' + l1, goals)
    else:
        C = SpecCtx(interp, callsite=False, qualname=c.qualname)
        saved = interp.contracts
        interp.contracts = {}
        try:
            for item in c.post(C, args1, kw1, out1):
                goals.items.append(item)
        finally:
            interp.contracts = saved
    # ---- ownership / aliasing (C04): concrete identity facts of this path
    if out1.kind == 'ret':
        for item in alias_goals(out1.value, args1, kw1, entry, cached_returns):
            goals.items.append(item)
    # ---- discharge
    stats['cover'] += 1
    _record_side(ctx, clauses, stats, S1)
    for item in goals.items:
        label, g = item[0], item[1]
        detail = item[2] if len(item) > 2 else ''
        clause = ':'.join(label.replace('[', '.').split('.')[0].split(':')[:2])
        cr = clauses.setdefault(clause, ClauseResult())
        cr.paths += 1
        if g is None:
            cr.unknown += 1
            continue
        before = getattr(ctx, 'cvc5_unsat', 0)
        r, m = ctx.valid(g, final=True)
        cr.cvc5 += getattr(ctx, 'cvc5_unsat', 0) - before
        if r != 'unsat' and os.environ.get('PYVC_DEBUG'):
            print(f'[debug] {c.qualname}[{shape.name}] {label} {detail} -> {r}; trail={ctx.trail}', file=sys.stderr)
            if os.environ.get('PYVC_DEBUG') == '2':
                print('[debug-goal]', (g.term if hasattr(g, 'term') else g), file=sys.stderr)
        if r == 'unsat':
            cr.unsat += 1
        elif r == 'sat':
            vals = _concretize(S1, m)
            if '__error__' in vals or _too_big(vals):
                # ask for a small counter-model (short views, small integers): easier to replay and to read
                m2 = _small_model(ctx, g, S1)
                if m2 is not None:
                    vals = _concretize(S1, m2)
            cr.sat.append((stats['paths'], vals, f'{label} {detail}'.strip()))
        else:
            cr.unknown += 1
    if ctx.bounded:
        stats['bounded'] += 1


def _record_side(ctx, clauses, stats, S1):
    for (name, r, m) in ctx.side_obligations:
        cr = clauses.setdefault(name, ClauseResult())
        cr.paths += 1
        if r == 'unsat':
            cr.unsat += 1
        elif r == 'sat':
            vals = _concretize(S1, m) if (S1 is not None and m is not None) else {'__error__': 'no model for a side obligation'}
            cr.sat.append((stats['paths'], vals, name))
        else:
            cr.unknown += 1
    ctx.side_obligations = []


def _too_big(vals):
    return any((isinstance(v, list) and len(v) > 96) or (isinstance(v, int) and not isinstance(v, bool) and abs(v) > 10 ** 6) for v in vals.values())


def _small_model(ctx, g, S):
    g = g.term if isinstance(g, SBool) else (z3.BoolVal(bool(g)) if isinstance(g, bool) else g)
    for bound in (16, 64):
        ctx.solver.push()
        try:
            ctx.solver.add(z3.Not(g))
            for name, d in S.decls.items():
                if d[0] == 'view':
                    ctx.solver.add(z3.Int(name + '.n') <= bound)
                elif d[0] == 'int':
                    ctx.solver.add(z3.And(z3.Int(name) <= 4 * bound, z3.Int(name) >= -4 * bound))
            if str(ctx.solver.check()) == 'sat':
                return ctx.solver.model()
        finally:
            ctx.solver.pop()
    return None


def _concretize(S, m):
    try:
        return S.concretize(m)
    except Exception as e:
        return {'__error__': str(e)}


def _short(o):
    if o.kind == 'exc':
        return o.value.cls.name
    return type(o.value).__name__


def _drain(interp, g):
    """run a generator to exhaustion -> Outcome('ret', ('gen', [items])) or exception"""
    items = []
    try:
        for x in interp.iterate(g):
            items.append(x)
    except PyRaise as pr:
        return Outcome('exc', pr.exc)
    return Outcome('ret', ('gen', items))
