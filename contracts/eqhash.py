"""C13: equality and hashing."""
from pyvc.contract import contract, Shape, INLINE
from pyvc import sym, spec
from pyvc.sym import lor, lnot, land, ite
from pyvc.spec import bits, mk_bits, sub, cat
from pyvc.shapes import m_bits, r_bits
from pyvc.extern import BA, BBytes, view_eq, _sel2b
from pyvc import hashing
from .common import *
from .bits_seq import _self_shapes, _operand_shapes

NONPROMOTABLE = [('int',), ('float',), ('none',), ('object',)]


def _eq_shapes():
    out = list(_operand_shapes(SELF_STATES, OPERANDS))
    for cls, st in SELF_STATES_MEM:
        for k in NONPROMOTABLE:
            def build(S, interp, cls=cls, st=st, k=k):
                o = m_bits(S, interp, 'self', cls, st)
                v = {'int': lambda: S.int('x'), 'float': lambda: 1.5, 'none': lambda: None,
                     'object': lambda: interp.call(interp.builtins['object'].ns['__new__'], [interp.builtins['object']], {})}[k[0]]()
                return [o, v], {}

            def real(vals, cls=cls, st=st, k=k):
                o = r_bits(vals, 'self', cls, st)
                v = {'int': lambda: vals['x'], 'float': lambda: 1.5, 'none': lambda: None, 'object': lambda: object()}[k[0]]()
                return [o, v], {}
            out.append(Shape(f'{cls}/{st}/nonpromotable-{k[0]}', build, real))
    return out


def _is_promotable(x):
    from pyvc.interp import Obj
    from pyvc.extern import PStr, SymBytes
    return isinstance(x, (PStr, SymBytes, BA, str)) or (isinstance(x, Obj) and any(k.name == 'Bits' for k in x.cls.mro))


@contract('bits.Bits.__eq__', shapes=_eq_shapes(), props={'C13', 'C08'}, kind='public',
          note="a == b iff lengths and all bits agree (any class, any store state, any pos); False for non-promotable types")
def eq_spec(C, self, bs):
    if not _is_promotable(bs):
        return False
    return view_eq(bits(self), promote_bits(C, bs))


@contract('bits.Bits.__ne__', shapes=_eq_shapes(), props={'C13'}, kind='public', note="a != b is the negation of a == b")
def ne_spec(C, self, bs):
    if not _is_promotable(bs):
        return True
    return lnot(view_eq(bits(self), promote_bits(C, bs)))


def _bytes_of(V):
    a, n = V.bit, V.n
    return BBytes((n + 7) // 8, lambda i: _sel2b(i < n, a, i))


_HASHABLE = [s for s in SELF_STATES if s[0] in ('Bits', 'ConstBitStream')]


def _hash_shapes():
    out = []
    for cls, st in _HASHABLE:
        for case in ('short', 'long'):
            def build(S, interp, cls=cls, st=st, case=case):
                o = m_bits(S, interp, 'self', cls, st)
                n = bits(o).n
                S.assume(n <= 2000 if case == 'short' else n > 2000)
                return [o], {}

            def real(vals, cls=cls, st=st):
                return [r_bits(vals, 'self', cls, st)], {}
            def gen(rng, cls=cls, st=st, case=case):
                n = rng.choice([2001, 2002, 2007, 2600, 4000]) if case == 'long' else rng.choice([0, 1, 7, 8, 9, 1999, 2000])
                v = {}
                if st == 'buffer':
                    raw = 8 * ((n + 7) // 8 + rng.randint(0, 2))
                    v['self.raw'] = [rng.random() < 0.5 for _ in range(raw)]
                    v['self.ml'] = n
                else:
                    v['self'] = [rng.random() < 0.5 for _ in range(n)]
                if cls == 'ConstBitStream':
                    v['self.pos'] = rng.randint(0, n)
                return v
            out.append(Shape(f'{cls}/{st}/{case}', build, real, gen=gen))
    return out


@contract('bits.Bits.__hash__', shapes=_hash_shapes(), props={'C13', 'C08'}, kind='public',
          note="hash(s) is a function of the bits only: H(bytes_of(V), len) for len <= 2000, else "
               "H(bytes_of(V[:800] + V[-800:]), len) -- hence equal bitstrings (any class, store state, pos) hash equal")
def hash_spec(C, self):
    V = bits(self)
    if sym.truth(V.n <= 2000):
        return hashing.py_hash(C.interp, (_bytes_of(V), V.n))
    W = cat(sub(V, 0, 800), sub(V, V.n - 800, V.n))
    return hashing.py_hash(C.interp, (_bytes_of(W), V.n))


def _cmp_spec(C, self, other):
    return NotImplemented


for _n in ('__lt__', '__gt__', '__le__', '__ge__'):
    contract(f'bits.Bits.{_n}', shapes=_operand_shapes(SELF_STATES_MEM, [('obj', 'Bits', 'immutable')]), props={'C13'},
             kind='public', note="bitstrings are unordered: NotImplemented")(_cmp_spec)
