"""Concrete-mode helpers: run snippets through the interpreter and canonicalise results so
that they can be compared with CPython running the real library (engine conformance)."""
import ast
from .interp import Interp, Frame, Obj, PyRaise, ClassVal, GenObj, OpaqueStr
from .extern import BA, BBytes
from . import sym

BITS_CLASSES = ('Bits', 'BitArray', 'ConstBitStream', 'BitStream')


def run_snippet(interp, src, env=None):
    """exec statements then return value of final expression (if last stmt is an Expr)"""
    m = interp.get_module('bitstring')
    ns = dict(m.ns)
    ns['bitstring'] = m
    if env:
        ns.update(env)
    modv = type(m)('<snippet>', ns)
    frame = Frame(ns, modv)
    tree = ast.parse(src)
    body = tree.body
    last = None
    if body and isinstance(body[-1], ast.Expr):
        last = body[-1].value
        body = body[:-1]
    interp.run_block(body, frame)
    if last is not None:
        return interp.eval(last, frame), ns
    return None, ns


def canon_model(interp, v, depth=0):
    """model value -> plain python structure"""
    if isinstance(v, Obj):
        n = v.cls.name
        if any(c.name == 'Bits' for c in v.cls.mro):
            bs = v.attrs.get('_bitstore')
            if bs is None:
                return (n, None)
            ba = bs.attrs['_bitarray']
            ml = bs.attrs.get('modified_length')
            k = ba.n if ml is None else ml
            s = ''.join('1' if ba.bit(i) else '0' for i in range(k))
            if '_pos' in v.attrs:
                return (n, s, v.attrs['_pos'])
            return (n, s)
        if n == 'BitStore':
            ba = v.attrs['_bitarray']
            ml = v.attrs.get('modified_length')
            k = ba.n if ml is None else ml
            return ('BitStore', ''.join('1' if ba.bit(i) else '0' for i in range(k)))
        if any(c.name == 'BaseException' for c in v.cls.mro):
            return ('exc', exc_name(v))
        if n == 'Dtype':
            return ('Dtype', v.attrs.get('_name'), v.attrs.get('_length'), v.attrs.get('_scale'))
        if n == 'Array':
            return ('Array', canon_model(interp, v.attrs.get('_dtype')), canon_model(interp, v.attrs.get('data')))
        return ('obj', n)
    if isinstance(v, BA):
        return ('bitarray', ''.join('1' if v.bit(i) else '0' for i in range(v.n)))
    if isinstance(v, BBytes):
        return v.to_host()
    from .extern import PStr, SymBytes
    from . import files as _files
    if isinstance(v, _files.BytesIOModel):
        return ('BytesIO', BBytes(v.nbytes, v.bit).to_host())
    if isinstance(v, PStr):
        b = [v.view.bit(i) for i in range(v.view.n)]
        return ('0b' + ''.join('1' if x else '0' for x in b)) if b else ''
    if isinstance(v, SymBytes):
        return v.as_bbytes().to_host()
    if isinstance(v, GenObj):
        return ('gen', [canon_model(interp, x) for x in interp.iterate(v)])
    from .interp import SeqVal, SRange
    if isinstance(v, (SRange, range)):
        return ('range', v.start, v.stop, v.step)
    if isinstance(v, SeqVal):
        return [canon_model(interp, v.item(j)) for j in range(int(v.n))]
    if isinstance(v, (list, tuple)):
        out = []
        for x in v:
            if isinstance(x, SeqVal):
                out.extend(canon_model(interp, x))      # a uniform run of items inside a yielded sequence
            else:
                out.append(canon_model(interp, x))
        return type(v)(out)
    if isinstance(v, dict):
        return {k: canon_model(interp, x) for k, x in v.items()}
    if isinstance(v, OpaqueStr):
        return '<opaque>'
    if isinstance(v, float) and v != v:
        return 'nan'
    if isinstance(v, ClassVal):
        return ('class', v.name)
    if hasattr(v, '__next__'):
        return ('gen', [canon_model(interp, x) for x in v])
    return v


def exc_name(e):
    """name of the most specific builtin-or-repo class, with the repo's aliases resolved"""
    return e.cls.name


def _store_bin(store):
    """the logical content of a real BitStore read through bitarray only (no method of the code under test): the first
    modified_length bits of the raw buffer, or all of it"""
    raw = store._bitarray
    ml = store.modified_length
    return (raw[:ml] if ml is not None else raw).to01()


def canon_real(v):
    import bitstring
    import bitarray
    import types
    import io
    if isinstance(v, io.BytesIO):
        return ('BytesIO', v.getvalue())
    if isinstance(v, range):
        return ('range', v.start, v.stop, v.step)
    if isinstance(v, bitstring.Bits):
        n = type(v).__name__
        if not hasattr(v, '_bitstore'):
            return (n, None)             # an object under construction whose initialiser raised (as in canon_model)
        s = _store_bin(v._bitstore)
        if hasattr(v, '_pos'):
            return (n, s, v._pos)
        return (n, s)
    if isinstance(v, bitstring.bitstore.BitStore):
        return ('BitStore', _store_bin(v))
    if isinstance(v, BaseException):
        return ('exc', type(v).__name__)
    if isinstance(v, bitstring.Dtype):
        return ('Dtype', v._name, v._length, v._scale)
    if isinstance(v, bitstring.Array):
        return ('Array', canon_real(v._dtype), canon_real(v.data))
    if isinstance(v, bitarray.bitarray):
        return ('bitarray', v.to01())
    if isinstance(v, types.GeneratorType):
        return ('gen', [canon_real(x) for x in v])
    if isinstance(v, (list, tuple)):
        return type(v)(canon_real(x) for x in v)
    if isinstance(v, dict):
        return {k: canon_real(x) for k, x in v.items()}
    if isinstance(v, float) and v != v:
        return 'nan'
    if isinstance(v, type):
        return ('class', v.__name__)
    if hasattr(v, '__next__'):
        return ('gen', [canon_real(x) for x in v])
    if type(v) is object:
        return ('obj', 'object')

    return v


def run_real(src, env=None):
    import bitstring
    ns = {k: getattr(bitstring, k) for k in bitstring.__all__ if hasattr(bitstring, k)}
    ns['bitstring'] = bitstring
    if env:
        ns.update(env)
    tree = ast.parse(src)
    body = tree.body
    last = None
    if body and isinstance(body[-1], ast.Expr):
        last = ast.Expression(body[-1].value)
        body = body[:-1]
    exec(compile(ast.Module(body, []), '<snippet>', 'exec'), ns)
    if last is not None:
        return eval(compile(last, '<snippet>', 'eval'), ns), ns
    return None, ns


def both(interp, src):
    """-> (model outcome, real outcome), each ('ok', canon) or ('exc', name)"""
    try:
        v, _ = run_snippet(interp, src)
        m = ('ok', canon_model(interp, v))
    except PyRaise as pr:
        m = ('exc', exc_name(pr.exc))
    try:
        v, _ = run_real(src)
        r = ('ok', canon_real(v))
    except Exception as ex:
        r = ('exc', type(ex).__name__)
    return m, r
