"""C04: the ownership clause is part of *every* contract; the C04 check therefore also re-runs the public contracts of the
operations through which one bitstring is derived from another (operators, slicing, concatenation, mutators taking a
bitstring operand), not only the constructors and copies tagged C04."""
META = {'explanation': 'ghost-heap ownership clause evaluated on every path of the derivation contracts (constructors, copies, raw-buffer '
                       'hand-offs) and of the public operators / slicing / mutators.'}
EXTRA_TASKS = []
ALSO_PROPS = ['C01', 'C16', 'C03', 'C05', 'C10']
EXTRA_TASKS = ['dtype_routes_isolation']


def _sample_values(defn, rng):
    """(value, length-or-None) pairs for one registered dtype, including the saturating / boundary values of the float formats"""
    rt = defn.return_type
    name = defn.name
    lens = list(defn.allowed_lengths.values) if defn.allowed_lengths else []
    if lens and lens[-1] is Ellipsis:
        step = lens[1] - lens[0]
        lens = [lens[0] + step * k for k in (0, 1, 2, 4)] if lens[0] else [step * k for k in (1, 2, 4)]
    out = []
    if defn.variable_length:
        return [(v, None) for v in (0, 1, 2, 5, 6, 7, 8, 100, 12345)] + ([(v, None) for v in (-1, -2, -7, -100)] if defn.is_signed else [])
    if rt is bool:
        return [(True, None), (False, None)]
    if rt is float:
        vals = [0.0, -0.0, 1.0, -1.0, 0.5, 1.984375, 1.99, 2.0, -2.0, 2.5, -2.5, 3.0, 100.0, -100.0, 448.0, 449.0, 1e6, -1e6, 57344.0, 65504.0,
                6.0, 7.0, 1e30, -1e30, 1e39, float('inf'), float('-inf'), 2.0 ** -140, 2.0 ** 127, 2.0 ** -127, 1e-50]
        for L in (lens or [8]):
            for v in vals:
                out.append((v, L if len(lens) != 1 else None))
        return out
    if rt is int:
        for L in (lens or [1, 7, 8, 12, 64]):
            for v in (0, 1, -1, (1 << (L - 1)) - 1, -(1 << (L - 1))):
                out.append((v, L))
        return out
    if rt is str:
        digit = {'hex': 'a', 'oct': '5', 'bin': '1'}.get(name, '1')
        return [(digit * k, None) for k in (1, 2, 5)]
    if rt is bytes:
        return [(b'\x01', None), (b'abc', None)]
    return [('0b101', None), ('0xfe', None)]


def _assign(x, n, v):
    setattr(x, n, v)
    return x


def dtype_routes_isolation(tier='quick', seed=0, only=None):
    """bounded, native: for every dtype in the real register and each creation route into a *mutable* bitstring (keyword, property
    assignment, pack, format string), an in-place change of the created object must not show in an independently created twin, in a
    later creation with the same value (by any route), or in an immutable Bits made afterwards"""
    import random
    import bitstring
    from bitstring import Bits, BitArray, BitStream, pack
    from bitstring.dtypes import dtype_register
    rng = random.Random(seed)
    fails = []
    evals = 0

    def mutate(x):
        if len(x):
            x.invert()
        x.append('0b1')

    for name, defn in sorted(dtype_register.names.items()):
        if name == 'pad' or defn.set_fn is None or (only is not None and name not in only):
            continue
        for value, L in _sample_values(defn, rng):
            kw = {name: value}
            if L is not None:
                kw['length'] = L
            # each route is an expression over CLS, so that the replay text is exactly what was run
            routes = [('keyword', f'bitstring.CLS(**{kw!r})')]
            if L is not None:
                routes.append(('property', f'_assign(bitstring.CLS(length={L * (defn.multiplier or 1)}), {name!r}, {value!r})'))
            else:
                routes.append(('property', f'_assign(bitstring.CLS(), {name!r}, {value!r})'))
            one_len = bool(defn.allowed_lengths) and defn.allowed_lengths.only_one_value()
            tok = name if (L is None or one_len) else f'{name}{L}'
            if not isinstance(value, (bytes, Bits)):
                routes.append(('format string', f'bitstring.CLS({tok + "=" + str(value)!r})'))
            routes.append(('pack', f'bitstring.pack({tok!r}, {value!r})'))
            env = {'bitstring': bitstring, '_assign': _assign, 'inf': float('inf')}
            for rname, expr in routes:
                for cls in ('BitArray', 'BitStream'):
                    if rname == 'pack' and cls == 'BitArray':
                        continue
                    e1 = expr.replace('CLS', cls)
                    try:
                        a = eval(e1, env)
                    except Exception:
                        continue           # this value is not accepted by this route: nothing is created
                    evals += 1
                    want = a.bin
                    b = eval(e1, env)
                    mutate(a)
                    bad = []
                    for r2, expr2 in routes + [('Bits keyword', f'bitstring.Bits(**{kw!r})')]:
                        e2 = expr2.replace('CLS', 'BitArray')
                        try:
                            got = eval(e2, env).bin
                        except Exception:
                            continue
                        if got != want:
                            bad.append((r2, e2))
                    if b.bin != want:
                        bad.append(('an independently created twin', 'b'))
                    if bad:
                        fails.append({'call': f'{e1}, then invert()/append in place', 'observed': f'changed: {[r for r, _ in bad][:3]}',
                                      'python': 'import bitstring\ninf = float("inf")\n'
                                                'def _assign(x, n, v):\n    setattr(x, n, v)\n    return x\n'
                                                f'a = {e1}; want = a.bin; b = {e1}\n'
                                                'if len(a): a.invert()\na.append("0b1")\n'
                                                f'FAILS = b.bin != want or ({bad[0][1]}).bin != want\n'})
    bounded = [{'id': 'C04/dtypes.dtype_register/creation-routes-into-mutable-objects-are-isolated', 'qualname': 'dtypes.Register', 'shape': 'every registered dtype',
                'function': 'every set_fn in the dtype register x keyword / property / format-string / pack routes',
                'bound': 'boundary and saturating sample values per dtype and allowed length', 'evaluations': evals, 'failures': fails[:3]}]
    return {'id': 'C04.routes', 'obligations': [], 'bounded': bounded, 'evaluations': evals, 'functions': ['dtypes.Register'],
            'summary': f'{evals} creations, {len(fails)} failures'}
