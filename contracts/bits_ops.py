"""C16: bit-wise operators and shifts (bits.py, bitarray_.py, bitstream.py)."""
from pyvc.contract import contract, Shape, INLINE
from pyvc import sym, spec
from pyvc.sym import lor, lnot, land, ite
from pyvc.spec import bits, mk_bits, pointwise, inv, zeros, cat, sub
from pyvc.shapes import m_bits, r_bits
from pyvc.extern import BA, _sel2b
from .common import *
from .bits_seq import _self_shapes, _operand_shapes

_BITS = [s for s in SELF_STATES if s[0] in ('Bits', 'BitArray')]
_STREAMS = [s for s in SELF_STATES if s[0] in ('ConstBitStream', 'BitStream')]


def _binop_spec(op):
    def f(C, self, bs):
        if C.callsite and is_stream(self.cls) and C.qualname.startswith('bits.Bits.'):
            return INLINE      # Bits.__and__(stream, ...) builds a partially initialised object: callers run the body
        V, W = bits(self), promote_bits(C, bs)
        if sym.truth(lnot(sym.eq(V.n, W.n))):
            C.throw('ValueError')
        return mk_bits(C, self.cls, pointwise(op, V, W), pos=0)
    return f


for _op in ('and', 'or', 'xor'):
    contract(f'bits.Bits.__{_op}__', shapes=_operand_shapes(_BITS, OPERANDS), props={'C16', 'C08'}, kind='public',
             note=f"s {_op} t: per-bit {_op} for equal lengths with the class of s, ValueError otherwise; operands "
                  "(content and pos) unchanged, also when both are the same object")(_binop_spec(_op))
    contract(f'bitstream.ConstBitStream.__{_op}__', shapes=_operand_shapes(_STREAMS, OPERANDS), props={'C16', 'C08', 'C06'},
             kind='public', note="as Bits; result pos 0; operands' pos untouched")(_binop_spec(_op))
    contract(f'bits.Bits.__r{_op}__', shapes=_operand_shapes(SELF_STATES, [('str',), ('bytes',)]), props={'C16'}, kind='public',
             note="reflected form: same result as the direct form")(_binop_spec(_op))


@contract('bits.Bits.__invert__', shapes=_self_shapes(), props={'C16', 'C08'}, kind='public',
          note="~s: every bit flipped, same class and length; bitstring.Error for the empty bitstring; s unchanged")
def invert_spec(C, self):
    V = bits(self)
    if sym.truth(sym.eq(V.n, 0)):
        C.throw('Error')
    return mk_bits(C, self.cls, inv(V), pos=0)


def _shift_view(V, n, left):
    a, L = V.bit, V.n
    if left:
        return BA(L, lambda i: _sel2b(i + n < L, a, i + n))
    return BA(L, lambda i: _sel2b(i >= n, a, i - n))


def _shift_spec(left):
    def f(C, self, n):
        V = bits(self)
        if sym.truth(n < 0):
            C.throw('ValueError')
        if sym.truth(sym.eq(V.n, 0)):
            C.throw('ValueError')
        return mk_bits(C, self.cls, _shift_view(V, n, left), pos=0)
    return f


_n_arg = (lambda S, interp, d, self_: [S.int('n')], lambda v, d, self_: [v['n']])
contract('bits.Bits.__lshift__', shapes=_self_shapes(*_n_arg), props={'C16', 'C08'}, kind='public',
         note="s << n: same length, bit i is old bit i+n or 0; ValueError for n < 0 or empty s; s unchanged")(_shift_spec(True))
contract('bits.Bits.__rshift__', shapes=_self_shapes(*_n_arg), props={'C16', 'C08'}, kind='public',
         note="s >> n: same length, bit i is old bit i-n or 0; ValueError for n < 0 or empty s; s unchanged")(_shift_spec(False))


# ---- in-place forms (BitArray / BitStream) ------------------------------------------------
def _set_bits(C, self, V):
    """spec-side: self now holds view V (in place)"""
    st = self.attrs['_bitstore']
    st.attrs['_bitarray'] = BA(V.n, V.bit)
    st.attrs['modified_length'] = None


def _ishift_spec(left):
    def f(C, self, n):
        V = bits(self)
        if sym.truth(n < 0):
            C.throw('ValueError')
        if sym.truth(sym.eq(V.n, 0)):
            C.throw('ValueError')
        _set_bits(C, self, _shift_view(V, n, left))
        return self
    return f


contract('bitarray_.BitArray.__ilshift__', shapes=_self_shapes(*_n_arg, states=MUT_STATES), props={'C16', 'C03'}, kind='public',
         note="s <<= n in place; returns s; on ValueError s is unchanged; a stream's pos is not moved")(_ishift_spec(True))
contract('bitarray_.BitArray.__irshift__', shapes=_self_shapes(*_n_arg, states=MUT_STATES), props={'C16', 'C03'}, kind='public',
         note="s >>= n in place; returns s")(_ishift_spec(False))


def _ibinop_spec(op):
    def f(C, self, bs):
        V, W = bits(self), promote_bits(C, bs)
        if sym.truth(lnot(sym.eq(V.n, W.n))):
            C.throw('ValueError')
        _set_bits(C, self, pointwise(op, V, W))
        return self
    return f


for _op in ('and', 'or', 'xor'):
    contract(f'bitarray_.BitArray.__i{_op}__', shapes=_operand_shapes(MUT_STATES, OPERANDS), props={'C16', 'C03'}, kind='public',
             note=f"s {_op}= t in place (also for t is s); ValueError and s unchanged for unequal lengths")(_ibinop_spec(_op))
