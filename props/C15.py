"""C15 extras: a rejected value must leave the object as it was -- for Arrays this includes in-place operators of which only some
items overflow (shared with C14)."""
META = {'explanation': 'range/length rejection proved on the setters, helpers and routes; Array in-place operators: bounded list-model differential with rollback.'}
EXTRA_TASKS = ['array_inplace_rollback', 'creation_routes_isolation', 'array_item_width_mismatch', 'struct_code_ranges']


def array_inplace_rollback(tier='quick', seed=0):
    from props import C14
    r = C14.inplace_ops(tier, seed)
    for b in r.get('bounded', []):
        b['id'] = b['id'].replace('C14/', 'C15/')
    r['id'] = 'C15.inplace'
    return r


def creation_routes_isolation(tier='quick', seed=0):
    """(shared with C04) an in-range (value, length) keeps being accepted, with the same bits, after an object created from the same (value, length) has been changed in place"""
    from props import C04
    r = C04.dtype_routes_isolation(tier, seed)
    for b in r.get('bounded', []):
        b['id'] = b['id'].replace('C04/', 'C15/')
    r['id'] = 'C15.isolation'
    return r


def array_item_width_mismatch(tier='quick', seed=0):
    """an Array is never filled from an Array whose items have another width: the bits would be re-cut into items of the wrong size
    (values silently truncated, merged or wrapped).  Array(fmt, other) and a.extend(other) must raise and leave `a` as it was; with the
    identical format they succeed and the items are appended.  Bounded, native."""
    import bitstring
    from bitstring import Array
    fmts = [('uint8', [1, 2]), ('uint16', [300, 7]), ('uint4', [9, 1]), ('int8', [-3, 4]), ('int4', [-8, 7]), ('int16', [-300, 5]), ('uintbe16', [5, 258]),
            ('uintbe24', [70000, 3]), ('uintle16', [258, 1]), ('uintle32', [70000, 2]), ('float16', [1.5, -2.0]), ('float32', [1.5, 3.25]),
            ('float64', [2.5, -1.0]), ('hex8', ['ab', '0f']), ('hex16', ['abcd', '0123']), ('bin3', ['101', '010']), ('bin6', ['101010', '000111']),
            ('bits5', ['0b10101', '0b00001']), ('bits10', ['0b1010101010', '0b0000011111']), ('bytes1', [b'a', b'b']), ('bytes2', [b'ab', b'cd'])]
    fails = []
    evals = 0
    for f1, v1 in fmts:
        for f2, v2 in fmts:
            d1, d2 = bitstring.Dtype(f1), bitstring.Dtype(f2)
            if f1 != f2 and (d1.name != d2.name or d1.bitlength == d2.bitlength):
                continue            # (another item kind of the same or another width: refused today, but which kinds may mix is not this property's business)
            for how in ('Array(f1, other)', 'a.extend(other)'):
                evals += 1
                other = Array(f2, v2)
                a = Array(f1, v1)
                before = (a.tolist(), a.data.bin)
                try:
                    if how == 'a.extend(other)':
                        a.extend(other)
                        got = a.data.bin
                        want = Array(f1, v1 + v2).data.bin
                    else:
                        got = Array(f1, other).data.bin
                        want = Array(f1, v2).data.bin
                    outcome = 'accepted'
                except (ValueError, TypeError):
                    outcome = 'rejected'
                same_fmt = f1 == f2
                if same_fmt:
                    ok = outcome == 'accepted' and got == want
                else:
                    ok = outcome == 'rejected' and (a.tolist(), a.data.bin) == before
                if not ok:
                    fails.append({'call': f'{how} with f1 = {f1!r} ({v1}), other = Array({f2!r}, {v2})', 'observed': f'{outcome}; a = {a.tolist()}',
                                  'expected': 'the items appended' if same_fmt else 'ValueError/TypeError and the target unchanged',
                                  'python': f"import bitstring\nother = bitstring.Array({f2!r}, {v2!r})\na = bitstring.Array({f1!r}, {v1!r})\nbefore = a.data.bin\n"
                                            f"try:\n    a.extend(other)\n    r1 = 'accepted'\nexcept (ValueError, TypeError):\n    r1 = 'rejected'\n"
                                            f"try:\n    bitstring.Array({f1!r}, other)\n    r2 = 'accepted'\nexcept (ValueError, TypeError):\n    r2 = 'rejected'\n"
                                            + ("FAILS = r1 != 'accepted' or r2 != 'accepted'\n" if same_fmt else "FAILS = r1 != 'rejected' or r2 != 'rejected' or a.data.bin != before\n")})
    return {'id': 'C15.array_widths', 'obligations': [], 'evaluations': evals,
            'bounded': [{'id': 'C15/array_.Array.extend/an-Array-of-another-item-width-is-refused', 'qualname': 'array_.Array.extend', 'shape': 'pairs of item formats of one kind',
                         'function': 'Array(fmt, Array) / Array.extend(Array)', 'bound': f'{evals} (format pair, route) points', 'evaluations': evals, 'failures': fails[:3]}],
            'summary': f'{evals} points, {len(fails)} failures'}


def struct_code_ranges(tier='quick', seed=0):
    """every struct-style integer code, under every endianness prefix, accepts exactly the range of its type: the two limits are
    encoded and read back, one beyond either limit is refused -- by pack and by Array creation and item assignment.  Bounded, native."""
    import struct
    from bitstring import pack, Array
    fails = []
    evals = 0
    for prefix in ('<', '>', '=', '@'):
        for code in 'bBhHlLiIqQ':
            n = 8 * struct.calcsize('=' + code)          # (the library uses the standard sizes for '@' as well: known finding KF3)
            lo, hi = (-(1 << (n - 1)), (1 << (n - 1)) - 1) if code.islower() else (0, (1 << n) - 1)
            fmt = prefix + code
            for v, inside in ((lo, True), (hi, True), (lo - 1, False), (hi + 1, False)):
                routes = {'pack': lambda: pack(fmt, v).unpack(fmt)[0], 'Array': lambda: Array(fmt, [v])[0],
                          'Array item': lambda: (lambda a: (a.__setitem__(0, v), a[0])[1])(Array(fmt, [0]))}
                for rn, f in routes.items():
                    evals += 1
                    try:
                        got = f()
                        ok = inside and got == v
                        obs = f'accepted, reads back {got}'
                    except ValueError:
                        ok = not inside
                        obs = 'refused'
                    except Exception as e:
                        ok = False
                        obs = type(e).__name__
                    if not ok and len(fails) < 8:
                        fails.append({'call': f'{rn} with {fmt!r} and the value {v}', 'observed': obs, 'expected': 'accepted and read back' if inside else 'CreationError',
                                      'python': f"import bitstring\ntry:\n    r = bitstring.pack({fmt!r}, {v}).unpack({fmt!r})[0]\n    a = bitstring.Array({fmt!r}, [{v}])[0]\n"
                                                f"    FAILS = {not inside} or r != {v} or a != {v}\nexcept ValueError:\n    FAILS = {inside}\n"})
    return {'id': 'C15.struct_ranges', 'obligations': [], 'evaluations': evals,
            'bounded': [{'id': 'C15/utils.REPLACEMENTS/struct-codes-accept-exactly-their-range', 'qualname': 'utils.parse_single_struct_token', 'shape': '4 prefixes x 10 integer codes',
                         'function': 'pack / Array / Array item assignment with struct-style codes', 'bound': '4 prefixes x 10 codes x 4 values x 3 routes', 'evaluations': evals, 'failures': fails[:3]}],
            'summary': f'{evals} points, {len(fails)} failures'}
