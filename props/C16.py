"""C16 extras: the bit-wise operators with operands the interpreter's model does not cover (little-endian bitarrays, frozenbitarrays
of both endiannesses, promoted on the fly), natively."""
META = {'explanation': 'every operator and in-place form proved per bit over the four classes, store states and modelled operand kinds; operand kinds '
                       'outside the model (bitarrays / frozenbitarrays of both bit-endiannesses) are a bounded native sweep.'}
EXTRA_TASKS = ['bitarray_operands']


def bitarray_operands(tier='quick', seed=0):
    """(shared with C08) x & o, x | o, x ^ o and the in-place forms, with o a bitarray or frozenbitarray of either bit-endianness, are the
    per-bit functions of the bits o denotes; equal lengths never raise"""
    from props import C08
    r = C08.bitarray_endianness(tier, seed + 16)
    for b in r.get('bounded', []):
        b['id'] = b['id'].replace('C08/', 'C16/')
    r['id'] = 'C16.operands'
    return r
