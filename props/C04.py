"""C04: the ownership clause is part of *every* contract; the C04 check therefore also re-runs the public contracts of the
operations through which one bitstring is derived from another (operators, slicing, concatenation, mutators taking a
bitstring operand), not only the constructors and copies tagged C04."""
META = {'explanation': 'ghost-heap ownership clause evaluated on every path of the derivation contracts (constructors, copies, raw-buffer '
                       'hand-offs) and of the public operators / slicing / mutators.'}
EXTRA_TASKS = []
ALSO_PROPS = ['C01', 'C16', 'C03', 'C05', 'C10']
EXTRA_TASKS = ['dtype_routes_isolation', 'sources_not_retained']


def _sample_values(defn, rng):
    """(value, length-or-None) pairs for one registered dtype, including the saturating / boundary values of the float formats"""
    rt = defn.return_type
    name = defn.name
    lens = list(defn.allowed_lengths.values) if defn.allowed_lengths else []
    if lens and lens[-1] is Ellipsis:
        step = lens[1] - lens[0]
        lens = [lens[0] + step * k for k in (0, 1, 2, 4)] if lens[0] else [step * k for k in (1, 2, 4)]
    out = []
    if defn.variable_length:
        return [(v, None) for v in (0, 1, 2, 5, 6, 7, 8, 100, 12345)] + ([(v, None) for v in (-1, -2, -7, -100)] if defn.is_signed else [])
    if rt is bool:
        return [(True, None), (False, None)]
    if rt is float:
        vals = [0.0, -0.0, 1.0, -1.0, 0.5, 1.984375, 1.99, 2.0, -2.0, 2.5, -2.5, 3.0, 100.0, -100.0, 448.0, 449.0, 1e6, -1e6, 57344.0, 65504.0,
                6.0, 7.0, 1e30, -1e30, 1e39, float('inf'), float('-inf'), 2.0 ** -140, 2.0 ** 127, 2.0 ** -127, 1e-50]
        for L in (lens or [8]):
            for v in vals:
                out.append((v, L if len(lens) != 1 else None))
        return out
    if rt is int:
        for L in (lens or [1, 7, 8, 12, 64]):
            for v in (0, 1, -1, (1 << (L - 1)) - 1, -(1 << (L - 1))):
                out.append((v, L))
        return out
    if rt is str:
        digit = {'hex': 'a', 'oct': '5', 'bin': '1'}.get(name, '1')
        return [(digit * k, None) for k in (1, 2, 5)]
    if rt is bytes:
        return [(b'\x01', None), (b'abc', None), (b'ab', 2), (b'\x00\xff\x10', 3)]
    return [('0b101', None), ('0xfe', None)]


def _assign(x, n, v):
    setattr(x, n, v)
    return x


def dtype_routes_isolation(tier='quick', seed=0, only=None):
    """bounded, native: for every dtype in the real register and each creation route into a *mutable* bitstring (keyword, property
    assignment, pack, format string), an in-place change of the created object must not show in an independently created twin, in a
    later creation with the same value (by any route), or in an immutable Bits made afterwards"""
    import random
    import bitstring
    from bitstring import Bits, BitArray, BitStream, pack
    from bitstring.dtypes import dtype_register
    rng = random.Random(seed)
    fails = []
    evals = 0

    def mutate(x):
        if len(x):
            x.invert()
        x.append('0b1')

    for name, defn in sorted(dtype_register.names.items()):
        if name == 'pad' or defn.set_fn is None or (only is not None and name not in only):
            continue
        for value, L in _sample_values(defn, rng):
            kw = {name: value}
            if L is not None and name != 'bytes':
                kw['length'] = L              # (for bytes=, length= is a window in bits, not the item count)
            # each route is an expression over CLS, so that the replay text is exactly what was run
            routes = [('keyword', f'bitstring.CLS(**{kw!r})')]
            if L is not None:
                routes.append(('property', f'_assign(bitstring.CLS(length={L * (defn.multiplier or 1)}), {name!r}, {value!r})'))
            else:
                routes.append(('property', f'_assign(bitstring.CLS(), {name!r}, {value!r})'))
            one_len = bool(defn.allowed_lengths) and defn.allowed_lengths.only_one_value()
            tok = name if (L is None or one_len) else f'{name}{L}'
            if not isinstance(value, (bytes, Bits)):
                routes.append(('format string', f'bitstring.CLS({tok + "=" + str(value)!r})'))
            routes.append(('pack', f'bitstring.pack({tok!r}, {value!r})'))
            env = {'bitstring': bitstring, '_assign': _assign, 'inf': float('inf')}
            for rname, expr in routes:
                for cls in ('BitArray', 'BitStream'):
                    if rname == 'pack' and cls == 'BitArray':
                        continue
                    e1 = expr.replace('CLS', cls)
                    try:
                        a = eval(e1, env)
                    except Exception:
                        continue           # this value is not accepted by this route: nothing is created
                    evals += 1
                    want = a.bin
                    b = eval(e1, env)
                    mutate(a)
                    bad = []
                    for r2, expr2 in routes + [('Bits keyword', f'bitstring.Bits(**{kw!r})')]:
                        e2 = expr2.replace('CLS', 'BitArray')
                        try:
                            got = eval(e2, env).bin
                        except Exception:
                            continue
                        if got != want:
                            bad.append((r2, e2))
                    if b.bin != want:
                        bad.append(('an independently created twin', 'b'))
                    if bad:
                        fails.append({'call': f'{e1}, then invert()/append in place', 'observed': f'changed: {[r for r, _ in bad][:3]}',
                                      'python': 'import bitstring\ninf = float("inf")\n'
                                                'def _assign(x, n, v):\n    setattr(x, n, v)\n    return x\n'
                                                f'a = {e1}; want = a.bin; b = {e1}\n'
                                                'if len(a): a.invert()\na.append("0b1")\n'
                                                f'FAILS = b.bin != want or ({bad[0][1]}).bin != want\n'})
    bounded = [{'id': 'C04/dtypes.dtype_register/creation-routes-into-mutable-objects-are-isolated', 'qualname': 'dtypes.Register', 'shape': 'every registered dtype',
                'function': 'every set_fn in the dtype register x keyword / property / format-string / pack routes',
                'bound': 'boundary and saturating sample values per dtype and allowed length', 'evaluations': evals, 'failures': fails[:3]}]
    return {'id': 'C04.routes', 'obligations': [], 'bounded': bounded, 'evaluations': evals, 'functions': ['dtypes.Register'],
            'summary': f'{evals} creations, {len(fails)} failures'}



def sources_not_retained(tier='quick', seed=0):
    """a bitstring built from a buffer-like source does not keep a window onto it: changing the source afterwards changes neither the
    (immutable or mutable) bitstring nor anything derived from it -- bytearray, writable and read-only memoryviews over mutable memory,
    array.array, bitarray, BytesIO, lists, other mutable bitstrings.  Bounded, native."""
    import array
    import io
    import random
    import bitarray
    import bitstring
    from bitstring import Bits, BitArray, ConstBitStream, BitStream, Array
    rng = random.Random(seed)
    fails = []
    evals = 0
    for _ in range(600 if tier == 'quick' else 10000):
        nb = rng.randint(1, 8)
        raw = bytearray(rng.randrange(256) for _ in range(nb))
        kinds = {
            'bytearray': (lambda: raw, lambda: raw.__setitem__(0, raw[0] ^ 0xff)),
            'memoryview': (lambda: memoryview(raw), lambda: raw.__setitem__(0, raw[0] ^ 0xff)),
            'read-only memoryview of a bytearray': (lambda: memoryview(raw).toreadonly(), lambda: raw.__setitem__(0, raw[0] ^ 0xff)),
            'slice of a read-only memoryview': (lambda: memoryview(raw).toreadonly()[0:nb], lambda: raw.__setitem__(0, raw[0] ^ 0xff)),
        }
        arr = array.array('B', raw)
        kinds['array.array'] = (lambda: arr, lambda: arr.__setitem__(0, arr[0] ^ 0xff))
        kinds['read-only memoryview of an array'] = (lambda: memoryview(arr).toreadonly(), lambda: arr.__setitem__(0, arr[0] ^ 0xff))
        ba = bitarray.bitarray(endian=rng.choice(['big', 'little']))
        ba.frombytes(bytes(raw))
        kinds['bitarray'] = (lambda: ba, lambda: ba.invert(0))
        lst = [bool(b & 1) for b in raw]
        kinds['list'] = (lambda: lst, lambda: lst.__setitem__(0, not lst[0]))
        src_bits = BitArray(bytes=bytes(raw))
        kinds['BitArray'] = (lambda: src_bits, lambda: src_bits.invert(0))
        bio = io.BytesIO(bytes(raw))
        kinds['BytesIO'] = (lambda: bio, lambda: (bio.seek(0), bio.write(bytes([raw[0] ^ 0xff]))))
        kind = rng.choice(sorted(kinds))
        mk, poke = kinds[kind]
        cls = rng.choice([Bits, ConstBitStream, BitArray, BitStream])
        route = rng.choice(['auto', 'auto', 'keyword', 'Array'])
        evals += 1
        try:
            if route == 'keyword' and kind in ('bytearray', 'memoryview', 'read-only memoryview of a bytearray'):
                obj = cls(bytes=mk())
            elif route == 'keyword' and kind == 'bitarray':
                obj = cls(bitarray=mk())
            elif route == 'Array' and kind not in ('list', 'bitarray', 'array.array', 'read-only memoryview of an array', 'BytesIO'):
                obj = Array('uint8', mk()).data
            else:
                obj = cls(mk())
            before = obj.bin
            h = hash(obj) if isinstance(obj, Bits) and not isinstance(obj, BitArray) else None
            derived = Bits(obj)
            poke()
            ok = obj.bin == before and derived.bin == before and (h is None or hash(obj) == h)
        except (TypeError, ValueError):
            continue
        if not ok:
            fails.append({'call': f'{cls.__name__} built via {route} from a {kind} of {bytes(raw).hex()}, then the source is changed', 'observed': 'the bitstring changed',
                          'python': 'import bitstring\nraw = bytearray(b"\\x0f\\xf0")\nx = bitstring.Bits(memoryview(raw).toreadonly()); before = x.bin\nraw[0] ^= 0xff\nFAILS = x.bin != before\n'})
            if len(fails) > 4:
                break
    return {'id': 'C04.sources', 'obligations': [], 'evaluations': evals,
            'bounded': [{'id': 'C04/bits.Bits._setauto_no_length_or_offset/sources-are-not-retained', 'qualname': 'bits.Bits._setauto_no_length_or_offset', 'shape': 'source kinds x classes x routes',
                         'function': 'construction from buffer-like sources', 'bound': '600 random cases (10000 thorough)', 'evaluations': evals, 'failures': fails[:3]}],
            'summary': f'{evals} constructions, {len(fails)} failures'}
