"""Property assignment on a mutable bitstring, as client code writes it: a.bits = src, a.bool = True, a.bin = '0110' ...

The integer rows (a.uint = v, a.uint12 = v) have their own contract on BitArray.__setattr__ (contracts/routes.py).  Here the
other setters are reached the way a user reaches them; what is decided is the content the object ends up with and -- through the
ownership clause evaluated on every path -- that the object ends up owning its store: not the source's, not a cached or
module-level one, not one flagged immutable.  (A stream's position after such an assignment is known finding KF2 and is not
part of these contracts.)"""
from pyvc.contract import contract, Shape
from pyvc import sym
from pyvc.spec import bits
from pyvc.shapes import m_bits, r_bits
from pyvc.extern import BA
from pyvc.interp import Obj
from .common import *

_SRC = [('obj', 'Bits', 'immutable'), ('obj', 'Bits', 'buffer'), ('obj', 'ConstBitStream', 'immutable'), ('obj', 'BitArray', 'plain'), ('str',)]
# (attribute, value, the bits it denotes)
_CONST = [('bool', True, '1'), ('bool', False, '0'), ('bin', '0110', '0110'), ('hex', 'a5', '10100101'), ('oct', '17', '001111'),
          ('bytes', b'ab', '0110000101100010'), ('ue', 5, '00110'), ('se', -2, '00101'), ('bool1', True, '1'), ('bits3', '0b101', '101'),
          ('hex8', 'a5', '10100101'), ('bin4', '0110', '0110')]


def _assign_shapes():
    out = []
    for cls, st in MUT_STATES:
        for k in _SRC:
            def build(S, interp, cls=cls, st=st, k=k):
                o = m_bits(S, interp, 'self', cls, st)
                return [o, 'bits', m_operand(S, interp, 'v', k, o)], {}

            def real(vals, cls=cls, st=st, k=k):
                o = r_bits(vals, 'self', cls, st)
                return [o, 'bits', r_operand(vals, 'v', k, o)], {}
            out.append(Shape(f'{cls}/bits={opname(k)}', build, real))
        for nm, val, want in _CONST:
            def build(S, interp, cls=cls, st=st, nm=nm, val=val):
                return [m_bits(S, interp, 'self', cls, st), nm, val], {}

            def real(vals, cls=cls, st=st, nm=nm, val=val):
                return [r_bits(vals, 'self', cls, st), nm, val], {}
            out.append(Shape(f'{cls}/{nm}={val!r}', build, real))
    return out


@contract('client.assign_attr', shapes=_assign_shapes(), props={'C02', 'C04', 'C08', 'C09'}, kind='public', relational=True, observe_args=False,
          note="a.<name> = v on a BitArray/BitStream: a then holds exactly the bits v denotes, in a store of its own (the source, "
               "a literal's cached store and any module-level store are left alone and are not shared)")
def assign_post(C, args, kwargs, out):
    a, name, v = args
    if out.kind == 'exc':
        yield ('raises', False, out.value.cls.name)
        return
    yield ('returns-receiver', out.value is a)
    from pyvc.contract import Goals, same
    if name == 'bits':
        want = promote_bits(C, v)
    else:
        want = BA.concrete([ch == '1' for ch in next(w for nm, val, w in _CONST if nm == name and val == v and type(val) is type(v))])
    g = Goals()
    same(bits(a), want, 'content', g)
    for it in g.items:
        yield it
    if isinstance(v, Obj) and '_bitstore' in v.attrs and any(k.name == 'BitArray' for k in v.cls.mro):
        yield ('source-store-not-flagged', not v.attrs['_bitstore'].attrs.get('immutable'))
