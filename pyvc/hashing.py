"""hash() is assumed to be a function of its argument's value (uninterpreted)."""
import z3
from . import sym
from .sym import Unsupported, is_sym, SInt
from .extern import BA, BBytes
from .interp import Obj, BoundMethod, _MISSING

_A = z3.ArraySort(z3.IntSort(), z3.BoolSort())
_hash_bytes_len = z3.Function('hash_bytes_len', _A, z3.IntSort(), z3.IntSort(), z3.IntSort())


def py_hash(interp, x):
    if isinstance(x, Obj):
        f, _ = x.cls.lookup('__hash__')
        if f is None:
            interp.throw('TypeError', f"unhashable type: '{x.cls.name}'")
        if f is _MISSING:
            return id(x)
        return interp.call(BoundMethod(x, f), [], {})
    if isinstance(x, tuple) and len(x) == 2 and isinstance(x[0], BBytes):
        bb, n = x
        if not is_sym(bb.nbytes) and not is_sym(n):
            try:
                return hash((bb.to_host(), n))
            except sym.NeedConcrete:
                pass
        arr = BA(bb.nbytes * 8, bb.bit).as_array()
        return SInt(_hash_bytes_len(arr, sym._int_t(bb.nbytes), sym._int_t(n)))
    if is_sym(x):
        raise Unsupported("hash of symbolic value")
    try:
        return hash(x)
    except TypeError as ex:
        interp.host_exc(ex)
