"""C06: stream position -- reads consume exactly what they return, the position is always valid."""
from pyvc.contract import contract, Shape, INLINE
from pyvc import sym, spec, ints
from pyvc.sym import lor, lnot, land, ite
from pyvc.spec import bits, mk_bits, sub
from pyvc.shapes import m_bits, r_bits
from pyvc.extern import BA, BBytes, SStr, _sel2b
from pyvc.interp import Obj
from .common import *
from .bits_seq import _self_shapes

STREAM_STATES = [s for s in SELF_STATES if s[0] in ('ConstBitStream', 'BitStream')]


# ---------------------------------------------------------------------------------------------
# independent table of the fixed-length interpretations (written from the property statements
# of C02/C15, not from the repo's dtype table): name -> (unit bits, allowed total lengths, decoder)
# ---------------------------------------------------------------------------------------------
def _byterev(V):
    a, n = V.bit, V.n
    def b(i):
        q, r = sym.floordiv_mod(i, 8)
        return a(n - 8 - 8 * q + r)
    return BA(n, b)


def _dec_uint(C, V):
    if sym.truth(sym.eq(V.n, 0)):
        C.throw('ValueError')
    return ints.ba2int(C.interp, BA(V.n, V.bit), signed=False)


def _dec_int(C, V):
    if sym.truth(sym.eq(V.n, 0)):
        C.throw('ValueError')
    return ints.ba2int(C.interp, BA(V.n, V.bit), signed=True)


def _whole_bytes(C, V):
    if sym.truth(lnot(sym.eq(V.n % 8, 0))):
        C.throw('ValueError')


def _dec_uintle(C, V):
    _whole_bytes(C, V)
    return _dec_uint(C, _byterev(V))


def _dec_intle(C, V):
    _whole_bytes(C, V)
    return _dec_int(C, _byterev(V))


def _dec_uintbe(C, V):
    _whole_bytes(C, V)
    return _dec_uint(C, V)


def _dec_intbe(C, V):
    _whole_bytes(C, V)
    return _dec_int(C, V)


def _dec_digits(kind, per):
    def f(C, V):
        if sym.truth(lnot(sym.eq(V.n % per, 0))):
            C.throw('ValueError')
        if isinstance(V.n, int) and all(isinstance(V.bit(i), bool) for i in range(V.n)):
            return {'hex': ints.ba2hex, 'bin': lambda it, b: b.m_to01(it), 'oct': lambda it, b: ints.ba2base(it, 8, b)}[kind](C.interp, BA(V.n, V.bit))
        return SStr(kind, BA(V.n, V.bit))
    return f


def _dec_bytes(C, V):
    _whole_bytes(C, V)
    a, n = V.bit, V.n
    return BBytes(n // 8, lambda i: a(i))


def _dec_bool(C, V):
    if sym.truth(lnot(sym.eq(V.n, 1))):
        C.throw('ValueError')
    b = V.bit(0)
    return b


def _dec_pad(C, V):
    return None


# name -> (bits per unit of length, predicate on total bit length being allowed, decoder)
FIXED = {
    'uint': (1, lambda L: L >= 1, _dec_uint),
    'int': (1, lambda L: L >= 1, _dec_int),
    'uintbe': (1, lambda L: land(L >= 8, sym.eq(L % 8, 0)), _dec_uintbe),
    'intbe': (1, lambda L: land(L >= 8, sym.eq(L % 8, 0)), _dec_intbe),
    'uintle': (1, lambda L: land(L >= 8, sym.eq(L % 8, 0)), _dec_uintle),
    'intle': (1, lambda L: land(L >= 8, sym.eq(L % 8, 0)), _dec_intle),
    'hex': (1, lambda L: land(L >= 0, sym.eq(L % 4, 0)), _dec_digits('hex', 4)),
    'oct': (1, lambda L: land(L >= 0, sym.eq(L % 3, 0)), _dec_digits('oct', 3)),
    'bin': (1, lambda L: L >= 0, _dec_digits('bin', 1)),
    'bytes': (8, lambda L: L >= 0, _dec_bytes),
    'bool': (1, lambda L: sym.eq(L, 1), _dec_bool),
    'pad': (1, lambda L: L >= 0, _dec_pad),
}
import sys as _sys
NE = 'le' if _sys.byteorder == 'little' else 'be'
FIXED['uintne'] = FIXED['uint' + NE]
FIXED['intne'] = FIXED['int' + NE]


def decode(C, name, V, cls=None):
    if name == 'bits':
        return mk_bits(C, cls, V, pos=0)
    return FIXED[name][2](C, V)


# ---- position property and helpers ---------------------------------------------------------------
_p_arg = (lambda S, interp, d, self_: [S.int('p')], lambda v, d, self_: [v['p']])


@contract('bitstream.ConstBitStream._setbitpos', shapes=_self_shapes(*_p_arg, states=STREAM_STATES), props={'C06', 'C20'},
          kind='public', note="s.pos = p: ValueError unless 0 <= p <= len (pos unchanged then), else pos == p")
def setbitpos(C, self, pos):
    if sym.truth(lor(pos < 0, pos > bits(self).n)):
        C.throw('ValueError')
    self.attrs['_pos'] = pos
    return None


@contract('bitstream.ConstBitStream._setbytepos', shapes=_self_shapes(*_p_arg, states=STREAM_STATES), props={'C06'}, kind='public',
          note="s.bytepos = b: as s.pos = 8*b")
def setbytepos(C, self, bytepos):
    return setbitpos(C, self, bytepos * 8)


@contract('bitstream.ConstBitStream._getbytepos', shapes=_self_shapes(states=STREAM_STATES), props={'C06'}, kind='public',
          note="s.bytepos: pos // 8 when byte aligned, ByteAlignError otherwise")
def getbytepos(C, self):
    p = self.attrs['_pos']
    if sym.truth(lnot(sym.eq(p % 8, 0))):
        C.throw('ByteAlignError')
    return p // 8


@contract('bitstream.ConstBitStream.bytealign', shapes=_self_shapes(states=STREAM_STATES), props={'C06'}, kind='public',
          note="bytealign(): advance to the next multiple of 8 and return the number of skipped bits; ValueError (pos "
               "unchanged) when that is beyond the end")
def bytealign(C, self):
    p = self.attrs['_pos']
    skipped = (8 - (p % 8)) % 8
    if sym.truth(p + skipped > bits(self).n):
        C.throw('ValueError')
    self.attrs['_pos'] = p + skipped
    return skipped


# ---- read ------------------------------------------------------------------------------------------
def _mk_dtype(interp, name, length):
    D = interp.get_module('bitstring').ns['Dtype']
    return interp.call(D, [name] + ([length] if length is not None else []), {})


def _read_shapes(peek=False):
    out = []
    kinds = [('int',)] + [('dtype', n, 'len') for n in ('uint', 'int', 'uintbe', 'intbe', 'uintle', 'intle', 'hex', 'oct',
                                                       'bin', 'bits', 'bytes', 'pad')] \
        + [('dtype', n, 'neglen') for n in ('uint', 'int', 'bits', 'bin', 'pad', 'bytes')] + [('dtype', 'bool', None)] \
        + [('str', 'uint:12'), ('str', 'hex'), ('str', 'bin'), ('str', 'bytes'), ('str', 'bits'), ('str', 'oct'),
           ('str', 'ue'), ('str', 'se'), ('str', 'uie'), ('str', 'sie')]
    for cls, st in STREAM_STATES:
        for k in kinds:
            def build(S, interp, cls=cls, st=st, k=k):
                o = m_bits(S, interp, 'self', cls, st)
                if k[0] == 'int':
                    return [o, S.int('n')], {}
                if k[0] == 'str':
                    return [o, k[1]], {}
                if k[2] == 'neglen':
                    # a Dtype with a negative length, if one can be created at all
                    n = S.int('n')
                    S.assume(n < 0)
                    from pyvc.interp import PyRaise
                    try:
                        return [o, _mk_dtype(interp, k[1], n)], {}
                    except PyRaise:
                        raise sym.Infeasible()
                if k[2] == 'len':
                    n = S.int('n')
                    unit, ok, _ = FIXED.get(k[1], (1, lambda L: L >= 0, None))
                    # the Dtype must be constructible: its length is one the type allows
                    S.assume(ok(n * unit) if k[1] != 'bits' else (n >= 0))
                    return [o, _mk_dtype(interp, k[1], n)], {}
                return [o, _mk_dtype(interp, k[1], None)], {}

            def real(vals, cls=cls, st=st, k=k):
                import bitstring
                o = r_bits(vals, 'self', cls, st)
                if k[0] == 'int':
                    return [o, vals['n']], {}
                if k[0] == 'str':
                    return [o, k[1]], {}
                if k[2] in ('len', 'neglen'):
                    return [o, bitstring.Dtype(k[1], vals['n'])], {}
                return [o, bitstring.Dtype(k[1])], {}
            gen = None
            if k[0] == 'str' and k[1] in ('ue', 'se', 'uie', 'sie'):
                # the default generator's streams are a dozen bits long: codes of several hundred bits come from here
                from .golomb import long_code_gen
                gen = long_code_gen(cls, st, [k[1]])
            out.append(Shape(f'{cls}/{st}/' + '-'.join(str(x) for x in k), build, real, may_be_empty=(len(k) > 2 and k[2] == 'neglen'), gen=gen))
    return out


def _read_core(C, self, fmt, advance=True):
    V0 = bits(self)
    p = self.attrs['_pos']
    rem = V0.n - p
    N = V0.n
    # lsb0: positions count from the least significant end; the window [a, b) of the reversed data, reversed back, is the stored
    # bits [n - b, n - a) -- whole-value interpretations then read it in stored order (C12)
    win = (lambda a, b: sub(V0, N - b, N - a)) if C.lsb0 else (lambda a, b: sub(V0, a, b))
    V = V0
    if sym.is_intlike(fmt):
        if sym.truth(fmt < 0):
            C.throw('ValueError')
        if sym.truth(fmt > rem):
            C.throw('ReadError')
        r = mk_bits(C, self.cls, win(p, p + fmt), pos=0)
        if advance:
            self.attrs['_pos'] = p + fmt
        return r
    if isinstance(fmt, str):
        name, _, ln = fmt.partition(':')
        L = int(ln) if ln else None
    else:
        name, L = fmt.attrs['_name'], fmt.attrs['_length']
    if name in ('ue', 'se'):
        # self-delimiting codes: value and length come from the codeword at pos; a truncated codeword is a ReadError
        from .golomb import readue_core
        if C.lsb0:
            C.throw('ReadError')
        c, used = readue_core(C, win(p, V.n), 0)      # the codeword is read from the tail bits[pos:]
        newp = p + used
        if name == 'se':
            m = (c + 1) // 2
            c = m if sym.truth(sym.eq(c % 2, 1)) else -m
        if advance:
            self.attrs['_pos'] = newp
        return c
    if name in ('uie', 'sie'):
        from .golomb import readuie_core
        if C.lsb0:
            C.throw('ReadError')
        T = win(p, V.n)
        c, used = readuie_core(C, T, 0)
        if name == 'sie' and not sym.truth(sym.eq(c, 0)):
            if sym.truth(used >= T.n):
                C.throw('ReadError')
            c, used = (-c if sym.truth(T.bit(used)) else c), used + 1
        if advance:
            self.attrs['_pos'] = p + used
        return c
    unit = FIXED[name][0] if name in FIXED else 1
    if L is None:
        if name == 'bool':
            L = 1
        else:
            # length-less token: everything that is left, which must be a whole number of units
            if sym.truth(lnot(sym.eq(rem % unit, 0))):
                C.throw('ValueError')
            L = rem // unit
    Lb = L * unit
    if sym.truth(Lb < 0):
        C.throw('ValueError')          # a negative amount cannot be read (as for an integer argument)
    if sym.truth(Lb > rem):
        C.throw('ReadError')
    val = decode(C, name, win(p, p + Lb), self.cls)
    if advance:
        self.attrs['_pos'] = p + Lb
    return val


@contract('bitstream.ConstBitStream.read', shapes=_read_shapes(), props={'C06', 'C02'}, kind='public',
          note="read(fmt): the interpretation of bits[pos:pos+L] and pos += L; ReadError when fewer than L bits remain, "
               "ValueError for a negative count or an interpretation the bits do not admit -- pos unchanged on every error")
def read_spec(C, self, fmt):
    return _read_core(C, self, fmt, True)


@contract('bitstream.ConstBitStream.peek', shapes=_read_shapes(), props={'C06'}, kind='public',
          note="peek(fmt): the value read(fmt) would return, pos unchanged on every exit")
def peek_spec(C, self, fmt):
    return _read_core(C, self, fmt, False)
