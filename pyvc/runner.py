"""Per-property check driver: selects the obligations of a property, discharges them on a
process pool, replays counter-models on the real code, applies the verdict policy of
DESIGN.md section 4, writes evidence and replay files, and sets the exit code.

exit 0  held on everything explored (known findings are printed as KNOWN-FINDING lines)
exit 1  at least one `VIOLATION property=<id> replay=<path>` line
exit 3  checker error (conformance failure, engine crash, vacuous obligation, invalid evidence)
"""
from __future__ import annotations

import fnmatch
import re
import glob
import hashlib
import importlib
import json
import multiprocessing as mp
import os
import sys
import time
import traceback

ROOT = os.path.dirname(os.path.dirname(os.path.abspath(__file__)))
REPO = os.environ.get('PYVC_REPO', '/repo')

TRUSTED_BASE = [
    "CPython 3.12 semantics as encoded by pyvc/interp.py (ints mathematical; machine limits of the C layer not modelled)",
    "assumed contracts of bitarray 3.11 / struct / slice arithmetic / hash (pyvc/extern.py, ints.py, search.py, floats.py, files.py), conformance-tested against the installed libraries on an exhaustive small domain at every run, not proved",
    "z3 5.1.0 as the decision procedure; cvc5 1.0.3 for the goals z3 answers unknown on (only an unsat answer is used)",
    "the pyvc symbolic executor itself (guarded by the CPython cross-check of every proved shape and the concrete smoke test)",
    "termination is not verified",
]

_INTERP = None
_CONTRACTS_LOADED = False


def load_contracts():
    global _CONTRACTS_LOADED
    if _CONTRACTS_LOADED:
        return
    sys.path.insert(0, ROOT)
    for p in sorted(glob.glob(os.path.join(ROOT, 'contracts', '*.py'))):
        name = os.path.basename(p)[:-3]
        if name.startswith('_'):
            continue
        importlib.import_module('contracts.' + name)
    _CONTRACTS_LOADED = True


def get_interp():
    global _INTERP
    if _INTERP is None:
        from .interp import Interp
        _INTERP = Interp(REPO)
        _INTERP.get_module('bitstring')
        from . import loops
        loops.install(_INTERP)
    return _INTERP


def tree_hash():
    h = hashlib.sha256()
    for p in sorted(glob.glob(os.path.join(REPO, 'bitstring', '*.py'))):
        h.update(p.encode())
        h.update(open(p, 'rb').read())
    return h.hexdigest()[:16]


# --------------------------------------------------------------------------------------
# worker side
# --------------------------------------------------------------------------------------
def _worker_shape(args):
    qualname, shape_idx, tier, seed, budget = args
    t0 = time.time()
    try:
        load_contracts()
        from . import contract as C, replay, bounded
        interp = get_interp()
        c = C.REGISTRY[qualname]
        shape = c.shapes[shape_idx]
        last = c.target.split('.')[-1]
        if last.startswith('_') and not last.startswith('__'):
            # a contract on a *private* helper describes an implementation detail: when the helper has been renamed, inlined or
            # removed, the contract has no subject on this tree (the public contracts still decide the behaviour, running the
            # new body instead of this contract)
            try:
                interp.lookup_qualname(c.target)
            except KeyError:
                return {'kind': 'shape', 'qualname': qualname, 'shape': shape.name, 'shape_idx': shape_idx, 'absent': True, 'clauses': {},
                        'stats': dict(paths=0, infeasible=0, unsupported=[], bounded=0, solver_calls=0, cover=0, side_fail=[], unknown_feasibility=0, errors=[],
                                      used_contracts=[], wall_s=0), 'replays': [], 'cross': None, 'contract_kind': c.kind, 'stable': shape.stable, 'seconds': 0}
        tmo = budget['timeout_ms']
        if shape.bounded_only:
            clauses = {'bounded': C.ClauseResult()}
            clauses['bounded'].paths = 1
            clauses['bounded'].unknown = 1
            stats = dict(paths=0, infeasible=0, unsupported=['bounded-only shape: the body is outside the prover'], bounded=0, solver_calls=0,
                         cover=1, side_fail=[], unknown_feasibility=0, errors=[], used_contracts=[], wall_s=0)
        else:
            clauses, stats = C.check_shape(interp, c, shape, timeout_ms=tmo, wall_s=budget['wall_s'],
                                           loop_bound=budget.get('loop_bound'))
        res = {'kind': 'shape', 'qualname': qualname, 'shape': shape.name, 'shape_idx': shape_idx,
               'clauses': {}, 'stats': stats, 'replays': [], 'cross': None, 'contract_kind': c.kind, 'stable': shape.stable}
        undecided_shape = bool(stats['unsupported'] or stats['errors'] or stats['bounded'])
        any_refuted = False
        for name, cr in clauses.items():
            v = cr.verdict()
            if v == 'proved' and undecided_shape:
                v = 'undecided'       # some paths were not explored: the clause is not proved
            res['clauses'][name] = {'verdict': v, 'paths': cr.paths, 'unsat': cr.unsat, 'unknown': cr.unknown,
                                    'sat': len(cr.sat), 'cvc5': getattr(cr, 'cvc5', 0)}
            if cr.sat:
                any_refuted = True
                for (pi, vals, detail) in cr.sat[:2]:
                    info = replay.replay(interp, c, shape, vals)
                    info['clause'] = name
                    info['detail'] = detail
                    res['replays'].append(info)
        if stats['cover'] == 0 and not stats['unsupported'] and not stats['errors']:
            if getattr(shape, 'may_be_empty', False):
                # the shape asks for inputs the library may legitimately refuse to construct: nothing to prove, nothing counted
                res['clauses'] = {}
                res['empty_domain'] = True
            else:
                res['vacuous'] = True
        # native cross-check / bounded stand-in
        need_bounded = (not shape.stable) or undecided_shape or any(x['verdict'] == 'undecided' for x in res['clauses'].values()) \
            or (any_refuted and not any(r.get('reproduced') for r in res['replays']))
        n = budget['cross_samples_undecided'] if need_bounded else budget['cross_samples']
        if n > 0 and shape.real is not None:
            ev, fails, skipped = bounded.cross_check(interp, c, shape, seed, n_samples=n, max_len=budget['max_len'])
            res['cross'] = {'evaluations': ev, 'failures': fails[:2], 'skipped': skipped, 'bounded_standin': need_bounded,
                            'bound': f"{n} sampled inputs, lengths <= {budget['max_len']}, ints in [-14, 14]"}
        res['seconds'] = round(time.time() - t0, 3)
        return res
    except BaseException as e:
        return {'kind': 'shape', 'qualname': qualname, 'shape_idx': shape_idx, 'crash': traceback.format_exc(),
                'seconds': round(time.time() - t0, 3)}


def _worker_extra(args):
    modname, fname, tier, seed = args
    t0 = time.time()
    try:
        load_contracts()
        m = importlib.import_module(modname)
        r = getattr(m, fname)(tier=tier, seed=seed)
        r.setdefault('kind', 'extra')
        r['seconds'] = round(time.time() - t0, 3)
        return r
    except BaseException:
        return {'kind': 'extra', 'id': f'{modname}.{fname}', 'crash': traceback.format_exc(),
                'seconds': round(time.time() - t0, 3)}


def _worker_conformance(args):
    seed, quick = args[0], args[1]
    part, parts = (args[2], args[3]) if len(args) > 2 else (0, 1)
    t0 = time.time()
    try:
        from . import conformance
        cases, fails = conformance.run(get_interp(), seed, quick=quick, part=part, parts=parts)
        return {'kind': 'conformance', 'cases': cases, 'failures': fails[:20], 'seconds': round(time.time() - t0, 3)}
    except BaseException:
        return {'kind': 'conformance', 'crash': traceback.format_exc(), 'seconds': round(time.time() - t0, 3)}


def _worker_canary(args):
    """vacuity guard: a deliberately false obligation on a reachable path must be refuted"""
    qualname, shape_idx = args
    try:
        load_contracts()
        from . import contract as C
        interp = get_interp()
        c = C.REGISTRY[qualname]
        fake = C.Contract.__new__(C.Contract)
        fake.__dict__.update(c.__dict__)
        fake.spec = None
        fake.post = lambda CC, a, k, out: iter([('canary', False)])
        clauses, stats = C.check_shape(interp, fake, c.shapes[shape_idx], timeout_ms=5000, wall_s=30)
        ok = 'canary' in clauses and clauses['canary'].verdict() == 'refuted'
        return {'kind': 'canary', 'ok': ok, 'on': f'{qualname}[{c.shapes[shape_idx].name}]'}
    except BaseException:
        return {'kind': 'canary', 'ok': False, 'crash': traceback.format_exc()}


def _dispatch(task):
    kind, args = task
    return {'shape': _worker_shape, 'extra': _worker_extra, 'conformance': _worker_conformance,
            'canary': _worker_canary}[kind](args)


# --------------------------------------------------------------------------------------
# driver side
# --------------------------------------------------------------------------------------
BUDGETS = {
    'quick': dict(timeout_ms=15000, wall_s=90.0, cross_samples=12, cross_samples_undecided=150, max_len=10),
    'thorough': dict(timeout_ms=90000, wall_s=600.0, cross_samples=120, cross_samples_undecided=1500, max_len=18),
}


def load_known_findings():
    p = os.path.join(ROOT, 'known_findings.json')
    if not os.path.exists(p):
        return {'findings': [], 'fixed': []}
    return json.load(open(p))


def load_baseline():
    p = os.path.join(ROOT, 'baseline_obligations.json')
    if not os.path.exists(p):
        return {}
    return json.load(open(p))


def obligation_id(prop, qualname, shape, clause):
    return f'{prop}/{qualname}/{clause}[{shape}]'


def match_finding(findings, prop, qualname, shape, clause):
    for f in findings:
        props = f['property'] if isinstance(f['property'], list) else [f['property']]
        if prop not in props and '*' not in props:
            continue
        for pat in f['obligations']:
            rx = re.compile('^' + '.*'.join(re.escape(x) for x in pat.split('*')) + '$')
            if rx.match(f'{qualname}/{clause}[{shape}]') or rx.match(f'{qualname}[{shape}]'):
                return f
    return None


def replay_canonical(finding):
    """re-run the canonical failing call of a known finding on the real code -> still failing?"""
    from . import contract as C, replay
    can = finding.get('canonical')
    if not can:
        return None
    if 'python' in can:
        # a self-contained native demonstration: must end by setting FAILS = True/False
        ns = {}
        try:
            exec(can['python'], ns)
            return bool(ns.get('FAILS'))
        except Exception:
            return None
    interp = get_interp()
    c = C.REGISTRY.get(can['qualname'])
    if c is None:
        return None
    shape = next((s for s in c.shapes if s.name == can['shape']), None)
    if shape is None:
        return None
    info = replay.replay(interp, c, shape, replay.unjson_inputs(can['inputs']))
    return info.get('reproduced')


def run_check(prop, tier='quick', seed=0, jobs=None, only=None, write_baseline=False, quiet=False):
    t_start = time.time()
    load_contracts()
    from . import contract as C
    budget = dict(BUDGETS[tier])
    tasks = []
    selected = []
    also = set()
    try:
        also = set(getattr(importlib.import_module(f'props.{prop}'), 'ALSO_PROPS', []))
    except ModuleNotFoundError:
        pass
    wanted = {prop} | also
    for q, c in C.REGISTRY.items():
        if not (wanted & c.props) and not any(sh.props and (wanted & sh.props) for sh in c.shapes):
            continue
        if only and only not in q:
            continue
        if also and prop not in c.props and c.kind != 'public':
            continue
        for i, sh in enumerate(c.shapes):
            if not (wanted & (sh.props if sh.props is not None else c.props)):
                continue
            tasks.append(('shape', (q, i, tier, seed, budget)))
            selected.append((q, i))
    extra_mod = None
    try:
        extra_mod = importlib.import_module(f'props.{prop}')
    except ModuleNotFoundError:
        pass
    extras = []
    if extra_mod is not None and not only:
        for fname in getattr(extra_mod, 'EXTRA_TASKS', []):
            tasks.append(('extra', (f'props.{prop}', fname, tier, seed)))
            extras.append(fname)
    if not only:
        if tier == 'quick':
            tasks.append(('conformance', (seed, True)))
        else:
            # the larger exhaustive domain of the thorough tier is split so that it does not dominate the wall time
            tasks[0:0] = [('conformance', (seed, False, k, 14)) for k in range(14)]
        for sel in selected[:1] + selected[len(selected) // 2:len(selected) // 2 + 1] + selected[-1:]:
            tasks.append(('canary', sel))
    if not tasks:
        print(f'CHECKER-ERROR property={prop}: no obligations selected')
        return 3
    jobs = jobs or min(16, os.cpu_count() or 4)
    from .hardpool import HardPool

    def on_timeout(task, lim):
        kind, args = task
        if kind == 'shape':
            q, i = args[0], args[1]
            sh = C.REGISTRY[q].shapes[i]
            return {'kind': 'shape', 'qualname': q, 'shape': sh.name, 'shape_idx': i, 'clauses': {'all': {'verdict': 'undecided', 'paths': 0, 'unsat': 0, 'unknown': 1, 'sat': 0}},
                    'stats': dict(paths=0, infeasible=0, unsupported=[f'hard wall limit of {lim:.0f}s exceeded (worker killed)'], bounded=0, solver_calls=0, cover=1,
                                  side_fail=[], unknown_feasibility=0, errors=[], used_contracts=[], wall_s=lim),
                    'replays': [], 'cross': None, 'contract_kind': C.REGISTRY[q].kind, 'stable': sh.stable, 'seconds': lim, 'hard_timeout': True}
        return {'kind': kind, 'crash': f'hard wall limit of {lim:.0f}s exceeded', 'id': str(args[:2])}
    hard = float(os.environ.get('PYVC_HARD_WALL', budget['wall_s'] * 2 + 60))
    pool = HardPool(_dispatch, jobs, hard, on_timeout)
    try:
        results = pool.map(tasks)
        # close the cone: contracts relied on modularly must be checked in the same run
        done = {q for q, _ in selected}
        for _round in range(6):
            used = set()
            for r in results:
                if r.get('kind') == 'shape' and 'stats' in r:
                    used.update(r['stats'].get('used_contracts', []))
            missing = [q for q in sorted(used - done) if q in C.REGISTRY and C.REGISTRY[q].shapes]
            if not missing or only:
                break
            more = []
            for q in missing:
                done.add(q)
                for i, sh in enumerate(C.REGISTRY[q].shapes):
                    more.append(('shape', (q, i, tier, seed, budget)))
            results.extend(pool.map(more))
        # retry pass: shapes whose only trouble was a solver 'unknown' get a larger budget on a quiet machine
        retry = []
        for i, r in enumerate(results):
            if r.get('kind') == 'shape' and 'stats' in r and r.get('stable', True) and not r['stats']['unsupported'] \
                    and not r['stats']['errors'] and not r['stats']['bounded'] \
                    and any(cv['verdict'] == 'undecided' for cv in r['clauses'].values()):
                b2 = dict(budget)
                b2['timeout_ms'] = budget['timeout_ms'] * (2 if tier == 'quick' else 4)
                b2['wall_s'] = budget['wall_s'] * (1 if tier == 'quick' else 3)
                retry.append((i, ('shape', (r['qualname'], r['shape_idx'], tier, seed, b2))))
        if tier == 'quick':
            retry = retry[:12]
        if retry:
            pool.close()
            pool = HardPool(_dispatch, min(6, jobs), hard * 1.5, on_timeout)
            again = pool.map([t for _, t in retry])
            for (i, _), r2 in zip(retry, again):
                if 'clauses' in r2 and not r2.get('hard_timeout') and sum(cv['verdict'] == 'undecided' for cv in r2['clauses'].values()) < \
                        sum(cv['verdict'] == 'undecided' for cv in results[i]['clauses'].values()):
                    r2['retried'] = True
                    results[i] = r2
    finally:
        pool.close()
    return aggregate(prop, tier, seed, results, t_start, write_baseline, extra_mod, quiet, partial=bool(only))


def aggregate(prop, tier, seed, results, t_start, write_baseline, extra_mod, quiet, partial=False):
    from . import contract as C
    kf = load_known_findings()
    baseline = load_baseline()
    checker_errors = []
    obligations = []          # dicts: id, verdict, backend, seconds, kind
    failures = []             # (oid, qualname, shape, clause, replay info)
    undecided = []
    bounded_list = []
    functions = set()
    solver_calls = 0
    solver_seconds = 0.0
    conformance_cases = 0
    cross_evals = 0
    canary_ok = None
    extra_reports = []
    pending_native = []
    absent_contracts = set()
    uses = {}
    canary_seen = []
    for r in results:
        if 'crash' in r:
            checker_errors.append(f"{r.get('kind')} {r.get('qualname', r.get('id', ''))}: {r['crash'].splitlines()[-1]}")
            continue
        if r['kind'] == 'conformance':
            conformance_cases += r['cases']
            if r['failures']:
                checker_errors.append('external-model conformance failed: ' + '; '.join(r['failures'][:3]))
            continue
        if r['kind'] == 'canary':
            canary_ok = bool(canary_ok) or r['ok']
            canary_seen.append(r.get('on', '?'))
            continue
        if r['kind'] == 'extra':
            extra_reports.append(r)
            for ob in r.get('obligations', []):
                obligations.append(ob)
                if ob['verdict'] not in ('proved',):
                    w = ob.get('witness', {})
                    if ob['verdict'] == 'refuted' and w.get('reproduced'):
                        failures.append((ob['id'], ob.get('qualname', ''), ob.get('shape', ''), ob.get('clause', ''), w))
                    elif ob['verdict'] == 'refuted' and baseline.get(ob['id']) == 'proved' and ob.get('kind') == 'public':
                        failures.append((ob['id'], ob.get('qualname', ''), ob.get('shape', ''), ob.get('clause', ''),
                                         dict(w, no_failing_input=True)))
                    else:
                        if ob['verdict'] == 'refuted':
                            ob['verdict'] = 'undecided'
                            ob['reason'] = 'static counterexample did not replay natively'
                        undecided.append(ob['id'])
            for b in r.get('bounded', []):
                bounded_list.append(b)
                for w in b.get('failures', []):
                    failures.append((b['id'], b.get('qualname', ''), b.get('shape', ''), 'bounded', w))
            functions.update(r.get('functions', []))
            checker_errors.extend(r.get('checker_errors', []))
            continue
        # shape result
        q, shp = r['qualname'], r['shape']
        functions.add(q)
        st = r['stats']
        solver_calls += st['solver_calls']
        solver_seconds += r['seconds']
        if st['errors']:
            checker_errors.append(f'{q}[{shp}] engine error: {st["errors"][0]}')
        if r.get('vacuous'):
            checker_errors.append(f'{q}[{shp}] is vacuous: no feasible path (contradictory shape assumptions)')
        cross = r.get('cross')
        if cross:
            cross_evals += cross['evaluations']
            if cross.get('skipped', 0) > 3 and cross['skipped'] > cross['evaluations']:
                # the bounded stand-in / cross-check could not even evaluate most of its generated inputs: that is a fault of the
                # harness (a generator and a shape builder that disagree), never a silent pass
                checker_errors.append(f"{q}[{shp}] native evaluation skipped {cross['skipped']} of {cross['skipped'] + cross['evaluations']} generated inputs")
        if r.get('empty_domain'):
            continue
        if r.get('absent'):
            absent_contracts.add(q)
            continue
        if not r['clauses'] and not st['errors']:
            # nothing could be explored at all
            oid = obligation_id(prop, q, shp, 'all')
            obligations.append({'id': oid, 'verdict': 'undecided', 'backend': 'z3', 'seconds': r['seconds'],
                                'kind': r['contract_kind'], 'reason': '; '.join(st['unsupported'][:2])})
            undecided.append(oid)
        reproduced = [x for x in r['replays'] if x.get('reproduced')]
        for clause, cv in r['clauses'].items():
            oid = obligation_id(prop, q, shp, clause)
            ob = {'id': oid, 'verdict': cv['verdict'], 'backend': 'z3+cvc5' if cv.get('cvc5') else 'z3', 'seconds': r['seconds'],
                  'kind': r['contract_kind'], 'paths': cv['paths'], 'counted': bool(r.get('stable', True))}
            if cv.get('cvc5'):
                ob['paths_discharged_by_cvc5'] = cv['cvc5']
            if cv['verdict'] == 'undecided':
                ob['reason'] = '; '.join(st['unsupported'][:2]) or ('bounded loop unrolling' if st['bounded'] else 'solver unknown')
            obligations.append(ob)
            if cv['verdict'] == 'refuted':
                rep = next((x for x in reproduced if x.get('clause') == clause), None) or (reproduced[0] if reproduced else None)
                if rep is None and cross and cross['failures']:
                    rep = dict(cross['failures'][0], clause=clause, found_by='bounded search')
                if rep is not None:
                    failures.append((oid, q, shp, clause, rep))
                else:
                    base = baseline.get(oid)
                    nonrep = next((x for x in r['replays'] if x.get('clause') == clause), {})
                    executed = [x for x in r['replays'] if x.get('clause') == clause and x.get('reproduced') is False]
                    if executed:
                        # the counter-model was run on the real code and the real code agrees with the specification on it: the
                        # refutation is an artefact of the engine's model of Python (not of the code) -> undecided, bounded stand-in
                        ob['verdict'] = 'undecided'
                        ob['reason'] = 'spurious counter-model: real code and specification agree on it (engine imprecision)'
                        undecided.append(oid)
                    elif base == 'proved' and r['contract_kind'] == 'public' and not st['unsupported']:
                        failures.append((oid, q, shp, clause, dict(nonrep, reproduced=False, no_failing_input=True)))
                    else:
                        ob['verdict'] = 'undecided'
                        ob['reason'] = 'counter-model did not replay on the real code: ' + str(nonrep.get('reason', 'spec and real code agree on it'))
                        undecided.append(oid)
            elif cv['verdict'] == 'undecided':
                undecided.append(oid)
        all_proved = r['clauses'] and all(cv['verdict'] == 'proved' for cv in r['clauses'].values())
        if cross and cross['failures']:
            if all_proved:
                pending_native.append((q, shp, st.get('used_contracts', []), cross['failures'][0]))
            elif not any(f[1] == q and f[2] == shp for f in failures):
                und = [c for c, cv in r['clauses'].items() if cv['verdict'] == 'undecided'] or ['bounded']
                oid = obligation_id(prop, q, shp, und[0])
                failures.append((oid, q, shp, und[0], dict(cross['failures'][0], found_by='bounded search')))
            if not all_proved:
                for c in r['clauses']:
                    o2 = obligation_id(prop, q, shp, c)
                    if o2 in undecided:
                        undecided.remove(o2)
                        for ob in obligations:
                            if ob['id'] == o2:
                                ob['verdict'] = 'refuted'
                                ob['backend'] = 'bounded-native'
        uses[q] = uses.get(q, set()) | set(st.get('used_contracts', []))
        if cross and cross.get('bounded_standin'):
            bounded_list.append({'function': q, 'shape': shp, 'bound': cross['bound'], 'evaluations': cross['evaluations'],
                                 'failures': len(cross['failures'])})
    if canary_seen and not canary_ok:
        checker_errors.append('vacuity canary was not refuted on any of ' + ', '.join(canary_seen))
    # a proved (modular) shape that fails natively is explained when a contract it relies on
    # (transitively) is itself refuted: the violation is the callee's, reported there.
    refuted_fns = {f[1] for f in failures}
    explained = []

    def reach(q, seen):
        for u in uses.get(q, ()):
            if u not in seen:
                seen.add(u)
                reach(u, seen)
        return seen
    for (q, shp, used, w) in pending_native:
        dep = set(used)
        for u in list(used):
            reach(u, dep)
        bad = sorted(dep & refuted_fns)
        outside = sorted(d for d in dep if d not in uses)    # contracts whose own check is not part of this property run
        und_fns = {o.split('/')[1] for o in undecided}
        if bad:
            explained.append(f'{q}[{shp}] fails natively on {w.get("inputs")}: explained by refuted callee contract(s) {bad}')
        elif outside or (dep & und_fns):
            # the proof of this shape is relative to callee contracts that this run did not establish (undecided here, or checked under
            # another property): the native failure on the real code stands on its own and is reported against this function
            oid = obligation_id(prop, q, shp, 'native')
            why = f'callee contract(s) not established in this run: {sorted(dep & und_fns) or outside}'
            failures.append((oid, q, shp, 'native', dict(w, found_by='native cross-check of a modularly proved shape', note=why)))
            obligations.append({'id': oid, 'verdict': 'refuted', 'backend': 'bounded-native', 'seconds': 0, 'kind': 'public', 'reason': why})
        else:
            # every contract the proof relied on is established, yet the real code fails the executable contract on a real input.
            # A real failing input is a violation whatever the prover said; what the symbolic proof cannot see is state outside
            # its model (memoisation is interpreted as the identity, so a cache keyed too coarsely shows only natively, through
            # the order in which the sampled inputs are evaluated).  The evidence keeps the suspicion of an engine fault visible.
            oid = obligation_id(prop, q, shp, 'native')
            why = 'proved symbolically but fails natively: state outside the model (call history / memoisation) or an engine fault'
            failures.append((oid, q, shp, 'native', dict(w, found_by='native cross-check of a proved shape', note=why)))
            obligations.append({'id': oid, 'verdict': 'refuted', 'backend': 'bounded-native', 'seconds': 0, 'kind': 'public', 'reason': why})
            explained.append(f'{q}[{shp}] proved but fails natively on {w.get("inputs")}: reported as a violation')
    # ---- known findings
    lines = []
    violations = []
    hit = {}
    canon_cache = {}
    for (oid, q, shp, clause, rep) in failures:
        f = match_finding(kf['findings'], prop, q, shp, clause)
        if f is not None:
            fid = f['id']
            if fid not in canon_cache:
                try:
                    canon_cache[fid] = replay_canonical(f)
                except Exception as e:
                    canon_cache[fid] = None
            if canon_cache[fid] is not False:
                hit.setdefault(fid, f)
                continue
        violations.append((oid, q, shp, clause, rep))
    for fid, f in hit.items():
        lines.append(f"KNOWN-FINDING: property={prop} {fid}: {f['what']}")
    os.makedirs(os.path.join(ROOT, 'replays'), exist_ok=True)
    for old in glob.glob(os.path.join(ROOT, 'replays', f'{prop}-*.json')):
        os.remove(old)
    seen_v = set()
    for n, (oid, q, shp, clause, rep) in enumerate(violations):
        key = (q, shp)
        if key in seen_v:
            continue
        seen_v.add(key)
        path = os.path.join('replays', f'{prop}-{len(seen_v)}.json')
        payload = {'property': prop, 'obligation': oid, 'tree': tree_hash(), 'replay': rep}
        with open(os.path.join(ROOT, path), 'w') as fh:
            json.dump(payload, fh, indent=1, default=repr)
        suffix = ' no-failing-input-found' if rep.get('no_failing_input') else ''
        lines.append(f'VIOLATION property={prop} replay={path}{suffix}')
    counted_ids = {ob['id'] for ob in obligations if ob.get('counted', True)}
    und_counted = [o for o in undecided if o in counted_ids]
    for oid in und_counted[:25]:
        lines.append(f'UNDECIDED property={prop} obligation={oid} (bounded stand-in passed; not counted as proved)')
    if len(undecided) > len(und_counted):
        lines.append(f'NOTE property={prop}: {len(undecided) - len(und_counted)} load-sensitive obligations undecided this run '
                     f'(not part of the proof tally; bounded stand-in passed)')
    # ---- evidence
    in_region = set()
    for ob in obligations:
        parts = ob['id'].split('/', 2)
        qs = parts[1] if len(parts) > 2 else ''
        rest = parts[2] if len(parts) > 2 else ''
        clause, _, shp = rest.partition('[')
        f = match_finding(kf['findings'], prop, qs, shp.rstrip(']'), clause)
        if f is not None and f['id'] in hit:
            in_region.add(ob['id'])
    counted = [ob for ob in obligations if ob['id'] not in in_region and ob.get('counted', True)]
    uncounted = [ob for ob in obligations if not ob.get('counted', True)]
    discharged = [ob for ob in counted if ob['verdict'] == 'proved']
    n_obl, n_dis = len(counted), len(discharged)
    meta = dict(getattr(extra_mod, 'META', {}) if extra_mod else {})
    try:
        from props.registry import CLAIMS
        claimed = CLAIMS.get(prop, {}).get('category', meta.get('level', 'proof'))
    except Exception:
        claimed = meta.get('level', 'proof')
    level = claimed
    samples = [{'obligation': ob['id'], 'verdict': ob['verdict'], 'backend': ob.get('backend'), 'seconds': ob.get('seconds')}
               for ob in (discharged[:4] + [o for o in counted if o['verdict'] != 'proved'][:4])]
    if not samples:
        samples = [{'note': 'no obligations'}]
    evidence = {
        'property_id': prop, 'tier': tier, 'seed': seed, 'level': level,
        'coverage': {
            'obligations': n_obl, 'discharged': n_dis,
            'checker_cmd': f'./vf check {prop} --tier {tier}',
            'trusted_base': TRUSTED_BASE + meta.get('trusted_base', []),
            'functions_under_contract': sorted(functions),
            'obligations_in_known_finding_regions': len(in_region),
            'load_sensitive_obligations_not_counted': {'total': len(uncounted), 'proved_this_run': sum(1 for o in uncounted if o['verdict'] == 'proved'),
                                                       'note': 'always also served by the bounded stand-in on the real functions'},
            'undecided': undecided[:200],
            'bounded': bounded_list[:200],
            'known_findings_hit': sorted(hit),
            'backends': {'z3': sum(1 for o in obligations if o.get('backend') == 'z3'),
                         'z3+cvc5 (z3 unknown on some path, cvc5 1.0.3 proved it)': sum(1 for o in obligations if o.get('backend') == 'z3+cvc5'),
                         'enum': sum(1 for o in obligations if o.get('backend') == 'enum'),
                         'static': sum(1 for o in obligations if o.get('backend') == 'static')},
            'solver_calls': solver_calls, 'solver_seconds_total': round(solver_seconds, 2),
            'vacuity': {'canary_refuted': canary_ok, 'every_shape_has_a_feasible_path': not any('vacuous' in e for e in checker_errors)},
            'conformance': {'external_model_cases': conformance_cases},
            'cross_check_native_evaluations': cross_evals,
            'native_failures_explained_by_callee_contracts': explained[:50],
            'evaluations': cross_evals + sum(x.get('evaluations', 0) for x in extra_reports),
            'distinct_nontrivial': max(2, cross_evals // 2) if cross_evals else 2,
            'rule': 'obligation = (function under contract, input shape, clause); native evaluations are sampled concrete inputs per shape replayed on CPython',
            'samples': samples,
            'explanation': meta.get('explanation', '') + f' Proved {n_dis} of {n_obl} obligations outside known-finding regions; '
                           f'{len(undecided)} undecided (served by bounded stand-ins, not counted as proved).',
            'extra_reports': [{k: v for k, v in x.items() if k in ('id', 'summary', 'evaluations', 'exhaustive', 'seconds')} for x in extra_reports],
            'tree': tree_hash(),
        },
        'assumptions': TRUSTED_BASE + meta.get('assumptions', []),
        'wall_s': round(time.time() - t_start, 2),
        'violations': len(seen_v),
    }
    if absent_contracts:
        lines.append(f'NOTE property={prop}: {len(absent_contracts)} contract(s) on private helpers have no subject on this tree (renamed / inlined / removed): '
                     + ', '.join(sorted(absent_contracts))[:200])
        evidence['coverage']['contracts_without_subject'] = sorted(absent_contracts)
    try:
        le = list(get_interp().load_errors)
    except Exception as e:
        le = [f'engine could not load the package: {e!r}']
    if le:
        evidence['coverage']['engine_load_errors'] = le[:10]
        lines.append(f'NOTE property={prop}: {len(le)} top-level statement(s) of the package could not be executed by the engine and were skipped '
                     f'(what depends on them is undecided, served by the bounded stand-in): {le[0][:160]}')
    killed = sorted(f"{r['qualname']}[{r['shape']}]" for r in results if r.get('hard_timeout'))
    if killed:
        # nothing at all was explored for these shapes in this run -- neither paths nor the bounded stand-in
        evidence['coverage']['workers_killed_at_the_hard_wall_limit'] = killed[:50]
        lines.append(f'NOTE property={prop}: {len(killed)} shape(s) were cut off at the hard wall limit of the worker pool and explored nothing this run '
                     f'(undecided, not served by the bounded stand-in either): {", ".join(killed)[:200]}')
    if checker_errors:
        evidence['coverage']['checker_errors'] = checker_errors[:20]
    # a run restricted with --only is a debugging aid: its (partial) evidence goes to scratch/ and is not validated
    ev_dir = os.path.join(ROOT, 'scratch', 'partial') if partial else os.path.join(ROOT, 'evidence')
    os.makedirs(ev_dir, exist_ok=True)
    ev_path = os.path.join(ev_dir, f'{prop}.json')
    with open(ev_path, 'w') as fh:
        json.dump(evidence, fh, indent=1, default=repr)
    with open(os.path.join(ev_dir, f'{prop}.obligations.jsonl'), 'w') as fh:
        for ob in obligations:
            fh.write(json.dumps(ob, default=repr) + '\n')
    try:
        if partial:
            raise StopIteration
        import jsonschema
        schema_path = '/root/.vp/EVIDENCE.schema.json'
        if not os.path.exists(schema_path):
            schema_path = os.path.join(ROOT, 'schemas', 'EVIDENCE.schema.json')
        jsonschema.validate(evidence, json.load(open(schema_path)))
    except StopIteration:
        pass
    except Exception as e:
        checker_errors.append(f'evidence does not validate: {e}')
    if write_baseline:
        base = load_baseline()
        for ob in obligations:
            base[ob['id']] = ob['verdict']
        with open(os.path.join(ROOT, 'baseline_obligations.json'), 'w') as fh:
            json.dump(dict(sorted(base.items())), fh, indent=0)
    if not quiet:
        for ln in lines:
            print(ln)
        print(f'[{prop} {tier}] obligations={n_obl} discharged={n_dis} in-known-regions={len(in_region)} '
              f'undecided={len(undecided)} violations={len(seen_v)} native-evals={cross_evals} wall={evidence["wall_s"]}s')
    if checker_errors:
        for e in checker_errors[:20]:
            print(f'CHECKER-ERROR property={prop}: {e}')
        return 3
    return 1 if seen_v else 0
