"""C07: search, split and count equal the brute-force definition."""
import z3
from pyvc.contract import contract, Shape, INLINE
from pyvc import sym, spec
from pyvc.sym import lor, lnot, land, ite, implies, SInt
from pyvc.spec import bits, mk_bits, sub
from pyvc.shapes import m_bits, r_bits
from pyvc.extern import BA, view_eq
from pyvc.search import occ_term
from .common import *
from .bits_seq import _self_shapes
from .mutators import window

BA_KINDS = [None, False, True]


def _find_shapes(states=SELF_STATES, operands=(('obj', 'Bits', 'immutable'), ('str',)), extra_opts=(False, True)):
    out = []
    for cls, st in states:
        for k in operands:
            for d in opt_combos(['start', 'end']):
                for ba in BA_KINDS:
                    for optba in (extra_opts if ba is None else (False,)):
                        def build(S, interp, cls=cls, st=st, k=k, d=d, ba=ba):
                            o = m_bits(S, interp, 'self', cls, st)
                            return [o, m_operand(S, interp, 'bs', k, o), mk_opt(S, 'start', d['start']),
                                    mk_opt(S, 'end', d['end']), ba], {}

                        def real(vals, cls=cls, st=st, k=k, d=d, ba=ba):
                            o = r_bits(vals, 'self', cls, st)
                            return [o, r_operand(vals, 'bs', k, o), rv(vals, 'start', d['start']), rv(vals, 'end', d['end']), ba], {}
                        aligned = bool(ba) or (ba is None and optba)
                        out.append(Shape(f'{cls}/{st}/{opname(k)}/{cname(d)}/ba={ba}/opt={optba}', build, real,
                                         opts={'bytealigned': optba}, props={'C07'} if aligned else None, stable=False))
    return out


def _aligned(ba, p):
    return (p % 8 == 0) if ba else True


def find_post(first):
    """relational post of find / rfind over the brute-force definition"""
    def post(C, args, kwargs, out):
        self, bs, start, end, bytealigned = args
        D, P = bits(self), promote_bits(C, bs)
        ba = C.option('bytealigned') if bytealigned is None else bytealigned
        # exceptional outcomes fixed by the statement
        if sym.truth(sym.eq(P.n, 0)):
            yield ('empty-pattern-raises', out.kind == 'exc' and out.value.cls.is_subclass(C.interp.builtins['ValueError']))
            return
        n = D.n
        s = 0 if start is None else ite(start < 0, start + n, start)
        e = n if end is None else ite(end < 0, end + n, end)
        if sym.truth(lnot(land(0 <= s, s <= e, e <= n))):
            yield ('invalid-range-raises', out.kind == 'exc' and out.value.cls.is_subclass(C.interp.builtins['ValueError']))
            return
        if out.kind == 'exc':
            yield ('raises', False, f'unexpected {out.value.cls.name}')
            return
        r = out.value
        yield ('tuple', isinstance(r, tuple) and len(r) in (0, 1))
        if not isinstance(r, tuple):
            return
        st, et, m = sym._int_t(s), sym._int_t(e), sym._int_t(P.n)

        def inwin(x):
            t = z3.And(st <= x, x + m <= et, occ_term(D, P, x))
            if ba:
                t = z3.And(t, x % 8 == 0)
            return t
        c = sym.ctx()
        q = c.fresh_int('q')        # skolem: an arbitrary position
        if len(r) == 0:
            yield ('complete', sym.mk_bool(z3.Not(inwin(q))))
        else:
            p = sym._int_t(r[0])
            yield ('sound', sym.mk_bool(inwin(p)))
            yield ('extremal', sym.mk_bool(z3.Implies(inwin(q), (p <= q) if first else (p >= q))))
            if '_pos' in self.attrs:
                yield ('pos-moves-to-match', sym.eq(self.attrs['_pos'], r[0]))
    return post


contract('bits.Bits.find', shapes=_find_shapes([s for s in SELF_STATES if s[0] in ('Bits', 'BitArray')]), props={'C07'},
         kind='public', relational=True, observe_args=False,
         note="find: () iff no occurrence lies wholly inside [start, end) (on a byte boundary when byte-aligned), else the "
              "lowest such position; ValueError for an empty pattern or an invalid range")(find_post(True))
contract('bits.Bits.rfind', shapes=_find_shapes([s for s in SELF_STATES if s[0] in ('Bits', 'BitArray')]), props={'C07'},
         kind='public', relational=True, observe_args=False,
         note="rfind: as find, the highest position")(find_post(False))
contract('bitstream.ConstBitStream.find', shapes=_find_shapes([s for s in SELF_STATES if s[0] in ('ConstBitStream', 'BitStream')]),
         props={'C07', 'C06'}, kind='public', relational=True, observe_args=False,
         note="as Bits.find; on success pos moves to the match, otherwise pos is unchanged")(find_post(True))
contract('bitstream.ConstBitStream.rfind', shapes=_find_shapes([s for s in SELF_STATES if s[0] in ('ConstBitStream', 'BitStream')]),
         props={'C07', 'C06'}, kind='public', relational=True, observe_args=False,
         note="as Bits.rfind; on success pos moves to the match")(find_post(False))


# ---- startswith / endswith / count / all / any ----------------------------------------------------
def _pre_shapes():
    out = []
    for cls, st in SELF_STATES:
        for k in (('obj', 'Bits', 'immutable'), ('str',), ('self',)):
            for d in opt_combos(['start', 'end']):
                def build(S, interp, cls=cls, st=st, k=k, d=d):
                    o = m_bits(S, interp, 'self', cls, st)
                    return [o, m_operand(S, interp, 'bs', k, o), mk_opt(S, 'start', d['start']), mk_opt(S, 'end', d['end'])], {}

                def real(vals, cls=cls, st=st, k=k, d=d):
                    o = r_bits(vals, 'self', cls, st)
                    return [o, r_operand(vals, 'bs', k, o), rv(vals, 'start', d['start']), rv(vals, 'end', d['end'])], {}
                out.append(Shape(f'{cls}/{st}/{opname(k)}/{cname(d)}', build, real))
    return out


@contract('bits.Bits.startswith', shapes=_pre_shapes(), props={'C07', 'C08'}, kind='public',
          note="startswith(p, start, end): p occurs at start and fits inside [start, end); ValueError for an invalid range")
def startswith_spec(C, self, prefix, start=None, end=None):
    D, P = bits(self), promote_bits(C, prefix)
    s, e = window(C, D, start, end)
    if sym.truth(s + P.n > e):
        return False
    return view_eq(sub(D, s, s + P.n), P)


@contract('bits.Bits.endswith', shapes=_pre_shapes(), props={'C07', 'C08'}, kind='public',
          note="endswith(p, start, end): p occurs ending at end and fits inside [start, end)")
def endswith_spec(C, self, suffix, start=None, end=None):
    D, P = bits(self), promote_bits(C, suffix)
    s, e = window(C, D, start, end)
    if sym.truth(s + P.n > e):
        return False
    return view_eq(sub(D, e - P.n, e), P)


@contract('bits.Bits.count', shapes=_self_shapes(lambda S, interp, d, self_: [d['v']], lambda v, d, self_: [d['v']],
                                                combos=[{'v': 0}, {'v': 1}, {'v': True}]),
          props={'C07', 'C08'}, kind='public', note="count(v): number of bits equal to bool(v) in the bitstring")
def count_spec(C, self, value):
    from pyvc.extern import count_ones
    V = bits(self)
    c = count_ones(V)
    return c if value else V.n - c


def _allany(which):
    def f(C, self, value, pos=None):
        from pyvc.extern import all_set, any_set
        V = bits(self)
        v = bool(value)
        if which == 'all':
            return all_set(V) if v else lnot(any_set(V))
        return any_set(V) if v else lnot(all_set(V))
    return f


_v_args = (lambda S, interp, d, self_: [d['v']], lambda v, d, self_: [d['v']])
contract('bits.Bits.all', shapes=_self_shapes(*_v_args, combos=[{'v': 0}, {'v': 1}]), props={'C07', 'C08'}, kind='public',
         note="all(v): every bit equals bool(v)")(_allany('all'))
contract('bits.Bits.any', shapes=_self_shapes(*_v_args, combos=[{'v': 0}, {'v': 1}]), props={'C07', 'C08'}, kind='public',
         note="any(v): some bit equals bool(v)")(_allany('any'))
