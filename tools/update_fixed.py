#!/usr/bin/env python3
"""Rebuilds the `fixed` list of known_findings.json from the fix: commits of /repo."""
import json, subprocess
m = [('Bits.__add__', 'C01'), ('BitStore operations honour', 'C08'), ('negative offset or length', 'C15'), ('file offset beyond', 'C15'),
     ("'a & a'", 'C16'), ('ror/rol', 'C20'), ('s.overwrite(s, pos)', 'C03'), ('stream overwrite with itself', 'C06'), ('fixed-size dtype', 'C06'),
     ('endian integer property', 'C15'), ('lsb0 slicing', 'C12'), ('hash of a long', 'C13'), ('cached string parses', 'C09'), ('Dtype caches', 'C09'),
     ('tobitarray', 'C04'), ('bits= initialiser', 'C04'), ('fromstring()', 'C04'), ('mxint rounds', 'C11'), ('array.array input', 'C18'),
     ('item width in bits', 'C14'), ('Array.insert', 'C14'), ('buffer-backed pattern', 'C07'), ('Array.count', 'C14'), ('set(value, range)', 'C03'),
     ('byteswap(', 'C03'), ('empty slice inserts', 'C12'), ('disagrees with a hex', 'C15'),
     ('negative lengths when creating a Dtype', 'C06'), ('ConstBitStream.copy()', 'C06'), ('ignore the lsb0 option', 'C12'),
     ('lsb0 findall finds every match', 'C07'), ('byte aligned find and rfind in lsb0', 'C12'), ('little-endian bitarray source', 'C08'), ('slice step of zero', 'C12'), ('findall raises ValueError for an empty pattern', 'C07'),
     ('very large int', 'C13'), ('extended slice of itself', 'C14')]
log = subprocess.run(['git', '-C', '/repo', 'log', '--format=%h %s'], capture_output=True, text=True).stdout.splitlines()
out = []
for line in log:
    h, msg = line.split(' ', 1)
    if not msg.startswith('fix:'):
        continue
    prop = next((p for k, p in m if k in msg), '?')
    out.append(f'fixed: property={prop} {h} {msg[5:]}')
k = json.load(open('/verif/known_findings.json'))
k['fixed'] = out
json.dump(k, open('/verif/known_findings.json', 'w'), indent=1)
print(len(out), 'fixed entries;', sum('property=?' in x for x in out), 'unmapped')
