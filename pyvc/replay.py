"""Replay of solver counter-models on the real code (CPython running /repo).

A counter-model is concretised to plain values, real objects are built from it with the
shape's ``real`` builder, the real function is called, and the outcome is compared with
what the contract demands for those same concrete inputs (the spec run on concrete model
values, or the relational post evaluated on the interpreter's concrete outcome after
checking that the interpreter and CPython agree on it)."""
import importlib
import json
import os
import traceback

from . import sym, concrete
from .contract import PreconditionNotMet, Sym, SpecCtx, Outcome, run_callable, set_options, _drain, _observe_args
from .interp import PyRaise, GenObj, Obj


LAST_ALIAS = []


def real_function(qualname):
    parts = qualname.split('.')
    if parts[0] == 'client':
        mod = importlib.import_module('contracts._client_code')
    else:
        mod = importlib.import_module('bitstring.' + parts[0]) if parts[0] != 'bitstring' else importlib.import_module('bitstring')
    v = mod
    for p in parts[1:]:
        v = v.__dict__[p] if isinstance(v, type) and p in v.__dict__ else getattr(v, p)
    if isinstance(v, (classmethod, staticmethod)):
        v = v.__func__
    return v


def set_real_options(opts):
    import bitstring
    want = {'lsb0': False, 'bytealigned': False, 'mxfp_overflow': 'saturate'}
    want.update({k: v for k, v in (opts or {}).items() if k in want})
    for k, v in want.items():
        setattr(bitstring.options, k, v)


def canon_slice(v):
    return v


class OneShot:
    """a one-shot iterable argument (a plain iterator over `items`).  How much of an iterator argument a call consumed is not part of
    any property, so its canonical form is the list it was built from -- the model side keeps that list."""
    def __init__(self, items):
        self.items = list(items)
        self._it = iter(self.items)

    def __iter__(self):
        return self

    def __next__(self):
        return next(self._it)


def _canon_real(v):
    if isinstance(v, OneShot):
        return [_canon_real(x) for x in v.items]
    if isinstance(v, str) and v.startswith('/') and 'pyvc-files-' in v:
        return v.rsplit('/', 1)[1]         # a temp file standing for the model's file of the same name
    if isinstance(v, slice):
        return ('slice', v.start, v.stop, v.step)
    if isinstance(v, (list, tuple)):
        return type(v)(_canon_real(x) for x in v)
    return concrete.canon_real(v)


def _canon_model(interp, v):
    from .interp import SeqVal
    if isinstance(v, (list, tuple)) and any(isinstance(x, SeqVal) for x in v):
        return concrete.canon_model(interp, v)
    if isinstance(v, slice):
        return ('slice', v.start, v.stop, v.step)
    if isinstance(v, (list, tuple)):
        return type(v)(_canon_model(interp, x) for x in v)
    if isinstance(v, bool):
        return v
    return concrete.canon_model(interp, v)


def real_alias_facts(result, args, kwargs):
    """the ownership predicate of contract.alias_goals evaluated on real objects"""
    import bitstring, bitarray
    objs = []

    def collect(v, depth=0):
        if isinstance(v, bitstring.Bits):
            if all(v is not o for o in objs):
                objs.append(v)
        elif isinstance(v, bitstring.Array):
            collect(v.data, depth + 1)
        elif isinstance(v, (list, tuple)) and depth < 3:
            for x in v:
                collect(x, depth + 1)
    collect(result)
    for a in list(args) + list(kwargs.values()):
        collect(a)
    bad = []
    mut = lambda o: isinstance(o, bitstring.BitArray)
    for i, a in enumerate(objs):
        sa = getattr(a, '_bitstore', None)
        if sa is None:
            continue
        if mut(a) and sa.immutable:
            bad.append('own:mutable-object-holds-a-store-flagged-immutable')
        for b in objs[i + 1:]:
            sb = getattr(b, '_bitstore', None)
            if sb is None or not (mut(a) or mut(b)):
                continue
            if sa is sb:
                bad.append('own:store-shared-with-a-mutable-object')
            elif sa._bitarray is sb._bitarray:
                bad.append('own:buffer-shared-with-a-mutable-object')
    for r in [result] + list(args) + list(kwargs.values()):
        if isinstance(r, bitarray.bitarray):
            for a in objs:
                if getattr(a, '_bitstore', None) is not None and a._bitstore._bitarray is r:
                    bad.append('own:raw-buffer-of-a-bitstring-exposed-or-adopted')
    return bad


def _held_stores(result, args, kwargs):
    import bitstring
    out = []

    def collect(v, depth=0):
        if isinstance(v, bitstring.BitArray):
            out.append(v._bitstore)
        elif isinstance(v, bitstring.Array):
            collect(v.data, depth + 1)
        elif isinstance(v, (list, tuple)) and depth < 3:
            for x in v:
                collect(x, depth + 1)
    collect(result)
    for a in list(args) + list(kwargs.values()):
        collect(a)
    return out


def _lifetime_facts(fn, shape, vals, r, args, kwargs):
    """a store that a second, independent call (fresh arguments) hands out again outlived the first call: a module-level
    constant or a memoised value.  Held by a mutable object, or returned unflagged, it is shared mutable state."""
    from bitstring.bitstore import BitStore
    first = _held_stores(r, args, kwargs)
    is_store = isinstance(r, BitStore)
    if not first and not is_store:
        return []
    args2, kwargs2 = shape.real(vals)
    try:
        r2 = fn(*args2, **kwargs2)
    except BaseException:
        return []
    bad = []
    second = _held_stores(r2, args2, kwargs2)
    if any(a is b for a in first for b in second):
        bad.append('own:mutable-object-holds-a-store-that-outlives-the-call')
    if is_store and r2 is r and not r.immutable and all(r is not a for a in list(args) + list(kwargs.values())):
        bad.append('own:returned-store-outlives-the-call-and-is-not-flagged-immutable')
        bad.append('own:memoised-result-not-flagged-immutable')
    return bad


LAST_IDENT = None


def _real_ident(r, args):
    """which positional argument the result *is* (-1: a new object); None when identity is not observable for its class"""
    import bitstring
    from bitstring.bitstore import BitStore
    if isinstance(r, (bitstring.BitArray, bitstring.ConstBitStream, BitStore)):
        return next((i for i, a in enumerate(args) if a is r), -1)
    return None


def _model_ident(v, args):
    from .interp import Obj
    if isinstance(v, Obj) and any(k.name in ('BitArray', 'ConstBitStream', 'BitStore') for k in v.cls.mro):
        return next((i for i, a in enumerate(args) if a is v), -1)
    return None


def run_real(contract, shape, vals):
    fn = real_function(contract.target)
    args, kwargs = shape.real(vals)
    set_real_options(shape.opts)
    global LAST_ALIAS
    LAST_ALIAS = []
    try:
        try:
            r = fn(*args, **kwargs)
            global LAST_IDENT
            LAST_IDENT = _real_ident(r, args)
            try:
                LAST_ALIAS = real_alias_facts(r, args, kwargs)
                LAST_ALIAS += _lifetime_facts(fn, shape, vals, r, args, kwargs)
            except Exception:
                pass
            if hasattr(r, '__next__'):
                r = ('gen', list(r))
            out = ('ret', _canon_real(r))
        except BaseException as e:
            out = ('exc', type(e).__name__, [c.__name__ for c in type(e).__mro__])
        state = [_canon_real(a) for a in args] + [_canon_real(kwargs[k]) for k in sorted(kwargs)]
    finally:
        set_real_options({})
    return out, state


def run_model(interp, contract, shape, vals, which):
    """which: 'spec' or 'body' -- executed on concrete model values"""
    S = Sym(values=vals)
    args, kwargs = shape.build(S, interp)
    set_options(interp, shape.opts)
    try:
        if which == 'body':
            fn = interp.lookup_qualname(contract.target)
            saved = interp.contracts
            # no modular substitution in a replay -- except the *assumed* contracts, which give opaque model values (a string known
            # only by the bits it denotes) their meaning
            from .contract import REGISTRY as _REG
            interp.contracts = {q: k for q, k in _REG.items() if k.kind == 'assumed' and k.spec is not None}
            try:
                o = run_callable(interp, fn, args, kwargs)
            finally:
                interp.contracts = saved
            if isinstance(o.value, GenObj):
                o = _drain(interp, o.value)
        else:
            C = SpecCtx(interp, callsite=False, qualname=contract.qualname)
            try:
                v = contract.spec(C, *args, **kwargs)
                o = _drain(interp, v) if isinstance(v, GenObj) else Outcome('ret', v)
            except PyRaise as pr:
                o = Outcome('exc', pr.exc)
    finally:
        set_options(interp, {})
    if o.kind == 'exc':
        out = ('exc', o.value.cls.name, [c.name for c in o.value.cls.mro])
    else:
        out = ('ret', _canon_model(interp, o.value))
    state = [_canon_model(interp, a) for a in args] + [_canon_model(interp, kwargs[k]) for k in sorted(kwargs)]
    return out, state, (args, kwargs, o)


def outcomes_agree(real_out, spec_out):
    """real exception class must be (a subclass of) the spec's class"""
    if real_out[0] != spec_out[0]:
        return False
    if real_out[0] == 'exc':
        return spec_out[1] in real_out[2]
    return real_out[1] == spec_out[1]


def replay(interp, contract, shape, vals):
    """-> dict(reproduced: bool|None, ...).  None = replay itself could not be carried out."""
    info = {'qualname': contract.qualname, 'shape': shape.name, 'inputs': _jsonable(vals), 'opts': shape.opts}
    if shape.real is None:
        info.update(reproduced=None, reason='shape has no real-object builder')
        return info
    if '__error__' in vals:
        info.update(reproduced=None, reason='counter-model could not be concretised: ' + vals['__error__'])
        return info
    try:
        real_out, real_state = run_real(contract, shape, vals)
    except Exception as e:
        info.update(reproduced=None, reason='building real inputs failed: ' + repr(e))
        return info
    info['real_outcome'] = _jsonable(real_out)
    if LAST_ALIAS:
        info['real_aliasing'] = LAST_ALIAS
        info['reproduced'] = True
        return info
    try:
        if contract.spec is not None:
            spec_out, spec_state, (m_args, _mk, m_o) = run_model(interp, contract, shape, vals, 'spec')
            info['spec_outcome'] = _jsonable(spec_out)
            ok = outcomes_agree(real_out, spec_out)
            if ok and real_out[0] == 'ret' and m_o.kind == 'ret':
                mi = _model_ident(m_o.value, m_args)
                if mi is not None and LAST_IDENT is not None and mi != LAST_IDENT:
                    ok = False
                    info['identity'] = {'real_result_is_argument': LAST_IDENT, 'spec_result_is_argument': mi}
            if ok and contract.observe_args and real_state != spec_state and not (contract.observe_args == 'on_return' and real_out[0] == 'exc'):
                ok = False
                info['real_state'] = _jsonable(real_state)
                info['spec_state'] = _jsonable(spec_state)
            info['reproduced'] = not ok
        else:
            body_out, body_state, (args, kwargs, o) = run_model(interp, contract, shape, vals, 'body')
            info['interp_outcome'] = _jsonable(body_out)
            if not outcomes_agree(real_out, body_out) or (real_out[0] == 'exc' and real_out[1] != body_out[1]):
                info.update(reproduced=None, reason='interpreter and CPython disagree on this input (engine non-conformance)')
                return info
            C = SpecCtx(interp, callsite=False, qualname=contract.qualname)
            failed = []
            set_options(interp, shape.opts)          # the post-condition reads the option values of the shape
            try:
                for item in contract.post(C, args, kwargs, o):
                    g = item[1]
                    if g is not True and not (g is not False and g is not None and bool(g)):
                        failed.append(item[0])
            finally:
                set_options(interp, {})
            info['failed_clauses'] = failed
            info['reproduced'] = bool(failed)
    except PreconditionNotMet as e:
        info.update(reproduced=None, reason=f'outside the precondition: {e}', benign_skip=True)
    except (sym.NeedConcrete, sym.Unsupported) as e:
        info.update(reproduced=None, reason=f'spec not executable on this input: {e}', benign_skip=True)
    except Exception as e:
        info.update(reproduced=None, reason='replay crashed: ' + traceback.format_exc().splitlines()[-1])
    return info


def _jsonable(v):
    if isinstance(v, dict):
        return {str(k): _jsonable(x) for k, x in v.items()}
    if isinstance(v, (list, tuple)):
        if v and all(isinstance(x, bool) for x in v) and len(v) > 0 and isinstance(v, list):
            return ''.join('1' if x else '0' for x in v)
        return [_jsonable(x) for x in v]
    if isinstance(v, (bytes, bytearray)):
        return {'bytes': bytes(v).hex()}
    if isinstance(v, (int, float, str, bool)) or v is None:
        return v
    return repr(v)


def unjson_inputs(d):
    out = {}
    for k, v in d.items():
        if isinstance(v, str) and set(v) <= {'0', '1'} and (k.endswith('.raw') or not k[-1:].isdigit()):
            out[k] = [c == '1' for c in v]
        else:
            out[k] = v
    return out
