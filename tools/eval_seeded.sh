#!/bin/bash
# usage: tools/eval_seeded.sh <seeded-dir-name> [props...]   applies the patch to /repo, confirms the demo, runs the checks, reverts
cd "$(dirname "$0")/.."
D=seeded/$1; shift
PROPS="$@"
[ -f $D/patch.diff ] || { echo "no patch in $D"; exit 2; }
cd /repo && git diff --quiet || { echo "/repo has local changes"; exit 2; }
# demo must pass on the unchanged tree
(cd /repo && PYTHONPATH=/repo /venv/bin/python /verif/$D/demo.py >/dev/null 2>&1); BASE=$?
git -C /repo apply /verif/$D/patch.diff || { echo "patch does not apply"; exit 2; }
(cd /repo && PYTHONPATH=/repo /venv/bin/python /verif/$D/demo.py >/dev/null 2>&1); MUT=$?
echo "demo: unchanged exit=$BASE  with change exit=$MUT"
cd /verif
for p in $PROPS; do
  ./vf check $p --tier quick 2>&1 | grep -E "^\[|^VIOLATION|^CHECKER" | cut -c1-200 | head -6
  ./vf summary $p 2>/dev/null | grep -v "shapes:" | cut -c1-260 | head -4
done
git -C /repo checkout -- .
