"""Assumed contracts of bitarray.find / bitarray.search / bytes.find: the brute-force
definition.  occ(D, P, p): P occurs in D at p.  find returns the lowest (right=True: the
highest) p with s <= p, p + |P| <= e and occ, else -1, where (s, e) are start/stop clamped
like slice bounds.  search yields all such p in increasing (right=True: decreasing) order."""
import z3
from . import sym
from .sym import SInt, SBool, Unsupported, NeedConcrete, is_sym, ite, land, lor, lnot
from . import extern
from .extern import BA, BBytes


def _pattern(interp, sub):
    if isinstance(sub, BA):
        return sub
    if sym.is_intlike(sub):
        if sym.truth(lor(sub < 0, sub > 1)):
            interp.throw('ValueError', 'bit must be 0 or 1')
        b = extern._int_as_bit(sub)
        return BA(1, lambda i: b)
    interp.throw('TypeError', 'bitarray or int expected')


def _window(interp, n, start, stop):
    s = extern._clamp(start, n, 0, n)
    e = n if stop is None else extern._clamp(stop, n, 0, n)
    return s, e


def occ_term(D, P, p):
    """z3 Bool: P occurs in D at position p (p: z3 Int term)"""
    i = z3.Int('i!occ')
    n, m = sym._int_t(D.n), sym._int_t(P.n)
    body = sym._b(D.bit(SInt(p + i))) == sym._b(P.bit(SInt(i)))
    return z3.And(p >= 0, p + m <= n, z3.ForAll([i], z3.Implies(z3.And(i >= 0, i < m), body)))


def _all_concrete(*views):
    for v in views:
        if not isinstance(v.n, int):
            return False
        for i in range(v.n):
            if not isinstance(v.bit(i), bool):
                return False
    return True


def _matches_concrete(D, P, s, e):
    d = [D.bit(i) for i in range(D.n)]
    p = [P.bit(i) for i in range(P.n)]
    m = len(p)
    return [q for q in range(s, e - m + 1) if d[q:q + m] == p]


def ba_find(interp, D, sub, start=0, stop=None, right=False):
    P = _pattern(interp, sub)
    s, e = _window(interp, D.n, start, stop)
    right = interp.truthy(right)
    if _all_concrete(D, P) and isinstance(s, int) and isinstance(e, int):
        ms = _matches_concrete(D, P, s, e)
        if not ms:
            return -1
        return ms[-1] if right else ms[0]
    c = sym.ctx()
    p = c.fresh_int('find')
    st, et, m = sym._int_t(s), sym._int_t(e), sym._int_t(P.n)
    q = z3.Int('q!find')
    inwin = lambda x: z3.And(st <= x, x + m <= et, occ_term(D, P, x))
    c.assume(z3.Or(p == -1, inwin(p)))
    c.assume(z3.ForAll([q], z3.Implies(inwin(q), z3.And(p != -1, (p >= q) if right else (p <= q)))))
    return SInt(p)


def ba_search(interp, D, sub, start=0, stop=None, right=False):
    P = _pattern(interp, sub)
    s, e = _window(interp, D.n, start, stop)
    right = interp.truthy(right)
    if _all_concrete(D, P) and isinstance(s, int) and isinstance(e, int):
        ms = _matches_concrete(D, P, s, e)
        return iter(ms[::-1] if right else ms)
    raise Unsupported("bitarray.search on symbolic data (handled by the C07 sequence contracts)")


def bytes_find(interp, hay, sub, start=0, end=None):
    if isinstance(hay, BBytes):
        try:
            hay = hay.to_host()
        except NeedConcrete:
            raise Unsupported("bytes.find on symbolic bytes")
    if isinstance(sub, BBytes):
        try:
            sub = sub.to_host()
        except NeedConcrete:
            raise Unsupported("bytes.find of symbolic bytes")
    if is_sym(start) or is_sym(end):
        raise Unsupported("bytes.find with symbolic bounds")
    return hay.find(sub, start, end) if end is not None else hay.find(sub, start)
