"""C12: LSB0 mode is a pure index mirror of MSB0 mode.

For every operation that takes or returns bit positions the lsb0 obligation is
    op_lsb0(operands, args) == rev(op_msb0_SPEC(rev(operands), args))
where op_msb0_SPEC is the *specification* used for C01/C03/C06/C07 (not the msb0 code).  The shapes added
here run the real code with options.lsb0 = True (the dispatch installed by Options.set_lsb0 is interpreted
from the real source)."""
from pyvc.contract import contract, Shape, REGISTRY, INLINE
from pyvc import sym, spec
from pyvc.sym import lor, lnot, land, ite
from pyvc.spec import bits, mk_bits, rev, sub, store_bits, mk_store
from pyvc.shapes import m_bits, r_bits, m_store, r_store
from pyvc.extern import BA, PStr, SymBytes
from pyvc.interp import Obj
from .common import *
from .bits_ops import _set_bits
from . import bits_seq, bits_ops, mutators, search, streams, eqhash, bitstore as _bsmod   # contracts extended below

L = {'lsb0': True}


def _is_bits(x):
    return isinstance(x, Obj) and any(k.name == 'Bits' for k in x.cls.mro)


def _mirror_in(C, x, memo):
    if id(x) in memo:
        return memo[id(x)]
    if _is_bits(x):
        m = mk_bits(C, x.cls, rev(bits(x)), pos=x.attrs.get('_pos'))
        if '_pos' not in x.attrs:
            m.attrs.pop('_pos', None)
    elif isinstance(x, PStr):
        m = PStr(rev(x.view))
    elif isinstance(x, str) and (x == '' or (x.startswith('0b') and set(x[2:]) <= {'0', '1'})):
        m = ('0b' + x[2:][::-1]) if x else ''          # (a concrete binary string operand, as used in native replays)
    elif isinstance(x, SymBytes):
        r = rev(BA(x.nbytes * 8, x.bit))
        m = SymBytes(x.nbytes, r.bit, x.kind)
    elif isinstance(x, BA):
        m = rev(x)
    elif isinstance(x, Obj) and x.cls.name == 'BitStore':
        m = mk_store(C, rev(store_bits(x)))
    else:
        return x
    memo[id(x)] = m
    return m


def _mirror_out(C, r):
    if _is_bits(r):
        return mk_bits(C, r.cls, rev(bits(r)), pos=r.attrs.get('_pos'))
    if isinstance(r, Obj) and r.cls.name == 'BitStore':
        return mk_store(C, rev(store_bits(r)))
    return r


def mirrored(spec_fn, mutates_self=False):
    """spec_lsb0 = rev . spec_msb0 . rev on every bitstring operand and result; position arguments unchanged"""
    def f(C, self, *args, **kw):
        memo = {}
        sm = _mirror_in(C, self, memo)
        am = [_mirror_in(C, a, memo) for a in args]
        r = spec_fn(C, sm, *am, **kw)
        if mutates_self:
            if _is_bits(self):
                _set_bits(C, self, rev(bits(sm)))
                if '_pos' in sm.attrs:
                    self.attrs['_pos'] = sm.attrs['_pos']
            else:
                V = rev(store_bits(sm))
                self.attrs['_bitarray']._write(C.interp, V.n, V.bit)
        if r is sm:
            return self
        return _mirror_out(C, r)
    return f


def add_lsb0(qualname, mutates_self=False, custom=None, shape_filter=None, extra_props=(), stable=True, timeout_ms=None):
    """add lsb0 shapes (options.lsb0 = True) to an existing contract; its spec becomes mode-aware"""
    c = REGISTRY[qualname]
    orig = c.spec
    low = custom if custom is not None else mirrored(orig, mutates_self)

    def mode_aware(C, *a, **k):
        return low(C, *a, **k) if C.lsb0 else orig(C, *a, **k)
    c.spec = mode_aware
    new = []
    for sh in list(c.shapes):
        if sh.opts.get('lsb0'):
            continue
        if shape_filter and not shape_filter(sh):
            continue
        o = dict(sh.opts)
        o['lsb0'] = True
        new.append(Shape(sh.name + '/lsb0', sh.build, sh.real, opts=o, loop_bound=sh.loop_bound, props={'C12'} | set(extra_props), gen=sh.gen,
                         stable=(stable(sh) if callable(stable) else stable) and sh.stable, timeout_ms=timeout_ms or sh.timeout_ms,
                         may_be_empty=getattr(sh, 'may_be_empty', False), bounded_only=sh.bounded_only))
    c.shapes.extend(new)


# ---- BitStore lsb0 primitives -----------------------------------------------------------------------
from .bitstore import _store_shapes, mk_opt as _mk, rv as _rv, _slice_combos, _step_combos
from . import bitstore as _bs


def _lsb0_store_contract(qual, msb0_spec, shapes, note):
    c = contract(qual, shapes=shapes, props={'C12'}, kind='public', note=note)(mirrored(msb0_spec, False))
    for sh in REGISTRY[qual].shapes:
        sh.opts = dict(sh.opts, lsb0=True)


_lsb0_store_contract('bitstore.BitStore.getindex_lsb0', _bs.getindex_msb0,
                     _store_shapes(lambda S, d: [S.int('index')], lambda v, d: [v['index']]),
                     "lsb0 s[i] == msb0 rev(s)[i]")
_lsb0_store_contract('bitstore.BitStore.getslice_lsb0', _bs.getslice_msb0,
                     _store_shapes(lambda S, d: [_mk(S, 'start', d['start']), _mk(S, 'stop', d['stop'])],
                                   lambda v, d: [_rv(v, 'start', d['start']), _rv(v, 'stop', d['stop'])], _slice_combos),
                     "lsb0 s[a:b] == rev(rev(s)[a:b])")
_lsb0_store_contract('bitstore.BitStore.getslice_withstep_lsb0', _bs.getslice_withstep_msb0,
                     _store_shapes(lambda S, d: [slice(_mk(S, 'start', d['start']), _mk(S, 'stop', d['stop']), _mk(S, 'step', d['step']))],
                                   lambda v, d: [slice(_rv(v, 'start', d['start']), _rv(v, 'stop', d['stop']), _rv(v, 'step', d['step']))],
                                   _step_combos),
                     "lsb0 s[a:b:c] == rev(rev(s)[a:b:c]) for every step")

# ---- Bits-level operations re-run in lsb0 mode ------------------------------------------------------------
for q in ('bits.Bits.__getitem__', 'bitstream.ConstBitStream.__getitem__'):
    add_lsb0(q)
for q in ('bits.Bits.startswith', 'bits.Bits.endswith'):
    add_lsb0(q, stable=False, timeout_ms=6000)     # quantified view equality through the mirror: load-sensitive
for q in ('bitarray_.BitArray.insert', 'bitstream.BitStream.insert', 'bitarray_.BitArray.overwrite', 'bitstream.ConstBitStream.overwrite',
          'bitarray_.BitArray.append', 'bitstream.ConstBitStream.append', 'bitarray_.BitArray.prepend', 'bitstream.BitStream.prepend',
          'bitarray_.BitArray.__delitem__', 'bitstream.BitStream.__delitem__', 'bitarray_.BitArray.reverse',
          'bitarray_.BitArray.set', 'bitarray_.BitArray.invert', 'bitarray_.BitArray.__iadd__', 'bitstream.BitStream.__iadd__'):
    add_lsb0(q, mutates_self=True)


def _setitem_lsb0(q):
    # an integer assigned to a slice is a whole value: it is encoded (in stored order) in the slice's length first, and only
    # then treated as the bit operand of the mirrored operation
    orig = REGISTRY[q].spec
    mir = mirrored(orig, True)

    def f(C, self, key, value):
        if isinstance(key, slice) and sym.is_intlike(value):
            from .values import enc_int
            first, count, step = spec.pyslice(C, bits(self).n, key.start, key.stop, None)
            value = enc_int(C, value, count, bool(sym.truth(value < 0)))
        return mir(C, self, key, value)
    return f


for q in ('bitarray_.BitArray.__setitem__', 'bitstream.BitStream.__setitem__'):
    add_lsb0(q, custom=_setitem_lsb0(q), stable=lambda sh: 'step=None' in sh.name or 'key=index' in sh.name, timeout_ms=8000)

# mode-independent operations: same specification in both modes
for q in ('bits.Bits.__len__', 'bits.Bits.__eq__', 'bits.Bits.__hash__', 'bitstore.BitStore.tobytes', 'bits.Bits.__add__',
          'bits.Bits.__and__', 'bits.Bits.__invert__', 'bits.Bits.__lshift__', 'bits.Bits.__rshift__',
          'bitarray_.BitArray.__ilshift__', 'bitarray_.BitArray.__irshift__', 'bits.Bits.count'):
    add_lsb0(q, custom=REGISTRY[q].spec)


# rotations keep their direction relative to the MSB end; only the [start, end) range is mirrored
def _rot_lsb0(right):
    from .mutators import _rot_spec, window

    def f(C, self, nbits, start=None, end=None):
        V = bits(self)
        if sym.truth(sym.eq(V.n, 0)):
            C.throw('Error')
        if sym.truth(nbits < 0):
            C.throw('ValueError')
        s, e = window(C, V, start, end)
        return _rot_spec(right)(C, self, nbits, V.n - e, V.n - s)
    return f


# (the solver needs > 60 s for the ranged cases of these two: load-sensitive, bounded stand-in always runs)
add_lsb0('bitarray_.BitArray.ror', custom=_rot_lsb0(True), stable=False, timeout_ms=5000)
add_lsb0('bitarray_.BitArray.rol', custom=_rot_lsb0(False), stable=False, timeout_ms=5000)


# reads: the value is the interpretation, in stored order, of the bits at lsb0 positions [pos, pos+L)
def _read_lsb0(advance):
    from .streams import _read_core

    def f(C, self, fmt):
        sm = mk_bits(C, self.cls, rev(bits(self)), pos=self.attrs['_pos'])
        r = _read_core(C, sm, fmt, advance)
        self.attrs['_pos'] = sm.attrs['_pos']
        return r
    return f


# ---- construction from external sources: offset/length address the *source* (a file or buffer position), so the window is
# ---- the same whatever the bit-numbering option says (Bits(bytes=..., offset=k) already uses getslice_msb0 explicitly)
from . import sources as _sources  # noqa: E402  (registers the source contracts first)
for _q in ('bits.Bits._setbytes_with_truncation', 'bits.Bits._setbitarray', 'bits.Bits._setfile', 'bits.Bits._setauto'):
    add_lsb0(_q, custom=REGISTRY[_q].spec, extra_props={'C08'})


# ---- whole-value interpretations and encodings are identical in both modes (C12; and C18's le/be/ne relations must not depend
# ---- on the numbering option either)
from . import values as _values, floats as _floats  # noqa: E402
for _q in [f'bits.Bits._get{n}' for n in ('uint', 'int', 'uintbe', 'intbe', 'uintle', 'intle', 'hex', 'oct', 'bytes')] + \
          ['bits.Bits._getbin', 'bits.Bits._getbool', 'bits.Bits._getfloatbe', 'bits.Bits._getfloatle'] + \
          [f'bits.Bits._set{n}' for n in ('uint', 'int', 'uintbe', 'intbe', 'uintle', 'intle')]:
    if _q in REGISTRY:
        add_lsb0(_q, custom=REGISTRY[_q].spec, extra_props=set(REGISTRY[_q].props) & {'C18', 'C02'})
# the shift contracts' lsb0 shapes also serve C16 (shifts keep their direction relative to the most significant end)
for _q in ('bits.Bits.__lshift__', 'bits.Bits.__rshift__', 'bitarray_.BitArray.__ilshift__', 'bitarray_.BitArray.__irshift__',
           'bits.Bits.__and__', 'bits.Bits.__invert__'):
    for _sh in REGISTRY[_q].shapes:
        if _sh.opts.get('lsb0') and _sh.props is not None:
            _sh.props = set(_sh.props) | {'C16'}


# ---- reads in lsb0 mode: the window counted from the least significant end, interpreted as a whole value ------------------------
for _q in ('bitstream.ConstBitStream.read', 'bitstream.ConstBitStream.peek'):
    add_lsb0(_q, custom=REGISTRY[_q].spec, extra_props={'C06'})
from . import packing as _packing, streamlists as _streamlists  # noqa: E402
for _q in ('bits.Bits._read_dtype_list', 'bitstream.ConstBitStream.readlist', 'bitstream.ConstBitStream.peeklist'):
    add_lsb0(_q, custom=REGISTRY[_q].spec, extra_props={'C06', 'C05'})
for _q in ('methods.pack', 'methods.pack@bits'):
    add_lsb0(_q, custom=REGISTRY[_q].spec, extra_props={'C05'})
add_lsb0('bitarray_.BitArray.byteswap', mutates_self=True)


# ---- iteration in lsb0 mode: the bits from the least significant end, i.e. list(s) == [s[i] for i in range(len(s))] ------------------
def _iter_lsb0(C, self):
    from pyvc.interp import SeqVal
    V = rev(store_bits(self) if self.cls.name == 'BitStore' else bits(self))
    b = V.bit
    return ('gen', [SeqVal(V.n, lambda j: (b(j) if isinstance(b(j), bool) else sym.mk_bool(sym._b(b(j)))))])


for q in ('bitstore.BitStore.__iter__', 'bits.Bits.__iter__'):
    add_lsb0(q, custom=_iter_lsb0, extra_props=('C01', 'C08'))
