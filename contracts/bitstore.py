"""Sidecar contracts for /repo/bitstring/bitstore.py (no file in /repo is edited)."""
import itertools
from pyvc.contract import contract, Shape, Contract
from pyvc import sym, spec, shapes
from pyvc.sym import ite, land, lor, lnot, implies
from pyvc.spec import store_bits, slice_view, pyslice
from pyvc.extern import BA
from pyvc.shapes import m_store, r_store, STORE_STATES


def opt_int_combos(names, step_name=None):
    """all None/int combinations; a step additionally splits by sign"""
    out = []
    for combo in itertools.product(*[(None, 'int')] * len(names)):
        d = dict(zip(names, combo))
        if step_name and d[step_name] == 'int':
            for sg in ('pos', 'neg', 'zero'):
                e = dict(d)
                e[step_name] = sg
                out.append(e)
        else:
            out.append(d)
    return out


def combo_name(d):
    return ','.join(f'{k}={v}' for k, v in d.items())


def mk_opt(S, name, kind):
    if kind is None:
        return None
    if kind == 'zero':
        return 0                  # (a slice step of 0: ValueError in every mode)
    v = S.int(name)
    if S.values is None:
        if kind == 'pos':
            S.assume(v > 0)
        elif kind == 'neg':
            S.assume(v < 0)
    return v


def rv(vals, name, kind):
    if kind == 'zero':
        return 0
    return None if kind is None else vals[name]


# ---------------------------------------------------------------------------------------
# indices(s, length): slice.indices made idempotent under slice(*result)
# ---------------------------------------------------------------------------------------
def _indices_shapes():
    out = []
    for d in opt_int_combos(['start', 'stop', 'step'], 'step'):
        def build(S, interp, d=d):
            s = slice(mk_opt(S, 'start', d['start']), mk_opt(S, 'stop', d['stop']), mk_opt(S, 'step', d['step']))
            n = S.int('length')
            S.assume(n >= 0)
            return [s, n], {}

        def real(vals, d=d):
            return [slice(rv(vals, 'start', d['start']), rv(vals, 'stop', d['stop']), rv(vals, 'step', d['step'])),
                    vals['length']], {}
        out.append(Shape(combo_name(d), build, real))
    return out


@contract('bitstore.indices', shapes=_indices_shapes(), props={'C12'}, kind='internal', relational=True,
          note="slice(*indices(s, n)) selects exactly the positions s selects on a length-n sequence, "
               "and the triple is in canonical (in-range) form")
def indices_post(C, args, kwargs, out):
    s, n = args
    if isinstance(s.step, int) and s.step == 0:
        yield ('zero-step-raises-ValueError', out.kind == 'exc' and out.value.cls.is_subclass(C.interp.builtins['ValueError']))
        return
    if out.kind == 'exc':
        yield ('raises', False, f'unexpected {out.value.cls.name}')
        return
    a, b, c = out.value
    f0, c0, s0 = pyslice(C, n, s.start, s.stop, s.step)
    f1, c1, s1 = pyslice(C, n, a, b, c)
    yield ('same-count', sym.eq(c0, c1))
    yield ('same-first', implies(c0 > 0, sym.eq(f0, f1)))
    yield ('same-step', sym.eq(s0, s1))
    yield ('canonical-start', land(a >= -1, a <= n))
    yield ('canonical-stop', True if b is None else land(b >= 0, b <= n))


# ---------------------------------------------------------------------------------------
# offset_slice_indices_lsb0(key, length): the C12 mirror law on (first, count, step)
# ---------------------------------------------------------------------------------------
@contract('bitstore.offset_slice_indices_lsb0', shapes=_indices_shapes(), props={'C12'}, kind='public', relational=True,
          note="the returned slice selects, on a length-n sequence, exactly the mirrored positions "
               "n-1-p of the positions p that key selects, in mirrored order (same step sign)")
def offset_post(C, args, kwargs, out):
    key, n = args
    if isinstance(key.step, int) and key.step == 0:
        yield ('zero-step-raises-ValueError', out.kind == 'exc' and out.value.cls.is_subclass(C.interp.builtins['ValueError']))
        return
    if out.kind == 'exc':
        yield ('raises', False, f'unexpected {out.value.cls.name}')
        return
    r = out.value
    f0, c0, s0 = pyslice(C, n, key.start, key.stop, key.step)
    f1, c1, s1 = pyslice(C, n, r.start, r.stop, r.step)
    last0 = f0 + (c0 - 1) * s0
    yield ('mirror-count', sym.eq(c0, c1))
    yield ('mirror-first', implies(c0 > 0, sym.eq(f1, n - 1 - last0)))
    yield ('mirror-step', sym.eq(s0, s1))


# ---------------------------------------------------------------------------------------
# BitStore accessors under every representation state (C01, C08)
# ---------------------------------------------------------------------------------------
def _store_shapes(extra=lambda S, d: [], extra_real=lambda vals, d: [], combos=({},), states=STORE_STATES):
    out = []
    for st in states:
        for d in combos:
            def build(S, interp, st=st, d=d):
                return [m_store(S, interp, 'self', st)] + extra(S, d), {}

            def real(vals, st=st, d=d):
                return [r_store(vals, 'self', st)] + extra_real(vals, d), {}
            nm = st + ('/' + combo_name(d) if d else '')
            out.append(Shape(nm, build, real))
    return out


@contract('bitstore.BitStore.__len__', shapes=_store_shapes(), props={'C01', 'C08'}, kind='internal')
def store_len(C, self):
    return store_bits(self).n


@contract('bitstore.BitStore.getindex_msb0',
          shapes=_store_shapes(lambda S, d: [S.int('index')], lambda v, d: [v['index']]),
          props={'C01', 'C08'}, kind='public',
          note="s[i] is bit i of the logical content (negative i from the logical end); IndexError outside [-n, n)")
def getindex_msb0(C, self, index):
    V = store_bits(self)
    return sym.mk_bool(sym._b(spec.index_view(C, V, index))) if sym.is_sym(index) or True else None


_slice_combos = opt_int_combos(['start', 'stop'])
_step_combos = opt_int_combos(['start', 'stop', 'step'], 'step')


@contract('bitstore.BitStore.getslice_msb0',
          shapes=_store_shapes(lambda S, d: [mk_opt(S, 'start', d['start']), mk_opt(S, 'stop', d['stop'])],
                               lambda v, d: [rv(v, 'start', d['start']), rv(v, 'stop', d['stop'])], _slice_combos),
          props={'C01', 'C08'}, kind='internal')
def getslice_msb0(C, self, start, stop):
    return spec.mk_store(C, slice_view(C, store_bits(self), slice(start, stop, None)))


@contract('bitstore.BitStore.getslice_withstep_msb0',
          shapes=_store_shapes(lambda S, d: [slice(mk_opt(S, 'start', d['start']), mk_opt(S, 'stop', d['stop']),
                                                   mk_opt(S, 'step', d['step']))],
                               lambda v, d: [slice(rv(v, 'start', d['start']), rv(v, 'stop', d['stop']),
                                                   rv(v, 'step', d['step']))], _step_combos),
          props={'C01', 'C08'}, kind='public',
          note="a fresh in-memory store holding exactly seq[key] of the logical content")
def getslice_withstep_msb0(C, self, key):
    return spec.mk_store(C, slice_view(C, store_bits(self), key))


@contract('bitstore.BitStore._copy', shapes=_store_shapes(), props={'C01', 'C08', 'C04'}, kind='internal',
          note="a fresh mutable in-memory store with the logical content")
def store__copy(C, self):
    return spec.mk_store(C, store_bits(self))


@contract('bitstore.BitStore.tobytes', shapes=_store_shapes(), props={'C08', 'C17'}, kind='public',
          note="ceil(n/8) bytes: the logical bits followed by zero padding")
def store_tobytes(C, self):
    V = store_bits(self)
    nbytes = (V.n + 7) // 8
    from pyvc.extern import BBytes, _sel2b
    a, n = V.bit, V.n
    return BBytes(nbytes, lambda i: _sel2b(i < n, a, i))


# ---------------------------------------------------------------------------------------
# concatenation, copy, comparison, counting, bit-wise operators (C01, C08, C13, C16)
# ---------------------------------------------------------------------------------------
def _two_store_shapes(self_states=STORE_STATES, other_states=STORE_STATES, alias=True):
    out = []
    for a in self_states:
        for b in other_states:
            def build(S, interp, a=a, b=b):
                return [m_store(S, interp, 'self', a), m_store(S, interp, 'other', b)], {}

            def real(vals, a=a, b=b):
                return [r_store(vals, 'self', a), r_store(vals, 'other', b)], {}
            out.append(Shape(f'{a}+{b}', build, real))
        if alias:
            def build(S, interp, a=a):
                s = m_store(S, interp, 'self', a)
                return [s, s], {}

            def real(vals, a=a):
                s = r_store(vals, 'self', a)
                return [s, s], {}
            out.append(Shape(f'{a}+self', build, real))
    return out


@contract('bitstore.BitStore.__iadd__', shapes=_two_store_shapes(self_states=('plain',)), props={'C01', 'C03', 'C08'},
          kind='internal', note="in-place append of the *logical* content of other; returns self")
def store_iadd(C, self, other):
    V = spec.cat(store_bits(self), store_bits(other))
    self.attrs['_bitarray']._write(C.interp, V.n, V.bit)
    return self


@contract('bitstore.BitStore.__add__', shapes=_two_store_shapes(), props={'C01', 'C08'}, kind='internal',
          note="a fresh store holding the logical content of self followed by that of other; operands unchanged")
def store_add(C, self, other):
    return spec.mk_store(C, spec.cat(store_bits(self), store_bits(other)))


@contract('bitstore.BitStore.__eq__', shapes=_two_store_shapes(), props={'C08', 'C13'}, kind='public',
          note="stores are equal iff their logical contents are (same length, same bits)")
def store_eq(C, self, other):
    from pyvc.extern import view_eq
    return view_eq(store_bits(self), store_bits(other))


def _bitop(op):
    def f(C, self, other):
        V, W = store_bits(self), store_bits(other)
        if sym.truth(lnot(sym.eq(V.n, W.n))):
            C.throw('ValueError')
        return spec.mk_store(C, spec.pointwise(op, V, W))
    return f


for _op in ('and', 'or', 'xor'):
    contract(f'bitstore.BitStore.__{_op}__', shapes=_two_store_shapes(), props={'C08', 'C16'}, kind='public',
             note=f"per-bit {_op} of the logical contents of equal length; ValueError otherwise; operands unchanged")(_bitop(_op))


def _ibitop(op):
    def f(C, self, other):
        V, W = store_bits(self), store_bits(other)
        if sym.truth(lnot(sym.eq(V.n, W.n))):
            C.throw('ValueError')
        R = spec.pointwise(op, V, W)
        self.attrs['_bitarray']._write(C.interp, R.n, R.bit)
        return self
    return f


for _op in ('and', 'or', 'xor'):
    contract(f'bitstore.BitStore.__i{_op}__', shapes=_two_store_shapes(self_states=('plain',)), props={'C03', 'C08', 'C16'},
             kind='internal', note=f"in-place per-bit {_op}; ValueError (and self unchanged) for unequal lengths")(_ibitop(_op))


@contract('bitstore.BitStore.count', shapes=_store_shapes(lambda S, d: [d['v']], lambda v, d: [d['v']], [{'v': 0}, {'v': 1}]),
          props={'C07', 'C08'}, kind='public', note="number of bits equal to value within the logical length")
def store_count(C, self, value):
    from pyvc.extern import count_ones
    V = store_bits(self)
    c = count_ones(V)
    return c if value else V.n - c


@contract('bitstore.BitStore.any_set', shapes=_store_shapes(), props={'C07', 'C08'}, kind='public')
def store_any(C, self):
    from pyvc.extern import any_set
    return any_set(store_bits(self))


@contract('bitstore.BitStore.all_set', shapes=_store_shapes(), props={'C07', 'C08'}, kind='public')
def store_all(C, self):
    from pyvc.extern import all_set
    return all_set(store_bits(self))


@contract('bitstore.BitStore.copy', shapes=_store_shapes(), props={'C04', 'C08'}, kind='internal', relational=True,
          note="an immutable store may be shared (returns self); a mutable one is copied to a fresh store")
def store_copy_post(C, args, kwargs, out):
    self = args[0]
    if out.kind == 'exc':
        yield ('raises', False, out.value.cls.name)
        return
    r = out.value
    if self.attrs['immutable']:
        yield ('shared-iff-immutable', r is self)
    else:
        yield ('fresh', r is not self and r.attrs['_bitarray'] is not self.attrs['_bitarray'])
        from pyvc.contract import Goals, same
        g = Goals()
        same(r, spec.mk_store(C, store_bits(self)), 'result', g)
        for it in g.items:
            yield it
