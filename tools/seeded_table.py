#!/usr/bin/env python3
"""Prints the markdown table of DESIGN.md section 0.5 from seeded/*/meta.json and scratch/seeded_results_final.txt."""
import glob, json, os, re
root = os.path.dirname(os.path.dirname(os.path.abspath(__file__)))
res = {}
p = os.path.join(root, 'scratch', 'seeded_results_final.txt')
if os.path.exists(p):
    for line in open(p):
        m = re.match(r'(\S+) property=(\S+) violations=(\d+) \(of which no-failing-input-found=(\d+)\) checker-errors=(\d+)', line)
        if m:
            res[m.group(1)] = (int(m.group(3)), int(m.group(4)), int(m.group(5)))
print('| change | what was changed | needs | VIOLATION lines (own property check) | deciding obligation / how it was missed first |')
print('|---|---|---|---|---|')
for d in sorted(glob.glob(os.path.join(root, 'seeded', '*', 'meta.json'))):
    name = os.path.basename(os.path.dirname(d))
    m = json.load(open(d))
    r = res.get(name)
    cell = '?' if r is None else (f'{r[0]}' + (f' ({r[1]} without input)' if r[1] else ''))
    clean = lambda t: t.replace('|', '\\|').replace('\n', ' ')
    print(f"| {name} | {clean(m['change'])} | {clean(m['needs_to_manifest'])} | {cell} | {clean(m.get('detected_by', ''))} |")
