"""C18: struct-code formats match struct/array; endian forms relate by byte reversal.

E (complete enumeration): every code x prefix of the replacement tables against struct.calcsize; parse_single_struct_token
and structparser against the tables for counts 1..12.  P: le = byterev(be) and ne = le|be per sys.byteorder are contracts on
intle2bitstore / Bits._get*le / the alias table (contracts/values.py, checked here through the cone).  B: value compatibility with
struct / array for boundary values (bounded differential)."""
import array
import itertools
import random
import struct
import sys

META = {'explanation': 'tables: complete enumeration against struct.calcsize; endian laws: proved contracts; value compatibility: bounded differential'}
EXTRA_TASKS = ['tables', 'differential', 'struct_token_factors']
CODES = 'bBhHlLiIqQefd'


def _ob(oid, ok, witness=None):
    d = {'id': oid, 'backend': 'enum', 'kind': 'public', 'verdict': 'proved' if ok else 'refuted', 'qualname': oid.split('/')[1],
         'shape': oid.split('/')[-1], 'clause': ''}
    if witness:
        d['witness'] = dict(witness, reproduced=True)
    return d


def tables(tier='quick', seed=0):
    from bitstring import utils
    import bitstring
    obs = []
    evals = 0
    for prefix, table in (('>', utils.REPLACEMENTS_BE), ('<', utils.REPLACEMENTS_LE), ('=', utils.REPLACEMENTS_NE), ('@', utils.REPLACEMENTS_NE)):
        bad = None
        for c in CODES:
            evals += 1
            name, length = utils.parse_name_length_token(table[c])
            want_bits = 8 * struct.calcsize(prefix + c)
            signed = c in 'bhliq'
            isfloat = c in 'efd'
            endian = {'<': 'le', '>': 'be'}.get(prefix, 'le' if sys.byteorder == 'little' else 'be')
            ok = length == want_bits
            base = name
            if isfloat:
                ok = ok and name.startswith('float')
            else:
                ok = ok and name.startswith('int' if signed else 'uint')
            if want_bits > 8:
                ok = ok and (name.endswith(endian) or name.endswith('ne'))
            if not ok and bad is None:
                bad = {'inputs': {'prefix': prefix, 'code': c, 'token': table[c], 'struct_bits': want_bits},
                       'python': f"import bitstring, struct\nFAILS = len(bitstring.pack('{prefix}{c}', 1)) != 8 * struct.calcsize('{prefix}{c}')"}
        obs.append(_ob(f"C18/utils.REPLACEMENTS/size-kind-endianness-match-struct/prefix {prefix}", bad is None, bad))
    bad = None
    for c in CODES:
        evals += 1
        if utils.PACK_CODE_SIZE[c] != struct.calcsize('=' + c):
            bad = {'inputs': {'code': c}, 'python': "FAILS = True"}
    obs.append(_ob('C18/utils.PACK_CODE_SIZE/equals-standard-calcsize/all-codes', bad is None, bad))
    # the parsers agree with the tables
    bad = None
    for prefix in '<>=@':
        table = {'>': utils.REPLACEMENTS_BE, '<': utils.REPLACEMENTS_LE}.get(prefix, utils.REPLACEMENTS_NE)
        for c in CODES:
            evals += 1
            got = utils.parse_single_struct_token(prefix + c)
            if got != utils.parse_name_length_token(table[c]):
                bad = {'inputs': {'token': prefix + c}, 'python': "FAILS = True"}
            for count in range(1, 13):
                evals += 1
                toks = utils.preprocess_tokens(f'{prefix}{count}{c}')
                if toks != [table[c]] * count:
                    bad = {'inputs': {'token': f'{prefix}{count}{c}'}, 'python': "FAILS = True"}
        for combo in itertools.product('bHqe', repeat=2):
            evals += 1
            toks = utils.preprocess_tokens(prefix + '2' + combo[0] + combo[1])
            if toks != [table[combo[0]]] * 2 + [table[combo[1]]]:
                bad = {'inputs': {'token': prefix + '2' + ''.join(combo)}, 'python': "FAILS = True"}
    obs.append(_ob('C18/utils.structparser+parse_single_struct_token/agree-with-the-tables/all-codes-counts<=12', bad is None, bad))
    # native-endian aliases follow sys.byteorder
    bad = None
    ne = 'le' if sys.byteorder == 'little' else 'be'
    for base in ('uint', 'int', 'float', 'bfloat'):
        evals += 1
        a = bitstring.dtype_register.names[base + 'ne']
        b = bitstring.dtype_register.names[base + ne] if (base + ne) in bitstring.dtype_register.names else bitstring.dtype_register.names[base]
        if a is not b:
            bad = {'inputs': {'alias': base + 'ne'}, 'python': "FAILS = True"}
    obs.append(_ob('C18/__init__.aliases/native-endian-aliases-follow-sys.byteorder/all', bad is None, bad))
    return {'id': 'C18.tables', 'obligations': obs, 'evaluations': evals, 'exhaustive': True,
            'functions': ['utils.structparser', 'utils.parse_single_struct_token'], 'summary': f'{evals} table/parse cases'}


def differential(tier='quick', seed=0):
    import bitstring
    from bitstring import pack, Array, BitArray, Bits
    rng = random.Random(seed)
    fails = []
    evals = 0
    ints = {'b': (-128, 127), 'B': (0, 255), 'h': (-2 ** 15, 2 ** 15 - 1), 'H': (0, 2 ** 16 - 1), 'l': (-2 ** 31, 2 ** 31 - 1), 'L': (0, 2 ** 32 - 1),
            'i': (-2 ** 31, 2 ** 31 - 1), 'I': (0, 2 ** 32 - 1), 'q': (-2 ** 63, 2 ** 63 - 1), 'Q': (0, 2 ** 64 - 1)}
    fl = {'e': [0.0, -0.0, 1.5, -2.25, 6.1e-5, 5.96e-8, 65504.0, float('inf'), float('-inf')],
          'f': [0.0, -0.0, 1.5, 3.4e38, 1.4e-45, float('inf'), 1e-40], 'd': [0.0, -0.0, 1.5, 1e308, 5e-324, float('inf'), 2.2e-308]}
    for prefix in '<>=':
        for c in CODES:
            vals = ([ints[c][0], ints[c][0] + 1, -1 if ints[c][0] < 0 else 0, 0, 1, ints[c][1] - 1, ints[c][1]] if c in ints else fl[c])
            for count in (1, 2, 3):
                for _ in range(3):
                    v = [rng.choice(vals) for _ in range(count)]
                    code = prefix + (str(count) if count > 1 else '') + c
                    evals += 1
                    try:
                        want = struct.pack(code, *v)
                        got = pack(code, *v)
                        if got.bytes != want or list(got.unpack(code)) != list(struct.unpack(code, want)):
                            fails.append({'call': f'pack({code!r}, *{v})', 'python': f"import bitstring, struct\nFAILS = bitstring.pack({code!r}, *{v!r}).bytes != struct.pack({code!r}, *{v!r})"})
                    except Exception as e:
                        fails.append({'call': f'pack({code!r}, *{v})', 'observed': type(e).__name__, 'python': "FAILS = True"})
            # out of range by one must be rejected like struct
            if c in ints:
                for x in (ints[c][0] - 1, ints[c][1] + 1):
                    evals += 1
                    try:
                        pack(prefix + c, x)
                        fails.append({'call': f'pack({prefix + c!r}, {x})', 'observed': 'accepted', 'python': "FAILS = True"})
                    except ValueError:
                        pass
            # Array vs array.array / struct
            evals += 1
            v = [rng.choice(vals) for _ in range(4)]
            a = Array(prefix + c, v)
            if a.tobytes() != struct.pack(prefix + '4' + c, *v):
                fails.append({'call': f'Array({prefix + c!r}, {v}).tobytes()', 'python': "FAILS = True"})
    # array.array input: accepted only when kind and width match, and read back to the same values -- for every way of naming the
    # item format (struct code with each prefix, dtype name with each endianness): a format whose byte order differs from the
    # array's (native) one must either be refused or still read back the array's values
    n_arr = 0
    for tc in 'bBhHiIlLqQfd':
        vals = [1, 2, 3] if tc in 'bB' else ([1.5, -2.0, 3.25] if tc in 'fd' else [1, 258, 3])
        src = array.array(tc, vals)
        w = 8 * src.itemsize
        kind = 'float' if tc in 'fd' else ('int' if tc.islower() else 'uint')
        fmts = [p + tc for p in ('=', '<', '>', '@', '')] + [f'{kind}{w}', f'{kind}be{w}', f'{kind}le{w}', f'{kind}ne{w}']
        for fmt in fmts:
            for how in ('Array(fmt, src)', 'Array(fmt).extend(src)'):
                evals += 1
                n_arr += 1
                try:
                    if how == 'Array(fmt, src)':
                        a = Array(fmt, src)
                    else:
                        a = Array(fmt)
                        a.extend(src)
                except (ValueError, TypeError):
                    if fmt == '=' + tc and struct.calcsize('=' + tc) == src.itemsize:
                        fails.append({'call': f"Array('={tc}', array.array('{tc}', ...))", 'observed': 'rejected although kind and width match', 'id': 'array-width',
                                      'python': "FAILS = True"})
                    continue
                if not (a.tolist() == list(src) and a.itemsize == w):
                    fails.append({'call': f"{how} with fmt = {fmt!r}, src = array.array('{tc}', {vals})", 'observed': a.tolist(), 'expected': f'rejected or {vals}',
                                  'id': 'array-width',
                                  'python': f"import bitstring, array\nsrc = array.array('{tc}', {vals!r})\ntry:\n    a = bitstring.Array({fmt!r}, src)\n"
                                            f"    b = bitstring.Array({fmt!r}); b.extend(src)\n    FAILS = a.tolist() != {vals!r} or b.tolist() != {vals!r}\n"
                                            "except (ValueError, TypeError):\n    FAILS = False"})
    # le/be/ne relation and byteswap involution on random whole-byte data
    for _ in range(300):
        evals += 1
        nbytes = rng.randint(1, 9)
        data = bytes(rng.randrange(256) for _ in range(nbytes))
        b = Bits(bytes=data)
        r = Bits(bytes=data[::-1])
        if b.uintle != r.uintbe or b.intle != r.intbe or b.uintne != (b.uintle if sys.byteorder == 'little' else b.uintbe):
            fails.append({'call': f'Bits(bytes={data!r}) le/be/ne', 'python': "FAILS = True"})
        x = BitArray(bytes=data)
        fmt = rng.choice([0, 1, 2, nbytes, [1, 2], 'h', '<2h'])
        y = x.copy()
        try:
            n1 = y.byteswap(fmt)
            n2 = y.byteswap(fmt)
            if y != x or n1 != n2:
                fails.append({'call': f'byteswap({fmt!r}) twice on {data!r}', 'python': "FAILS = True"})
        except ValueError:
            pass
    # byteswap converts *that object* between the two encodings and nothing else: whichever way the mutable object was made from a
    # token string, the same string still denotes the original bytes afterwards
    for tok, code, val in (('uintle:32=1', '<L', 1), ('uintbe:16=258', '>H', 258), ('intle:16=-2', '<h', -2), ('floatle:32=1.5', '<f', 1.5), ('uintle:64=513', '<Q', 513)):
        want = struct.pack(code, val)
        for cls in (BitArray, bitstring.BitStream):
            for rn, make in (('cls(token)', lambda: cls(tok)), ('cls.fromstring(token)', lambda: cls.fromstring(tok)), ('cls(Bits(token))', lambda: cls(Bits(tok))),
                             ('cls() + token', lambda: cls() + tok), ('copy of Bits(token)', lambda: cls(Bits(tok)[:]))):
                evals += 1
                try:
                    a = make()
                    a.byteswap()
                    ok = a.tobytes() == want[::-1] and Bits(tok).tobytes() == want and Bits(tok).unpack(code) == [val] and cls(tok).tobytes() == want
                    obs = f'a = {a.tobytes().hex()}, Bits(token) = {Bits(tok).tobytes().hex()}'
                    if not ok:
                        a.byteswap()             # put a shared store back before going on
                except Exception as e:
                    ok = False
                    obs = type(e).__name__
                if not ok:
                    fails.append({'call': f'a = {cls.__name__} via {rn} with token {tok!r}; a.byteswap(); Bits(token)', 'observed': obs, 'expected': f'a = {want[::-1].hex()}, Bits(token) = {want.hex()}',
                                  'python': f"import bitstring\na = bitstring.{cls.__name__}.fromstring({tok!r}); a.byteswap(); b = bitstring.{cls.__name__}({tok!r}); b.byteswap()\n"
                                            f"FAILS = bitstring.Bits({tok!r}).tobytes() != bytes.fromhex('{want.hex()}')\na.byteswap()\n"})
    # Array.equals(array.array): true exactly when the items are equal -- byte-identical data under another item kind is not equal
    import array as _array
    same_width = {1: 'bB', 2: 'hH', 4: 'iIf', 8: 'qQd'}          # ('l'/'L' differ between struct's standard and array's native size)
    for _ in range(300):
        evals += 1
        w = rng.choice([1, 2, 4, 8])
        tc = rng.choice(same_width[w])
        n_items = rng.randint(0, 4)
        raw = bytes(rng.randrange(256) for _ in range(w * n_items))
        if tc in 'fd':
            raw = struct.pack('=' + tc * n_items, *[rng.choice([0.0, 1.0, -2.5, 1e10]) for _ in range(n_items)])
        src = _array.array(tc, raw)
        for tc2 in same_width[w]:
            other = _array.array(tc2, raw)
            try:
                a = Array('=' + tc, src.tolist())
                got = a.equals(other)
                want = a.tolist() == other.tolist()          # same width by construction: equal iff the *items* are equal
                ok = bool(got) == bool(want)
            except Exception:
                ok = False
                got = 'exception'
            if not ok:
                fails.append({'call': f"Array('={tc}', {src.tolist()!r}).equals(array.array('{tc2}', <same bytes>))", 'observed': got, 'expected': want,
                              'python': "import bitstring, array\n"
                                        f"raw = bytes.fromhex('{raw.hex()}')\na = bitstring.Array('={tc}', array.array('{tc}', raw).tolist())\n"
                                        f"FAILS = bool(a.equals(array.array('{tc2}', raw))) != {bool(want)}\n"})
                break
    # Array.byteswap converts between the two encodings of every whole-byte item, twice is the identity, other widths are refused
    for _ in range(200):
        evals += 1
        code, lo, hi = rng.choice([('h', -2 ** 15, 2 ** 15 - 1), ('H', 0, 2 ** 16 - 1), ('l', -2 ** 31, 2 ** 31 - 1), ('Q', 0, 2 ** 64 - 1), ('B', 0, 255)])
        vals = [rng.choice([lo, hi, 0, 1, rng.randint(lo, hi)]) for _ in range(rng.randint(0, 6))]
        tb = rng.choice(['', '', '0b1', '0b10110'])
        try:
            le = Array('<' + code, vals, trailing_bits=tb or None) if code != 'B' else Array('uint8', vals, trailing_bits=tb or None)
            be = Array('>' + code, vals, trailing_bits=tb or None) if code != 'B' else Array('uint8', vals, trailing_bits=tb or None)
            sw = Array(le.dtype, le.data)
            sw.byteswap()
            ok = sw.data.bin == be.data.bin
            sw.byteswap()
            ok = ok and sw.data.bin == le.data.bin and sw.tolist() == vals
        except Exception as e:
            ok = False
        if not ok:
            fails.append({'call': f"Array('<{code}', {vals!r}, trailing_bits={tb!r}).byteswap()", 'observed': 'not the big-endian encoding / not an involution',
                          'python': f"import bitstring\nv = {vals!r}\na = bitstring.Array('<{code}' if '{code}' != 'B' else 'uint8', v); b = bitstring.Array('>{code}' if '{code}' != 'B' else 'uint8', v)\n"
                                    "a.byteswap(); x = a.data.bin == b.data.bin; a.byteswap()\nFAILS = not (x and a.tolist() == v)\n"})
    for w in ('uint12', 'int5', 'bin3', 'bool'):
        evals += 1
        try:
            Array(w, []).byteswap()
            fails.append({'call': f"Array({w!r}).byteswap()", 'observed': 'accepted although the item is not whole bytes', 'python': "FAILS = True"})
        except ValueError:
            pass
    # native '@' sizes (alignment-free single codes)
    native = []
    for c in CODES:
        evals += 1
        try:
            if len(pack('@' + c, 1)) != 8 * struct.calcsize('@' + c):
                native.append({'call': f"pack('@{c}', 1)", 'observed': f"{len(pack('@' + c, 1))} bits", 'expected': f"{8 * struct.calcsize('@' + c)} bits",
                               'id': 'native-size',
                               'python': f"import bitstring, struct\nFAILS = len(bitstring.pack('@{c}', 1)) != 8 * struct.calcsize('@{c}')"})
        except Exception:
            pass
    out = []
    for f in (fails[:4] + native[:2]):
        out.append(f)
    bounded = [{'id': 'C18/pack+unpack+Array/differential-against-struct', 'qualname': 'methods.pack', 'shape': 'prefixes <>= ; boundary values',
                'function': 'pack/unpack/Array vs struct/array', 'bound': 'every code x prefix <>= x counts 1..3 x boundary ints / special floats',
                'evaluations': evals, 'failures': [f for f in fails if f.get('id') != 'array-width'][:3]},
               {'id': 'C18/array_.Array.extend/array.array-input-must-match-kind-and-width', 'qualname': 'array_.Array.extend', 'shape': 'typecodes',
                'function': 'Array(array.array) / Array.extend(array.array)', 'bound': '12 typecodes x 9 item formats x 2 routes', 'evaluations': n_arr, 'failures': [f for f in fails if f.get('id') == 'array-width'][:2]},
               {'id': 'C18/utils.REPLACEMENTS_NE/native-prefix-@-uses-native-sizes', 'qualname': 'utils.structparser', 'shape': 'native @',
                'function': "pack('@x')", 'bound': '13 codes', 'evaluations': 13, 'failures': native[:2]}]
    return {'id': 'C18.differential', 'obligations': [], 'bounded': bounded, 'evaluations': evals, 'summary': f'{evals} differential cases'}


def struct_token_factors(tier='quick', seed=0):
    """'k*<hB' and '<2h' style tokens against struct.pack for every prefix: counts multiply a code, factors repeat the group (bounded)"""
    import random
    import re
    import struct
    from bitstring import pack
    rng = random.Random(seed)
    ranges = {'b': (-128, 127), 'B': (0, 255), 'h': (-2 ** 15, 2 ** 15 - 1), 'H': (0, 2 ** 16 - 1), 'l': (-2 ** 31, 2 ** 31 - 1), 'L': (0, 2 ** 32 - 1),
              'q': (-2 ** 63, 2 ** 63 - 1), 'Q': (0, 2 ** 64 - 1), 'e': None, 'f': None, 'd': None}
    fails = []
    evals = 0
    for _ in range(600 if tier == 'quick' else 10000):
        evals += 1
        prefix = rng.choice('<>=')
        codes = ''.join(rng.choice('bBhHlLqQefd') for _ in range(rng.randint(1, 3)))
        counted = ''.join((str(rng.randint(2, 3)) if rng.random() < 0.25 else '') + c for c in codes)
        flat = ''.join(m.group(2) * int(m.group(1) or 1) for m in re.finditer(r'(\d*)([bBhHlLqQefd])', counted))
        k = rng.choice([1, 2, 2, 3])
        spelled = rng.choice([f'{k}*{prefix}{counted}', f'{k}*({prefix}{counted})', ', '.join([prefix + counted] * k)])
        vals = [rng.choice([0.0, 1.5, -2.0, 1024.0]) if ranges[c] is None else rng.choice([ranges[c][0], ranges[c][1], 0, 1, rng.randint(*ranges[c])]) for c in flat * k]
        want = struct.pack(prefix + flat * k, *vals)
        try:
            got = pack(spelled, *vals)
            ok = got.tobytes() == want and got.unpack(spelled) == vals
        except Exception:
            ok = False
        if not ok:
            fails.append({'call': f'pack({spelled!r}, *{vals!r})', 'expected': f'struct.pack({prefix + flat * k!r}, ...)',
                          'python': f"import bitstring, struct\nv = {vals!r}\ntry:\n    FAILS = bitstring.pack({spelled!r}, *v).tobytes() != struct.pack({prefix + flat * k!r}, *v)\nexcept Exception:\n    FAILS = True"})
            if len(fails) > 4:
                break
    return {'id': 'C18.factors', 'obligations': [], 'evaluations': evals,
            'bounded': [{'id': 'C18/utils.preprocess_tokens/struct-tokens-with-counts-and-factors', 'qualname': 'utils.preprocess_tokens', 'shape': 'random struct tokens',
                         'function': 'pack / unpack of struct-style tokens', 'bound': '600 random tokens (10000 thorough)', 'evaluations': evals, 'failures': fails[:3]}],
            'summary': f'{evals} tokens, {len(fails)} failures'}
