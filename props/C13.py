"""C13 extras: == / != against every kind of promotable and non-promotable operand the interpreter's model does not cover
(memoryviews incl. non-contiguous ones, array.array, little-endian bitarrays, iterables, file-like objects), natively."""
import random

META = {'explanation': '__eq__/__ne__/__hash__ contracts proved over the four classes and the modelled operand kinds; plus a bounded native '
                       'sweep over the remaining operand kinds.'}
EXTRA_TASKS = ['eq_operand_kinds', 'bitarray_endianness', 'hash_stable_under_aliasing']


def _eq_case(seed, i):
    import array
    import io
    import bitarray
    import bitstring
    from bitstring import Bits, BitArray, ConstBitStream, BitStream
    rng = random.Random(seed * 1000003 + i)
    n = rng.choice([0, 8, 16, 24, 32, 64, rng.randint(0, 80)])
    s = ''.join(rng.choice('01') for _ in range(n))
    cls = rng.choice([Bits, BitArray, ConstBitStream, BitStream])
    a = cls(bin=s) if s else cls()
    same = rng.random() < 0.6
    t = s if same else ''.join(rng.choice('01') for _ in range(rng.choice([n, n, max(0, n - 8), n + 8])))
    whole = len(t) % 8 == 0
    tb = int(t, 2).to_bytes(len(t) // 8, 'big') if (whole and t) else b''
    kinds = ['bin str', 'list of bools', 'tuple of ints', 'generator', 'bitarray big', 'bitarray little', 'int', 'huge int', 'float', 'None', 'object']
    if whole:
        kinds += ['bytes', 'bytearray', 'memoryview', 'memoryview strided', 'memoryview reversed', 'array.array', 'BytesIO', 'hex str']
    kind = rng.choice(kinds)
    promotable = kind not in ('int', 'huge int', 'float', 'None', 'object')

    def make():
        # a fresh operand of the chosen kind denoting t
        if kind == 'bin str':
            rhs = '0b' + t if t else ''
        elif kind == 'hex str':
            rhs = '0x' + tb.hex() if tb else ''
        elif kind == 'list of bools':
            rhs = [c == '1' for c in t]
        elif kind == 'tuple of ints':
            rhs = tuple(int(c) for c in t)
        elif kind == 'generator':
            rhs = (c == '1' for c in t)
        elif kind == 'bitarray big':
            rhs = bitarray.bitarray(t)
        elif kind == 'bitarray little':
            rhs = bitarray.bitarray(t, endian='little')
        elif kind == 'bytes':
            rhs = tb
        elif kind == 'bytearray':
            rhs = bytearray(tb)
        elif kind == 'memoryview':
            rhs = memoryview(tb)
        elif kind == 'memoryview strided':
            raw = bytes(b for x in tb for b in (x, 0xa5))       # every second byte is the data
            rhs = memoryview(raw)[::2]
        elif kind == 'memoryview reversed':
            rhs = memoryview(tb[::-1])[::-1]
        elif kind == 'array.array':
            rhs = array.array('B', tb)
        elif kind == 'BytesIO':
            rhs = io.BytesIO(tb)
        else:
            rhs = {'int': 5, 'huge int': rng.choice([10 ** 5000, -(10 ** 5000), 1 << 70]), 'float': 1.5, 'None': None, 'object': object()}[kind]
        return rhs
    rhs = make()
    history = ''
    if promotable and rng.random() < 0.4:
        # how either side was built must not matter: a mutable bitstring built earlier from an equal operand and then changed in
        # place (a memoised or shared store would carry the change into later promotions of the same operand)
        try:
            twin = rng.choice([BitArray, BitStream])(make())
            if len(twin):
                twin.invert()
            twin.append('0b1')
        except Exception as ex:
            return False, f"a mutable bitstring cannot be built from a {kind} denoting {t!r}: {type(ex).__name__}: {ex}"
        history = ' (after a mutable bitstring built from an equal operand was inverted and appended to)'
    want = promotable and s == t
    desc = f"{cls.__name__}(bin={s!r}) ==/!= {kind} denoting {t!r}{history}"
    try:
        e1 = a == rhs
        if kind in ('generator', 'BytesIO'):
            rhs = make()
        n1 = a != rhs
        ok = e1 is want and n1 is (not want)
        if kind not in ('generator', 'BytesIO', 'list of bools', 'tuple of ints'):
            ok = ok and (rhs == a) is want             # reflected dispatch
        if not ok:
            desc += f": == gave {e1!r}, != gave {n1!r}, expected {want}"
    except Exception as ex:
        ok = False
        desc += f": raised {type(ex).__name__}: {ex}"
    return ok, desc


def eq_operand_kinds(tier='quick', seed=0):
    fails = []
    N = 1500 if tier == 'quick' else 30000
    for i in range(N):
        ok, desc = _eq_case(seed, i)
        if not ok:
            fails.append({'call': desc[:220], 'python': "import sys\nsys.path.insert(0, '/verif')\nfrom props.C13 import _eq_case\n"
                                                       f"ok, desc = _eq_case({seed}, {i})\nprint(desc)\nFAILS = not ok\n"})
            if len(fails) > 5:
                break
    return {'id': 'C13.operands', 'obligations': [], 'evaluations': N,
            'bounded': [{'id': 'C13/bits.Bits.__eq__/operand-kinds-outside-the-model', 'qualname': 'bits.Bits.__eq__', 'shape': 'random contents x operand kinds',
                         'function': '== and != against str/bytes/bytearray/memoryview (strided, reversed)/array.array/bitarray (both endiannesses)/iterables/BytesIO and non-promotable objects',
                         'bound': f'{N} random (content, operand kind) cases', 'evaluations': N, 'failures': fails[:3]}],
            'summary': f'{N} cases, {len(fails)} failures'}


def bitarray_endianness(tier='quick', seed=0):
    """(shared with C08) objects built from little-endian bitarrays are == to the same bits built otherwise: they must hash alike"""
    from props import C08
    r = C08.bitarray_endianness(tier, seed)
    for b in r.get('bounded', []):
        b['id'] = b['id'].replace('C08/', 'C13/')
    r['id'] = 'C13.endianness'
    return r


def hash_stable_under_aliasing(tier='quick', seed=0):
    """(shared with C20) an immutable Bits / ConstBitStream used to build or assign into a mutable object keeps its value and hash
    whatever is then done to that object: the sequences fuzzer of C20, whose watch list checks exactly this, run under C13"""
    from props import C20
    r = C20.sequences(tier, seed + 13)
    for b in r.get('bounded', []):
        b['id'] = b['id'].replace('C20/', 'C13/')
    r['id'] = 'C13.aliasing'
    return r
