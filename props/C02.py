"""C02 extras: every creation route of every registered dtype reaches the same bits (bounded, native, over the real dtype register),
including the routes the contracts do not cover one by one: a length written into the keyword name (uint8=, bytes2=), struct-style
codes, Dtype('nameL') spellings."""
import random

META = {'explanation': 'integer / string / float rows proved per route on symbolic values and lengths (floats relative to struct); plus a bounded native '
                       'sweep of route agreement over the whole dtype register.'}
EXTRA_TASKS = ['route_agreement', 'creation_routes_isolation']


def _route_case(seed, i):
    import struct
    import sys
    import bitstring
    from bitstring import Bits, BitArray, BitStream, ConstBitStream, Dtype, pack
    from bitstring.dtypes import dtype_register
    from props.C04 import _sample_values
    rng = random.Random(seed * 1000003 + i)
    names = sorted(n for n, d in dtype_register.names.items() if n != 'pad' and d.set_fn is not None)
    name = rng.choice(names)
    defn = dtype_register.names[name]
    value, L = rng.choice(_sample_values(defn, rng))
    cls = rng.choice([Bits, BitArray, ConstBitStream, BitStream])
    one_len = bool(defn.allowed_lengths) and defn.allowed_lengths.only_one_value()
    kw = {name: value}
    if L is not None and name != 'bytes':
        kw['length'] = L                      # (for bytes=, length= is a window in bits, not the item count)
    try:
        ref = cls(**kw).bin
    except ValueError:
        ref = 'ValueError'
    routes = {}
    if L is not None and not one_len:
        routes['keyword with the length in its name'] = lambda: cls(**{f'{name}{L}': value}).bin
        routes["Dtype('nameL').build"] = lambda: Dtype(f'{name}{L}').build(value).bin
        routes["pack('nameL')"] = lambda: pack(f'{name}{L}', value).bin
        routes["pack('name:L')"] = lambda: pack(f'{name}:{L}', value).bin
        if not isinstance(value, (bytes, Bits)):
            routes['format string'] = lambda: cls(f'{name}:{L}={value}').bin
        routes['property on a sized object'] = lambda: _assign(BitArray(length=L * (defn.multiplier or 1)), name, value).bin
        routes.pop('format string', None) if name == 'bytes' else None
        routes['property with the length in its name'] = lambda: _assign(BitArray(), f'{name}{L}', value).bin
    routes['Dtype(name, L).build'] = lambda: (Dtype(name, L) if L is not None else Dtype(name)).build(value).bin
    if L is None:
        routes["pack('name')"] = lambda: pack(name, value).bin
    # struct-style codes name the same encodings
    codes = {('intbe', 16): '>h', ('uintbe', 16): '>H', ('intle', 32): '<l', ('uintle', 64): '<Q', ('intbe', 8): '>b', ('floatbe', 32): '>f', ('floatle', 64): '<d',
             ('floatbe', 16): '>e', ('floatle', 16): '<e'}
    ne = sys.byteorder
    codes.update({('intne', 16): '=h', ('uintne', 32): '=L', ('floatne', 16): '=e', ('floatne', 32): '=f', ('floatne', 64): '=d', ('intne', 64): '=q'})
    if (name, L) in codes:
        code = codes[(name, L)]
        routes[f"pack({code!r})"] = lambda: pack(code, value).bin
        if ref != 'ValueError':
            routes[f"struct.pack({code!r})"] = lambda: ''.join(format(b, '08b') for b in struct.pack(code, value))
    bad = []
    for rn, f in routes.items():
        try:
            got = f()
        except OverflowError:
            got = ref if rn.startswith('struct.pack') else 'OverflowError'      # (struct refuses what bitstring maps to infinity: not comparable)
        except (ValueError, struct.error):
            got = 'ValueError'
        except Exception as e:
            got = type(e).__name__
        if got != ref:
            bad.append((rn, got[:40]))
    # ... and every interpretation route reads the same value back from those bits (the same format string is reused with other
    # keyword lengths from case to case, as a program would)
    if ref != 'ValueError' and L is not None and not one_len and defn.get_fn is not None:
        x = cls(bin=ref) if ref else cls()
        want = repr(getattr(x, name))
        readers = {'Dtype(name, L).parse': lambda: Dtype(name, L).parse(x),
                   "unpack('name:L')": lambda: x.unpack(f'{name}:{L}')[0],
                   "unpack('name:n', n=L)": lambda: x.unpack(f'{name}:n', n=L)[0],
                   "unpack('name:n, bits', n=L)": lambda: x.unpack(f'{name}:n, bits', n=L)[0],
                   "ConstBitStream.read('name:L')": lambda: ConstBitStream(x).read(f'{name}:{L}'),
                   "ConstBitStream.readlist('name:n', n=L)": lambda: ConstBitStream(x).readlist(f'{name}:n', n=L)[0],
                   "ConstBitStream.peeklist(['name:n'], n=L)": lambda: ConstBitStream(x).peeklist([f'{name}:n'], n=L)[0]}
        for rn, f in readers.items():
            try:
                got = repr(f())
            except Exception as e:
                got = type(e).__name__
            if got != want:
                bad.append((rn, f'{got[:40]} instead of {want[:40]}'))
    return not bad, f"{cls.__name__}({name}={value!r}, length={L}) is {ref[:40]!r} but {bad[:3]}"


def _assign(x, n, v):
    setattr(x, n, v)
    return x


def route_agreement(tier='quick', seed=0):
    fails = []
    N = 5000 if tier == 'quick' else 80000
    seen = set()
    for i in range(N):
        ok, desc = _route_case(seed, i)
        if not ok:
            key = desc.split('(')[1].split('=')[0] + desc.split('but')[1][:30]
            if key in seen:
                continue
            seen.add(key)
            fails.append({'call': desc[:260], 'python': "import sys\nsys.path.insert(0, '/verif')\nfrom props.C02 import _route_case\n"
                                                       f"ok, desc = _route_case({seed}, {i})\nprint(desc)\nFAILS = not ok\n"})
            if len(fails) > 8:
                break
    return {'id': 'C02.routes', 'obligations': [], 'evaluations': N,
            'bounded': [{'id': 'C02/dtypes.dtype_register/creation-routes-agree', 'qualname': 'dtypes.Register', 'shape': 'every registered dtype x routes',
                         'function': 'keyword (length= or in the name), property, format string, pack, Dtype.build, struct codes; property / parse / read / unpack / readlist (literal and keyword lengths) back', 'bound': f'{N} random (dtype, value, length, class) cases',
                         'evaluations': N, 'failures': fails[:6]}],
            'summary': f'{N} cases, {len(fails)} distinct failures'}


def creation_routes_isolation(tier='quick', seed=0):
    """(shared with C04) every creation route of every registered dtype still gives the canonical encoding after an object made by the same route and value has been changed in place (a shared or memoised store would make the routes disagree from then on)"""
    from props import C04
    r = C04.dtype_routes_isolation(tier, seed)
    for b in r.get('bounded', []):
        b['id'] = b['id'].replace('C04/', 'C02/')
    r['id'] = 'C02.isolation'
    return r
