import argparse
import json
import os
import sys

ROOT = os.path.dirname(os.path.dirname(os.path.abspath(__file__)))


def main(argv=None):
    ap = argparse.ArgumentParser(prog='vf')
    sub = ap.add_subparsers(dest='cmd', required=True)
    c = sub.add_parser('check')
    c.add_argument('prop')
    c.add_argument('--tier', default=os.environ.get('VERIF_TIER', 'quick'), choices=['quick', 'thorough'])
    c.add_argument('--seed', type=int, default=int(os.environ.get('VERIF_SEED', '0') or 0))
    c.add_argument('--jobs', type=int, default=None)
    c.add_argument('--only', default=None)
    c.add_argument('--write-baseline', action='store_true')
    r = sub.add_parser('replay')
    r.add_argument('path')
    l = sub.add_parser('list')
    l.add_argument('prop', nargs='?')
    sm = sub.add_parser('summary')
    sm.add_argument('prop')
    a = ap.parse_args(argv)
    os.chdir(ROOT)
    sys.path.insert(0, ROOT)
    from . import runner
    if a.cmd == 'check':
        return runner.run_check(a.prop, a.tier, a.seed, a.jobs, a.only, a.write_baseline)
    if a.cmd == 'list':
        runner.load_contracts()
        from . import contract as C
        for q, c in C.REGISTRY.items():
            if a.prop and a.prop not in c.props:
                continue
            print(f'{q:55s} {c.kind:9s} shapes={len(c.shapes):3d} props={sorted(c.props)}')
        return 0
    if a.cmd == 'replay':
        return replay_file(a.path)
    if a.cmd == 'summary':
        import glob, collections
        d = collections.defaultdict(list)
        for p in sorted(glob.glob(os.path.join(ROOT, 'replays', a.prop + '-*.json'))):
            j = json.load(open(p))
            r = j['replay']
            d[r.get('qualname', j['obligation'])].append(r)
        for k, v in d.items():
            r = v[0]
            shapes = sorted({x.get('shape', '?') for x in v})
            print(f"{k}: {len(v)} shapes e.g. [{r.get('shape')}] {r.get('clause')} in={json.dumps(r.get('inputs'))[:90]} "
                  f"real={json.dumps(r.get('real_outcome'))[:50]} spec={json.dumps(r.get('spec_outcome'))[:50]} {r.get('failed_clauses') or ''} {r.get('reason') or ''}")
            print('      shapes:', ' | '.join(shapes)[:300])
        return 0


def replay_file(path):
    from . import runner, replay, contract as C
    runner.load_contracts()
    d = json.load(open(path))
    rep = d['replay']
    if 'python' in rep:
        ns = {}
        exec(rep['python'], ns)
        fails = bool(ns.get('FAILS'))
        print(('REPRODUCED' if fails else 'NOT-REPRODUCED') + f" obligation={d['obligation']}")
        return 1 if fails else 0
    c = C.REGISTRY.get(rep.get('qualname'))
    if c is None or not rep.get('inputs'):
        print(f"NO-INPUT obligation={d['obligation']} (the verifier produced no failing input; solver output is in the file)")
        return 1
    shape = next(s for s in c.shapes if s.name == rep['shape'])
    info = replay.replay(runner.get_interp(), c, shape, replay.unjson_inputs(rep['inputs']))
    print(json.dumps({k: info.get(k) for k in ('qualname', 'shape', 'inputs', 'real_outcome', 'spec_outcome', 'failed_clauses', 'reproduced', 'reason')}, default=repr, indent=1))
    print(('REPRODUCED' if info.get('reproduced') else 'NOT-REPRODUCED') + f" obligation={d['obligation']}")
    return 1 if info.get('reproduced') else 0


if __name__ == '__main__':
    sys.exit(main())
