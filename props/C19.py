"""C19 bounded stand-in for the text content (string code, outside the prover): str/repr round trips and pp() layout."""
import io
import random
import re

META = {'explanation': 'str()/repr() proved never to raise for any length (branch partition, hex pieces multiples of 4); round trips '
                       'and pp() layout rules are bounded checks on the real functions.'}
EXTRA_TASKS = ['roundtrips', 'pp_layout', 'array_pp']


def roundtrips(tier='quick', seed=0):
    import bitstring
    from bitstring import Bits, BitArray, ConstBitStream, BitStream, Array, Dtype
    rng = random.Random(seed)
    fails = []
    evals = 0
    lengths = list(range(0, 70)) + list(range(990, 1012)) + [1500, 4001] + ([rng.randint(70, 990) for _ in range(60)] if tier == 'quick' else list(range(70, 990)))
    for n in lengths:
        for content in ('0', '1', 'r'):
            s = {'0': '0' * n, '1': '1' * n, 'r': ''.join(rng.choice('01') for _ in range(n))}[content]
            for cls in (Bits, BitArray, ConstBitStream, BitStream):
                evals += 1
                pos = rng.randint(0, n) if cls in (ConstBitStream, BitStream) else None
                b = cls(bin=s) if n else cls()
                if pos is not None:
                    b.pos = pos
                try:
                    st, rp = str(b), repr(b)
                    if n <= 1000:
                        ok = Bits(st) == b and '...' not in st
                        e = eval(rp, {cls.__name__: cls})
                        ok = ok and type(e) is cls and e == b and (pos is None or e.pos == pos)
                    else:
                        ok = st.endswith('...') and f'length={n}' in rp
                except Exception as ex:
                    ok = False
                if not ok:
                    fails.append({'call': f'{cls.__name__}(bin of {n} bits, {content}) str/repr', 'python': "FAILS = True"})
    # file-backed objects: whatever the file is called and whichever window of it was opened, the repr evaluates back to an equal object
    import os
    import tempfile
    tmp = tempfile.mkdtemp(prefix='pyvc-c19-')
    try:
        for fname in ('plain.bin', "bob's data.bin", 'back\\slash.bin', 'sp ace.bin', 'quo"te.bin', 'new\nline.bin'):
            path = os.path.join(tmp, fname)
            raw = bytes(rng.randrange(256) for _ in range(12))
            try:
                with open(path, 'wb') as fh:
                    fh.write(raw)
            except OSError:
                continue
            for off in (None, 0, 8, 16, 13, 40):
                for ln in (None, 0, 8, 21, 96 - (off or 0)):
                    if ln is not None and ln > 96 - (off or 0):
                        continue
                    for cls in (Bits, BitArray, ConstBitStream, BitStream):
                        evals += 1
                        kw = {k: v for k, v in (('offset', off), ('length', ln)) if v is not None}
                        try:
                            b = cls(filename=path, **kw)
                            if cls in (ConstBitStream, BitStream) and len(b):
                                b.pos = rng.randint(0, len(b))
                            import warnings
                            with warnings.catch_warnings():
                                warnings.simplefilter('ignore')         # (an unescaped backslash in the repr is a SyntaxWarning before it is a wrong path)
                                e = eval(repr(b), {cls.__name__: cls})
                            ok = type(e) is cls and e == b and len(e) == len(b) and (not hasattr(b, 'pos') or e.pos == b.pos)
                            obs = repr(b)[:120]
                        except Exception as ex:
                            ok = False
                            obs = f'{type(ex).__name__}: {ex}'[:120]
                        if not ok and len(fails) < 8:
                            fails.append({'call': f'eval(repr({cls.__name__}(filename={fname!r}, {kw})))', 'observed': obs, 'expected': 'an equal object of the same class',
                                          'python': 'import os, tempfile, bitstring\n' + f"p = os.path.join(tempfile.mkdtemp(), {fname!r})\nopen(p, 'wb').write(bytes.fromhex('{raw.hex()}'))\n"
                                                    f"b = bitstring.{cls.__name__}(filename=p, **{kw!r})\ntry:\n    FAILS = eval(repr(b), {{'{cls.__name__}': bitstring.{cls.__name__}}}) != b\nexcept Exception:\n    FAILS = True\n"})
    finally:
        import shutil
        shutil.rmtree(tmp, ignore_errors=True)
    # Array.__repr__ evaluates back to an equal Array (unscaled dtypes, finite items)
    for dt, vals in (('uint8', [1, 2, 255]), ('int5', [-16, 0, 15]), ('float32', [1.5, -2.25]), ('hex4', ['a', 'f']), ('bytes2', [b'ab', b'cd']),
                     ('bool', [True, False]), ('<H', [1, 2]), ('uint8', [])):
        evals += 1
        try:
            a = Array(dt, vals)
            e = eval(repr(a), {'Array': Array, 'Dtype': Dtype, 'BitArray': BitArray})
            if not (e.equals(a) or (len(a) == 0 and len(e) == 0)):
                fails.append({'call': f'eval(repr(Array({dt!r}, {vals!r})))', 'python': "FAILS = True"})
        except Exception as ex:
            fails.append({'call': f'repr(Array({dt!r}, {vals!r}))', 'observed': type(ex).__name__, 'python': "FAILS = True"})
    for trailing in ('0b1', '0b101'):
        evals += 1
        a = Array('uint8', [1, 2], trailing_bits=trailing)
        e = eval(repr(a), {'Array': Array, 'Dtype': Dtype, 'BitArray': BitArray})
        if not (e.data == a.data):
            fails.append({'call': f'repr of Array with trailing bits {trailing}', 'python': "FAILS = True"})
    return {'id': 'C19.roundtrips', 'obligations': [], 'evaluations': evals,
            'bounded': [{'id': 'C19/bits.Bits.__str__+__repr__/round-trip', 'qualname': 'bits.Bits.__str__', 'shape': 'lengths',
                         'function': 'str/repr/Array.__repr__', 'bound': f'{len(lengths)} lengths incl. 0..69 and 990..1011 x 3 contents x 4 classes',
                         'evaluations': evals, 'failures': fails[:3]}], 'summary': f'{evals} round trips'}


ESC = re.compile(r'\x1b\[[0-9;]*m')


def pp_layout(tier='quick', seed=0):
    import bitstring
    from bitstring import Bits, BitArray
    rng = random.Random(seed)
    fails = []
    evals = 0
    bpc = {'bin': 1, 'hex': 4, 'oct': 3}
    fmts = ['bin', 'hex', 'oct']
    combos = 600 if tier == 'quick' else 8000
    saved = bitstring.options.no_color
    ragged = []
    n_ragged = 0
    try:
        for _ in range(combos):
            f1 = rng.choice(fmts)
            f2 = rng.choice(fmts + [None, None])
            if f2 == f1:
                f2 = None
            unit = bpc[f1] if f2 is None else (bpc[f1] * bpc[f2] // __import__('math').gcd(bpc[f1], bpc[f2]))
            group = rng.choice([None, 0, 1, 2, 3, 4, 6, 8]) 
            bits_per_group = None if group is None else group * unit
            n = rng.choice([0, 1, 7, 8, 12, 24, 25, 36, 100, 257])
            width = rng.choice([0, 1, 5, 20, 40, 80, 120, 200])
            sep = rng.choice([' ', '_', '', ' | '])
            show_offset = rng.random() < 0.5
            no_color = rng.random() < 0.5
            s = ''.join(rng.choice('01') for _ in range(n))
            b = Bits(bin=s) if n else Bits()
            fmt = f1 + ('' if bits_per_group is None else str(bits_per_group))
            if f2:
                fmt += ', ' + f2 + ('' if bits_per_group is None else str(bits_per_group))
            bitstring.options.no_color = no_color
            out = io.StringIO()
            evals += 1
            try:
                b.pp(fmt, width=width, sep=sep, show_offset=show_offset, stream=out)
            except ValueError as ex:
                # refused today exactly when the format has no group length (or a length of zero) and the data is not a whole number of its
                # digits; a grouped format reports the odd bits as trailing bits, and whole-digit data always prints.  The property asks for
                # the digits plus the reported trailing bits here too: recorded as its own obligation (known finding KF4 -- the behaviour is
                # pinned by tests/test_bits.py::TestPrettyPrintingErrors::test_interpret_problems), so that every *other* refusal is a failure
                if (not bits_per_group) and any(n % bpc[f] for f in (f1, f2) if f):
                    if len(ragged) < 3:
                        ragged.append({'call': f'Bits({n} bits).pp({fmt!r})', 'observed': f'{type(ex).__name__}: {ex}'[:140], 'expected': 'the whole digits, then "+ trailing_bits = ..."',
                                       'python': 'import io, bitstring\n' + f"try:\n    bitstring.Bits({n}).pp({fmt!r}, stream=io.StringIO())\n    FAILS = False\nexcept ValueError:\n    FAILS = True\n"})
                    n_ragged += 1
                    continue
                fails.append({'call': f'Bits(bin={s!r}).pp({fmt!r}, width={width}, sep={sep!r}, show_offset={show_offset})', 'observed': f'{type(ex).__name__}: {ex}'[:160],
                              'expected': 'the digits of the data (a whole number of digits of each format, or a grouped format)',
                              'python': 'import io, bitstring\n' + f"try:\n    bitstring.Bits(bin={s!r}).pp({fmt!r}, width={width}, sep={sep!r}, show_offset={show_offset}, stream=io.StringIO())\n"
                                        "    FAILS = False\nexcept ValueError:\n    FAILS = True\n"})
                continue
            except Exception as ex:
                fails.append({'call': f'Bits(bin={s!r}).pp({fmt!r}, width={width}, sep={sep!r}, show_offset={show_offset})', 'observed': type(ex).__name__,
                              'python': "FAILS = True"})
                continue
            text = out.getvalue()
            if no_color and '\x1b' in text:
                fails.append({'call': f'pp({fmt!r}) with no_color', 'observed': 'escape sequence present', 'python': "FAILS = True"})
            plain = ESC.sub('', text)
            lines = plain.split('\n')
            body = lines[1:-2] if len(lines) >= 3 else []
            # digits of the first format, in order, must equal the data digits (+ trailing bits reported)
            m = re.search(r'trailing_bits = ([^\n]+)', plain)
            trailing = Bits(m.group(1)).bin if m else ''
            data = s[:len(s) - len(trailing)] if trailing else s
            if trailing and not s.endswith(trailing):
                fails.append({'call': f'pp({fmt!r}) n={n}', 'observed': 'trailing bits do not match the end of the data', 'python': "FAILS = True"})
            usable = len(data) - len(data) % bpc[f1]
            want = {'bin': lambda d: d, 'hex': lambda d: ''.join(format(int(d[i:i + 4], 2), 'x') for i in range(0, len(d) - len(d) % 4, 4)),
                    'oct': lambda d: ''.join(format(int(d[i:i + 3], 2), 'o') for i in range(0, len(d) - len(d) % 3, 3))}[f1](data)
            got = ''
            for ln in body:
                part = ln
                if show_offset and ':' in part:
                    part = part.split(':', 1)[1]
                if f2 and ' : ' in part:
                    part = part.split(' : ')[0]
                if sep.strip() == '|':
                    part = part.replace('|', '')
                got += re.sub(r'[^0-9a-f]', '', part.replace(sep, '') if sep else part)
            if f2 is None and sep.strip() not in ('|',) and got != want and not (sep == '' and False):
                fails.append({'call': f'Bits(bin={s!r}).pp({fmt!r}, width={width}, sep={sep!r}, show_offset={show_offset})',
                              'observed': got[:60], 'expected': want[:60], 'python': "FAILS = True"})
            # width rule: a line exceeds width only if it holds a single group
            if bits_per_group:
                chars = {'bin': bits_per_group, 'hex': bits_per_group // 4, 'oct': bits_per_group // 3}[f1]
                for ln in body:
                    core = ln.rstrip()
                    if len(core) > width:
                        part = ln.split(':', 1)[1] if (show_offset and ':' in ln) else ln
                        first = part.split(' : ')[0] if f2 else part
                        ngroups = len([g for g in (first.split(sep) if sep else [first]) if g.strip()])
                        if sep and ngroups > 1:
                            fails.append({'call': f'pp({fmt!r}, width={width}, sep={sep!r}) n={n}', 'observed': f'line of {len(core)} chars with {ngroups} groups',
                                          'python': "FAILS = True"})
                            break
    finally:
        bitstring.options.no_color = saved
    return {'id': 'C19.pp', 'obligations': [], 'evaluations': evals,
            'bounded': [{'id': 'C19/bits.Bits.pp/layout', 'qualname': 'bits.Bits.pp', 'shape': 'random layouts', 'function': 'Bits.pp/_pp/_format_bits',
                         'bound': f'{combos} random (format pair, group size, width, separator, offset, colour, length) combinations',
                         'evaluations': evals, 'failures': fails[:3]},
                        {'id': 'C19/bits.Bits.pp/data-that-is-not-a-whole-number-of-digits-under-a-format-without-group-length', 'qualname': 'bits.Bits.pp@no-group-length',
                         'shape': 'ragged lengths', 'function': 'Bits.pp', 'bound': f'{n_ragged} of the random combinations', 'evaluations': n_ragged, 'failures': ragged[:2]}],
            'summary': f'{evals} pp calls, {len(fails)} failures'}


def array_pp(tier='quick', seed=0):
    """Array.pp with a format whose length differs from the item size: never an internal error; the header reports
    len(data) // L items of L bits; exactly the last len(data) % L bits are reported as trailing bits (none when it divides);
    the digits printed are those of the remaining data.  Bounded, native."""
    import io
    import re
    import bitstring
    from bitstring import Array, Bits
    rng = random.Random(seed)
    fails = []
    evals = 0
    saved = bitstring.options.no_color
    bitstring.options.no_color = True
    try:
        for _ in range(400 if tier == 'quick' else 6000):
            dt = rng.choice(['uint8', 'uint5', 'int12', 'hex4', 'bin3', 'float32', 'bool', 'uint16'])
            n_items = rng.randint(0, 9)
            a = Array(dt)
            a.data = bitstring.BitArray(bin=''.join(rng.choice('01') for _ in range(n_items * a.itemsize + rng.choice([0, 0, 1, 3]))))
            name = rng.choice(['hex', 'bin', 'oct', 'uint', 'int'])
            per = {'hex': 4, 'bin': 1, 'oct': 3, 'uint': 1, 'int': 1}[name]
            L = per * rng.randint(1, 16 // per)
            fmt = f'{name}{L}'
            evals += 1
            out = io.StringIO()
            desc = f"a = Array({dt!r}); a.data = BitArray(bin={a.data.bin!r}); a.pp({fmt!r})"
            try:
                a.pp(fmt, stream=out)
            except ValueError as e:
                fails.append({'call': desc, 'observed': f'{type(e).__name__}: {e}'[:120], 'python':
                              f"import bitstring, io\na = bitstring.Array({dt!r}); a.data = bitstring.BitArray(bin={a.data.bin!r})\ntry:\n    a.pp({fmt!r}, stream=io.StringIO())\n    FAILS = False\nexcept Exception:\n    FAILS = True\n"})
                continue
            except Exception as e:
                fails.append({'call': desc, 'observed': type(e).__name__, 'python': "FAILS = True"})
                continue
            text = out.getvalue()
            nbits = len(a.data)
            tb = nbits % L
            m = re.search(r'trailing_bits = (\S+)', text)
            got_tb = Bits(m.group(1)).bin if m else ''
            want_tb = a.data.bin[nbits - tb:] if tb else ''
            hdr = re.search(r'length=(\d+), itemsize=(\d+) bits', text)
            ok = got_tb == want_tb and hdr is not None and int(hdr.group(1)) == nbits // L and int(hdr.group(2)) == L
            if not ok:
                fails.append({'call': desc, 'observed': f'trailing {got_tb!r}, header {hdr.group(0) if hdr else None}', 'expected': f'trailing {want_tb!r}, length={nbits // L}, itemsize={L}',
                              'python': f"import bitstring, io, re\na = bitstring.Array({dt!r}); a.data = bitstring.BitArray(bin={a.data.bin!r})\nbitstring.options.no_color = True\nout = io.StringIO(); a.pp({fmt!r}, stream=out)\n"
                                        f"m = re.search(r'trailing_bits = (\\S+)', out.getvalue())\nFAILS = (bitstring.Bits(m.group(1)).bin if m else '') != {want_tb!r}\n"})
            if len(fails) > 5:
                break
    finally:
        bitstring.options.no_color = saved
    return {'id': 'C19.array_pp', 'obligations': [], 'evaluations': evals,
            'bounded': [{'id': 'C19/array_.Array.pp/format-length-differs-from-itemsize', 'qualname': 'array_.Array.pp', 'shape': 'random arrays x formats', 'function': 'Array.pp',
                         'bound': '400 random (dtype, data, format) cases (6000 thorough)', 'evaluations': evals, 'failures': fails[:3]}],
            'summary': f'{evals} Array.pp calls, {len(fails)} failures'}
