"""C15 extras: a rejected value must leave the object as it was -- for Arrays this includes in-place operators of which only some
items overflow (shared with C14)."""
META = {'explanation': 'range/length rejection proved on the setters, helpers and routes; Array in-place operators: bounded list-model differential with rollback.'}
EXTRA_TASKS = ['array_inplace_rollback']


def array_inplace_rollback(tier='quick', seed=0):
    from props import C14
    r = C14.inplace_ops(tier, seed)
    for b in r.get('bounded', []):
        b['id'] = b['id'].replace('C14/', 'C15/')
    r['id'] = 'C15.inplace'
    return r
