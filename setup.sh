#!/bin/bash
# Builds /verif/.venv offline: python 3.12 + z3-solver, cvc5, jsonschema from the
# wheelhouse, overlaid on /venv's site-packages (bitarray + the editable /repo install).
set -e
cd "$(dirname "$0")"
PY=/root/.pyenv/versions/3.12.1/bin/python3
[ -x "$PY" ] || PY=/venv/bin/python
if [ ! -x .venv/bin/python ] || ! .venv/bin/python -c "import z3, jsonschema, bitarray, bitstring" 2>/dev/null; then
  rm -rf .venv
  "$PY" -m venv .venv
  PIP_NO_INDEX=1 .venv/bin/python -m pip install -q --no-index --find-links /opt/veriftools/wheels \
      z3-solver cvc5 jsonschema
  SP=$(.venv/bin/python -c "import site; print(site.getsitepackages()[0])")
  echo "import site; site.addsitedir('/venv/lib/python3.12/site-packages')" > "$SP/_overlay.pth"
fi
.venv/bin/python -c "import z3, jsonschema, bitarray, bitstring; print('setup ok: z3', z3.get_version_string(), 'bitarray', bitarray.__version__, 'bitstring', bitstring.__file__)"
mkdir -p evidence replays
