#!/usr/bin/env python3
"""Regenerates MANIFEST.json from props/registry.py (the per-property claims)."""
import json, os, sys
ROOT = os.path.dirname(os.path.dirname(os.path.abspath(__file__)))
sys.path.insert(0, ROOT)
from props.registry import CLAIMS, NOT_APPLICABLE, HOOKS, ENGINES, NOTES

props = [json.loads(l) for l in open(os.path.join(ROOT, 'properties.jsonl'))]
ids = [p['id'] for p in props]
checks = []
for pid in ids:
    if pid not in CLAIMS:
        continue
    c = CLAIMS[pid]
    checks.append({
        'property_id': pid,
        'quick_cmd': f'./vf check {pid} --tier quick',
        'thorough_cmd': f'./vf check {pid} --tier thorough',
        'evidence_file': f'evidence/{pid}.json',
        'replay_cmd_template': './vf replay {path}',
        'engine': 'pyvc',
        'level_claimed': {'category': c['category'], 'text': c['text'], 'design_ref': c.get('design_ref', 'DESIGN.md section 6')},
        'level_note': c['note'],
        'technique': c['technique'],
    })
na = [{'property_id': pid, 'reason': NOT_APPLICABLE.get(pid, 'check not built yet (work in progress)')} for pid in ids if pid not in CLAIMS]
m = {'version': 1, 'setup_cmd': './setup.sh', 'hooks': HOOKS, 'engines': ENGINES, 'checks': checks, 'notes': NOTES, 'not_applicable': na}
json.dump(m, open(os.path.join(ROOT, 'MANIFEST.json'), 'w'), indent=1)
import jsonschema
sch = '/root/.vp/MANIFEST.schema.json'
if os.path.exists(sch):
    jsonschema.validate(m, json.load(open(sch)))
print('MANIFEST.json written:', len(checks), 'checks,', len(na), 'not applicable')
