"""C06: readlist / peeklist / readto and the stream constructors' pos argument.

readlist and peeklist are checked over concrete format skeletons with symbolic lengths (integers in the list are symbolic and
unrestricted, so negative counts are covered); their value/position arithmetic is `_read_dtype_list`'s contract."""
import z3
from pyvc.contract import contract, Shape, REGISTRY
from pyvc import sym
from pyvc.sym import lor, lnot, land, ite, SInt
from pyvc.spec import bits, mk_bits, sub
from pyvc.shapes import m_bits, r_bits
from pyvc.interp import Obj, PyRaise
from pyvc.search import occ_term
from .common import *
from .packing import read_dtype_list_spec
from .search import _brute, _concrete

_STREAMS = [s for s in SELF_STATES if s[0] in ('ConstBitStream', 'BitStream')]

# (label, fmt builder over symbolic ints, kwargs names, token list as (name, length-source))
#   length-source: ('sym', var) a symbolic int declared by the shape, ('kw', name) a keyword, int a literal, None no length
FORMATS = [
    ('[a, b]', lambda v: [v['a'], v['b']], [], [('bits', ('sym', 'a')), ('bits', ('sym', 'b'))], ['a', 'b']),
    ("'uint:8, bits:4'", lambda v: 'uint:8, bits:4', [], [('uint', 8), ('bits', 4)], []),
    ("'uint:n, hex'", lambda v: 'uint:n, hex', ['n'], [('uint', ('kw', 'n')), ('hex', None)], []),
    ("['int:n', a, 'bin']", lambda v: ['int:n', v['a'], 'bin'], ['n'], [('int', ('kw', 'n')), ('bits', ('sym', 'a')), ('bin', None)], ['a']),
    ("'pad:3, bool, ue'", lambda v: 'pad:3, bool, ue', [], [('pad', 3), ('bool', None), ('ue', None)], []),
    ("'se, bits:a'", lambda v: 'se, bits:a', ['a'], [('se', None), ('bits', ('kw', 'a'))], []),
    ("'4, uintle:16'", lambda v: '4, uintle:16', [], [('bits', 4), ('uintle', 16)], []),
]


def _list_shapes():
    out = []
    for label, mkfmt, kws, toks, syms in FORMATS:
        for cls, st in _STREAMS:
            def build(S, interp, mkfmt=mkfmt, kws=kws, syms=syms, cls=cls, st=st):
                o = m_bits(S, interp, 'self', cls, st)
                v = {n: S.int(n) for n in syms}
                return [o, mkfmt(v)], {k: S.int(k) for k in kws}

            def real(vals, mkfmt=mkfmt, kws=kws, syms=syms, cls=cls, st=st):
                o = r_bits(vals, 'self', cls, st)
                return [o, mkfmt({n: vals[n] for n in syms})], {k: vals[k] for k in kws}
            out.append(Shape(f'{cls}/{st}/{label}', build, real))
    return out


def _fmt_key(fmt):
    for label, mkfmt, kws, toks, syms in FORMATS:
        probe = mkfmt({n: 0 for n in syms})
        if isinstance(fmt, str):
            if probe == fmt:
                return toks, syms
        elif isinstance(probe, list) and isinstance(fmt, list) and len(probe) == len(fmt) and \
                all((isinstance(a, str) and a == b) or (not isinstance(a, str) and not isinstance(b, str)) for a, b in zip(probe, fmt)):
            return toks, syms
    raise sym.Unsupported('format outside the contract')


def _list_spec(advance):
    def f(C, self, fmt, **kwargs):
        toks, syms = _fmt_key(fmt)
        symvals = [x for x in fmt if not isinstance(x, str)] if isinstance(fmt, list) else []
        symmap = dict(zip(syms, symvals))
        D = C.interp.get_module('bitstring').ns['Dtype']
        dts = []
        for name, src in toks:
            if src is None:
                dts.append(C.interp.call(D, [name], {}))
                continue
            n = src if isinstance(src, int) else (symmap[src[1]] if src[0] == 'sym' else kwargs[src[1]])
            dts.append(C.interp.call(D, [name, n], {}))          # (raises ValueError for a length the dtype refuses, e.g. negative)
        vals, p = read_dtype_list_spec(C, self, dts, self.attrs['_pos'])
        if advance:
            self.attrs['_pos'] = p
        return vals
    return f


contract('bitstream.ConstBitStream.readlist', shapes=_list_shapes(), props={'C06', 'C05'}, kind='public',
         note="readlist(fmt, **kw): the values of the tokens read one after the other from pos; pos advances by exactly the bits "
              "consumed; on any error (too few bits, a negative count, a truncated code) pos is unchanged")(_list_spec(True))
contract('bitstream.ConstBitStream.peeklist', shapes=_list_shapes(), props={'C06', 'C05'}, kind='public',
         note="peeklist(fmt, **kw): the values readlist would return; pos unchanged in every case")(_list_spec(False))


# ---- readto ----------------------------------------------------------------------------------------------------
def _readto_shapes():
    out = []
    for cls, st in _STREAMS:
        for k in (('obj', 'Bits', 'immutable'), ('str',), ('obj', 'BitStream', 'plain')):
            for ba in (None, False, True):
                for optba in ((False, True) if ba is None else (False,)):
                    def build(S, interp, cls=cls, st=st, k=k, ba=ba):
                        o = m_bits(S, interp, 'self', cls, st)
                        return [o, m_operand(S, interp, 'bs', k, o), ba], {}

                    def real(vals, cls=cls, st=st, k=k, ba=ba):
                        o = r_bits(vals, 'self', cls, st)
                        return [o, r_operand(vals, 'bs', k, o), ba], {}
                    aligned = bool(ba) or (ba is None and optba)
                    out.append(Shape(f'{cls}/{st}/{opname(k)}/ba={ba}/opt={optba}', build, real, opts={'bytealigned': optba}, stable=not aligned))
    return out


@contract('bitstream.ConstBitStream.readto', shapes=_readto_shapes(), props={'C06', 'C07'}, kind='public', relational=True, observe_args=False,
          note="readto(bs): the bits from pos up to and including the first occurrence of bs at or after pos (byte-aligned when "
               "asked), as a new stream at pos 0; pos moves to just after that occurrence; ReadError (pos unchanged) when there is "
               "none; ValueError for an empty pattern")
def readto_post(C, args, kwargs, out):
    self, bs, bytealigned = args
    D, P = bits(self), promote_bits(C, bs)
    ba = C.option('bytealigned') if bytealigned is None else bytealigned
    symbolic = sym.have_ctx()
    p0 = SInt(z3.Int('self.pos')) if symbolic else None
    if sym.truth(sym.eq(P.n, 0)):
        yield ('empty-pattern-raises', out.kind == 'exc' and out.value.cls.is_subclass(C.interp.builtins['ValueError']))
        return
    pos_after = self.attrs['_pos']
    if not symbolic:
        # concrete replay: the initial position is recovered from the outcome (unchanged on error, else via the result length)
        Dc, Pc = _concrete(D), _concrete(P)
        if out.kind == 'exc':
            yield ('raises-ReadError', out.value.cls.name == 'ReadError')
            ms = _brute(Dc, Pc, pos_after, len(Dc), bool(ba))
            yield ('no-occurrence', not ms)
            return
        r = out.value
        rl = len(_concrete(bits(r)))
        old = pos_after - rl
        ms = _brute(Dc, Pc, old, len(Dc), bool(ba))
        yield ('first-occurrence', bool(ms) and ms[0] + len(Pc) == pos_after)
        yield ('result-bits', _concrete(bits(r)) == Dc[old:pos_after])
        yield ('result-class-and-pos', r.cls is self.cls and r.attrs.get('_pos') == 0)
        return
    n, m, st = sym._int_t(D.n), sym._int_t(P.n), sym._int_t(p0)

    def inwin(x):
        t = z3.And(st <= x, x + m <= n, occ_term(D, P, x))
        if ba:
            t = z3.And(t, x % 8 == 0)
        return t
    q = sym.ctx().fresh_int('q')
    if out.kind == 'exc':
        yield ('raises-ReadError', out.value.cls.name == 'ReadError')
        yield ('no-occurrence', sym.mk_bool(z3.Not(inwin(q))))
        yield ('pos-unchanged', sym.eq(pos_after, p0))
        return
    r = out.value
    hit = pos_after - P.n
    ht = sym._int_t(hit)
    yield ('sound', sym.mk_bool(inwin(ht)))
    yield ('first', sym.mk_bool(z3.Implies(inwin(q), ht <= q)))
    ok_cls = isinstance(r, Obj) and r.cls is self.cls
    yield ('result-class', ok_cls)
    if ok_cls:
        from pyvc.contract import Goals, same
        g = Goals()
        same(bits(r), sub(D, p0, pos_after), 'result-bits', g)
        for it in g.items:
            yield it
        yield ('result-pos', sym.eq(r.attrs.get('_pos', -1), 0))


# ---- the pos= argument of the stream constructors -----------------------------------------------------------
def _init_shapes(cls):
    out = []
    for c, st in _STREAMS:
        if c != cls:
            continue

        def build(S, interp, c=c, st=st):
            o = m_bits(S, interp, 'self', c, st)
            return [o], {'pos': S.int('p')}

        def real(vals, c=c, st=st):
            return [r_bits(vals, 'self', c, st)], {'pos': vals['p']}
        out.append(Shape(f'{c}/{st}/pos=int', build, real))
    return out


def _init_spec(C, self, auto=None, length=None, offset=None, pos=0, **kwargs):
    n = bits(self).n
    p = ite(pos < 0, pos + n, pos)
    if sym.truth(lor(p < 0, p > n)):
        C.throw('ValueError')          # CreationError is a ValueError
    self.attrs['_pos'] = p
    self.attrs['_bitstore'].attrs['immutable'] = True
    return None


def _init_spec_mutable(C, self, auto=None, length=None, offset=None, pos=0, **kwargs):
    _init_spec(C, self, auto, length, offset, pos, **kwargs)
    from pyvc.spec import mk_store
    from pyvc.spec import store_bits
    st = self.attrs['_bitstore']
    self.attrs['_bitstore'] = mk_store(C, store_bits(st))        # a private, unflagged copy (the constructor may have been handed a shared store)
    return None


contract('bitstream.ConstBitStream.__init__', shapes=_init_shapes('ConstBitStream'), props={'C06', 'C15'}, kind='public',
         note="ConstBitStream(..., pos=p): pos becomes p (p + len for negative p); CreationError unless 0 <= pos <= len; content untouched")(_init_spec)
contract('bitstream.BitStream.__init__', shapes=_init_shapes('BitStream'), props={'C06', 'C15', 'C04'}, kind='public',
         note="as ConstBitStream.__init__; additionally the BitStream ends up owning an unshared, unflagged store")(_init_spec_mutable)
