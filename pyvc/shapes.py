"""Builders of model inputs (symbolic, or concrete from a counter-model) and of the
corresponding *real* objects for replay."""
import z3
from . import sym
from .sym import SInt
from .interp import Obj
from .extern import BA

STORE_STATES = ('plain', 'immutable', 'buffer', 'buffer_full')


def m_store(S, interp, name, state='plain'):
    cls = interp.lookup_qualname('bitstore.BitStore')
    o = Obj(cls)
    if state in ('plain', 'immutable'):
        ba = S.view(name)
        o.attrs['_bitarray'] = ba
        o.attrs['immutable'] = (state == 'immutable')
        o.attrs['modified_length'] = None
    elif state in ('buffer', 'buffer_full'):
        ba = S.view(name + '.raw')
        ba.readonly = True
        if S.values is None:
            S.assume(SInt(z3.Int(name + '.raw.n') % 8) == 0)
        o.attrs['_bitarray'] = ba
        o.attrs['immutable'] = True
        if state == 'buffer':
            ml = S.int(name + '.ml')
            if S.values is None:
                S.assume(sym.land(ml >= 0, ml <= ba.n))
            o.attrs['modified_length'] = ml
        else:
            o.attrs['modified_length'] = None
    else:
        raise ValueError(state)
    return o


def r_store(vals, name, state='plain'):
    import bitarray
    from bitstring.bitstore import BitStore
    if state in ('plain', 'immutable'):
        s = BitStore(bitarray.bitarray([int(b) for b in vals[name]]))
        s.immutable = (state == 'immutable')
        return s
    raw = vals[name + '.raw']
    assert len(raw) % 8 == 0
    by = bitarray.bitarray([int(b) for b in raw]).tobytes()
    if state == 'buffer':
        return BitStore.frombuffer(by, length=vals[name + '.ml'])
    return BitStore.frombuffer(by)


BITS_CLASSES = ('Bits', 'BitArray', 'ConstBitStream', 'BitStream')
MUTABLE = ('BitArray', 'BitStream')
STREAMS = ('ConstBitStream', 'BitStream')


def default_state(clsname):
    return 'plain' if clsname in MUTABLE else 'immutable'


def m_bits(S, interp, name, clsname, state=None, pos='sym'):
    cls = interp.get_module('bitstring').ns[clsname]
    if state is None:
        state = default_state(clsname)
    o = Obj(cls)
    st = m_store(S, interp, name, state)
    o.attrs['_bitstore'] = st
    if clsname in STREAMS:
        if pos == 'sym':
            p = S.int(name + '.pos')
            if S.values is None:
                ba = st.attrs['_bitarray']
                ml = st.attrs['modified_length']
                S.assume(sym.land(p >= 0, p <= (ba.n if ml is None else ml)))
            o.attrs['_pos'] = p
        else:
            o.attrs['_pos'] = pos
    return o


def r_bits(vals, name, clsname, state=None, pos='sym'):
    import bitstring
    cls = getattr(bitstring, clsname)
    if state is None:
        state = default_state(clsname)
    o = object.__new__(cls)
    o._bitstore = r_store(vals, name, state)
    if clsname in STREAMS:
        o._pos = vals[name + '.pos'] if pos == 'sym' else pos
    return o


def r_slice(vals, a, b, c):
    return slice(*[vals[x] if isinstance(x, str) else x for x in (a, b, c)])
