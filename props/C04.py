"""C04: the ownership clause is part of *every* contract; the C04 check therefore also re-runs the public contracts of the
operations through which one bitstring is derived from another (operators, slicing, concatenation, mutators taking a
bitstring operand), not only the constructors and copies tagged C04."""
META = {'explanation': 'ghost-heap ownership clause evaluated on every path of the derivation contracts (constructors, copies, raw-buffer '
                       'hand-offs) and of the public operators / slicing / mutators.'}
EXTRA_TASKS = []
ALSO_PROPS = ['C01', 'C16', 'C03']
