"""C10: exponential-Golomb codes."""
import z3
from pyvc.contract import contract, Shape, INLINE
from pyvc.loops import loop_invariant
from pyvc import sym, spec, ints
from pyvc.sym import lor, lnot, land, ite, implies, SInt
from pyvc.spec import bits, mk_bits, sub, cat, mk_store, zeros
from pyvc.shapes import m_bits, r_bits
from pyvc.extern import BA
from .common import *
from .bits_seq import _self_shapes


def _one():
    return BA(1, lambda i: True)


def ue_code(C, i):
    """H.264 ue(v): k zeros, a one, then the k low bits of i+1, where 2^k <= i+1 < 2^(k+1)"""
    if sym.truth(i < 0):
        C.throw('ValueError')
    if isinstance(i, int):
        k = (i + 1).bit_length() - 1
        return cat(cat(zeros(k), _one()), BA.concrete([bool(((i + 1) >> (k - 1 - j)) & 1) for j in range(k)]))
    c = sym.ctx()
    k = SInt(c.fresh_int('k'))
    c.assume(k >= 0)
    p = sym.pow2(k)
    p1 = sym.pow2(k + 1)
    c.assume(land(p <= i + 1, i + 1 < p1))            # definition of k = floor(log2(i + 1)) (exists and is unique)
    if sym.truth(sym.eq(k, 0)):
        return _one()
    return cat(cat(zeros(k), _one()), ints.int2ba(C.interp, i + 1 - p, k, 'big', False))


_i_shape = [Shape('int', lambda S, interp: ([S.int('i')], {}), lambda vals: ([vals['i']], {}))]


@contract('bitstore_helpers.ue2bitstore', shapes=_i_shape, props={'C10'}, kind='public',
          note="ue2bitstore(i): exactly the H.264 exp-Golomb codeword of i for every i >= 0; CreationError for i < 0")
def ue2bitstore_spec(C, i):
    return mk_store(C, ue_code(C, i))


@loop_invariant('bitstore_helpers.ue2bitstore', 1,
                note="tmp * 2^(lz+1) <= i+1 < (tmp+1) * 2^(lz+1), lz >= -1, tmp >= 0, and 2^lz <= i+1 once lz >= 0")
def _ue_inv(L):
    i, tmp, lz = L.v('i'), L.v('tmp'), L.v('leadingzeros')
    if sym.truth(lz < -1):
        return False
    p = sym.pow2(lz + 1)
    base = land(tmp >= 0, lz >= -1, tmp * p <= i + 1, i + 1 < (tmp + 1) * p)
    if sym.truth(lz >= 0):
        return land(base, sym.pow2(lz) <= i + 1)
    return land(base, sym.eq(tmp, i + 1))


@contract('bitstore_helpers.se2bitstore', shapes=_i_shape, props={'C10'}, kind='public',
          note="se2bitstore(i): ue of 2i-1 for i > 0 and of -2i otherwise")
def se2bitstore_spec(C, i):
    u = ite(i > 0, 2 * i - 1, -2 * i)
    return mk_store(C, ue_code(C, u))


# ---- decoders -------------------------------------------------------------------------------------------------
def _pos_shapes(states=SELF_STATES):
    out = []
    for cls, st in states:
        def build(S, interp, cls=cls, st=st):
            o = m_bits(S, interp, 'self', cls, st)
            p = S.int('p')
            S.assume(land(p >= 0, p <= bits(o).n))
            return [o, p], {}

        def real(vals, cls=cls, st=st):
            return [r_bits(vals, 'self', cls, st), vals['p']], {}
        out.append(Shape(f'{cls}/{st}', build, real))
        if st in ('immutable', 'plain'):
            # the codes are bit-granular whatever options.bytealigned says
            out.append(Shape(f'{cls}/{st}/opt-bytealigned', build, real, opts={'bytealigned': True}))
    return out


def _zero_run(C, V, pos):
    """k = length of the run of zero bits of V starting at pos (stopping at the end of V)"""
    c = sym.ctx() if sym.have_ctx() else None
    if c is None or (isinstance(V.n, int) and isinstance(pos, int) and all(isinstance(V.bit(j), bool) for j in range(V.n))):
        k = 0
        while pos + k < V.n and not V.bit(pos + k):
            k += 1
        return k
    # the same run asked for twice on a path (callee contract and caller spec) is the same k
    probe = z3.Int('probe!zr')
    key = (sym.canon_key(sym._int_t(V.n)), sym.canon_key(sym._b(V.bit(SInt(probe)))), sym.canon_key(sym._int_t(pos)))
    memo = c.__dict__.setdefault('zero_run_memo', {})
    if key in memo:
        return memo[key]
    k = SInt(c.fresh_int('zr'))
    memo[key] = k
    j = z3.Int('j!zr')
    pt, kt, nt = sym._int_t(pos), k.term, sym._int_t(V.n)
    c.assume(z3.And(kt >= 0, pt + kt <= nt))
    sym.assume_forall(lambda x: z3.Implies(z3.And(x >= pt, x < pt + kt), z3.Not(sym._b(V.bit(SInt(x))))))
    sym.note_index(pt + kt)
    c.assume(z3.Or(pt + kt == nt, sym._b(V.bit(SInt(pt + kt)))))
    return k


def _canonical_view(V):
    """the same view with its length and bit terms simplified under the facts of the current path (slice clamping resolved)"""
    if not sym.have_ctx() or isinstance(V.n, int) and not sym.is_sym(V.bit(0) if V.n else False):
        return V
    probe = z3.Int('probe!cv')
    tmpl = sym.ctx_simplify(sym._b(V.bit(SInt(probe))))
    n = sym.ctx_simplify_int(V.n)
    return BA(n, lambda i: sym.mk_bool(z3.substitute(tmpl, (probe, sym._int_t(i)))))


def readue_core(C, V, pos):
    V = _canonical_view(V)
    pos = sym.ctx_simplify_int(pos) if sym.have_ctx() else pos
    k = _zero_run(C, V, pos)
    if sym.truth(sym.eq(pos + k, V.n)):
        C.throw('ReadError')
    if sym.truth(sym.eq(k, 0)):
        return 0, pos + 1
    if sym.truth(pos + 2 * k + 1 > V.n):
        C.throw('ReadError')
    W = sub(V, pos + k + 1, pos + 2 * k + 1)
    return sym.pow2(k) - 1 + ints.ba2int(C.interp, BA(W.n, W.bit), signed=False), pos + 2 * k + 1


@contract('bits.Bits._readue', shapes=_pos_shapes(), props={'C10', 'C06'}, kind='public',
          note="_readue(pos): if the bits from pos start with the ue codeword of v, returns (v, pos + codeword length); "
               "ReadError when the zero run reaches the end or fewer than k bits follow the one; refused in lsb0 mode")
def readue_spec(C, self, pos):
    C.requires(land(pos >= 0, pos <= bits(self).n), '0 <= pos <= len')
    if C.lsb0:
        C.throw('ReadError')
    return readue_core(C, bits(self), pos)


@loop_invariant('bits.Bits._readue', 1, note="oldpos <= pos <= len and every bit in [oldpos, pos) is 0")
def _readue_inv(L):
    self, pos, old = L.v('self'), L.v('pos'), L.v('oldpos')
    V = bits(self)
    j = z3.Int('j!inv')
    body = lambda x: z3.Implies(z3.And(x >= sym._int_t(old), x < sym._int_t(pos)), z3.Not(sym._b(V.bit(SInt(x)))))
    if L.assuming:
        sym.assume_forall(body)
        sym.note_index(pos)
        return land(pos >= old, pos <= V.n)
    return land(pos >= old, pos <= V.n, sym.mk_bool(z3.ForAll([j], body(j))))


@contract('bits.Bits._readse', shapes=_pos_shapes(), props={'C10', 'C06'}, kind='public',
          note="_readse(pos): the signed value of the ue codeword at pos: odd codenum c -> (c+1)/2, even -> -c/2")
def readse_spec(C, self, pos):
    C.requires(land(pos >= 0, pos <= bits(self).n), '0 <= pos <= len')
    if C.lsb0:
        C.throw('ReadError')
    c, p = readue_core(C, bits(self), pos)
    m = (c + 1) // 2
    if sym.truth(sym.eq(c % 2, 1)):
        return m, p
    return -m, p


# ---- interleaved exp-Golomb decoders ----------------------------------------------------------------------------------------
# codeword at pos: k pairs (0, b_j), then a 1.  codenum = 2^k + value(b_0 .. b_{k-1}); uie = codenum - 1.
def _even_view(V, pos):
    """E[x] = V[pos + 2x] for the even offsets that exist"""
    m = sym.smax(sym.floordiv_mod(V.n - pos + 1, 2)[0], 0)
    return BA(m, lambda x: V.bit(pos + 2 * x))


def _odd_array(V, pos):
    """the (unguarded) array x -> V[pos + 2x + 1]: the same term wherever it is built from the same V and pos, so that the value
    of its first j elements, uval(A, j), is compared by congruence"""
    x = z3.Int('x!odd')
    return z3.Lambda([x], sym._b(V.bit(SInt(sym._int_t(pos) + 2 * x + 1))))


def _prefix_value(V, pos, j):
    """value(b_0 .. b_{j-1}) with b_x = V[pos + 2x + 1]; the two facts assumed about uval are its recursive *definition*:
    uval(a, 0) = 0 and uval(a, n + 1) = 2 uval(a, n) + a[n]"""
    if isinstance(j, int) and isinstance(pos, int) and isinstance(V.n, int) and all(isinstance(V.bit(pos + 2 * x + 1), bool) for x in range(j)):
        v = 0
        for x in range(j):
            v = 2 * v + int(V.bit(pos + 2 * x + 1))
        return v
    A = _odd_array(V, pos)
    jt = sym._int_t(j)
    c = sym.ctx()
    c.assume(ints.uval(A, z3.IntVal(0)) == 0)
    c.assume(z3.Implies(jt >= 0, ints.uval(A, jt + 1) == 2 * ints.uval(A, jt) + z3.If(z3.Select(A, jt), 1, 0)))
    return SInt(ints.uval(A, jt))


def readuie_core(C, V, pos):
    V = _canonical_view(V)
    pos = sym.ctx_simplify_int(pos) if sym.have_ctx() else pos
    E = _even_view(V, pos)
    k = _zero_run(C, E, 0)
    if sym.truth(sym.eq(k, E.n)):
        C.throw('ReadError')                       # ran off the end before the terminating 1 (or inside the last pair)
    if sym.truth(sym.eq(k, 0)):
        return 0, pos + 1
    return sym.pow2(k) + _prefix_value(V, pos, k) - 1, pos + 2 * k + 1


@contract('bits.Bits._readuie', shapes=_pos_shapes(), props={'C10', 'C06'}, kind='public',
          note="_readuie(pos): k pairs (0, b) then a 1 give 2^k + value(b...) - 1 and pos + 2k + 1; ReadError when the bits run out first; "
               "refused in lsb0 mode")
def readuie_spec(C, self, pos):
    C.requires(land(pos >= 0, pos <= bits(self).n), '0 <= pos <= len')
    if C.lsb0:
        C.throw('ReadError')
    return readuie_core(C, bits(self), pos)


@loop_invariant('bits.Bits._readuie', 1,
                note="pos = pos0 + 2j <= len, the bits at the even offsets below j are 0, and codenum = 2^j + value of the j odd-offset bits read so far")
def _readuie_inv(L):
    self, pos, code = L.v('self'), L.v('pos'), L.v('codenum')
    old = L.old('pos')
    V = bits(self)
    d = pos - old
    j, r = sym.floordiv_mod(d, 2)
    x = z3.Int('x!inv')
    body = lambda t: z3.Implies(z3.And(t >= 0, t < sym._int_t(j)), z3.Not(sym._b(V.bit(SInt(sym._int_t(old) + 2 * t)))))
    base = land(pos >= old, pos <= V.n, sym.eq(r, 0), sym.eq(code, sym.pow2(j) + _prefix_value(V, old, j)))
    if L.assuming:
        sym.assume_forall(body)
        sym.note_index(j)
        return base
    return land(base, sym.mk_bool(z3.ForAll([x], body(x))))


@contract('bits.Bits._readsie', shapes=_pos_shapes(), props={'C10', 'C06'}, kind='public',
          note="_readsie(pos): the uie codeword, followed for a non-zero value by a sign bit (1 = negative); ReadError when the sign bit is missing")
def readsie_spec(C, self, pos):
    C.requires(land(pos >= 0, pos <= bits(self).n), '0 <= pos <= len')
    if C.lsb0:
        C.throw('ReadError')
    V = bits(self)
    c, p = readuie_core(C, V, pos)
    if sym.truth(sym.eq(c, 0)):
        return 0, p
    if sym.truth(p >= V.n):
        C.throw('ReadError')
    if sym.truth(V.bit(p)):
        return -c, p + 1
    return c, p + 1


# ---- generators of long codes for the bounded stand-in / native cross-check --------------------------------------------------------
# (written here from the definitions of the four codes -- not with the library's encoders, which are under verification themselves)
def code_bits(name, v):
    """the codeword of v as a list of bools"""
    if name == 'se':
        return code_bits('ue', 2 * v - 1 if v > 0 else -2 * v)
    if name == 'sie':
        return code_bits('uie', abs(v)) + ([v < 0] if v != 0 else [])
    x = bin(v + 1)[2:]                      # v + 1 in binary, leading 1 first
    if name == 'ue':
        return [False] * (len(x) - 1) + [ch == '1' for ch in x]
    out = []
    for ch in x[1:]:                        # uie: each further bit of v + 1 preceded by a 0, then the closing 1
        out += [False, ch == '1']
    return out + [True]


BIG_MAGNITUDES = (62, 63, 64, 65, 66, 70, 127, 128, 129, 130, 200)


def big_value(rng, name):
    k = rng.choice(BIG_MAGNITUDES)
    v = rng.choice([(1 << k) - 2, (1 << k) - 1, 1 << k, (1 << k) + 1, rng.randrange(1 << k, 1 << (k + 1))])
    if name in ('se', 'sie') and rng.random() < 0.5:
        v = -v
    return v


def stream_vals(rng, cls, st, data, pos, name='self'):
    """the input dictionary of a (cls, st) object holding `data`, positioned at pos"""
    v = {}
    if st in ('buffer', 'buffer_full'):
        pad = (-len(data)) % 8 + (8 * rng.randint(0, 2) if st == 'buffer' else 0)
        v[name + '.raw'] = list(data) + [rng.random() < 0.5 for _ in range(pad)]
        if st == 'buffer':
            v[name + '.ml'] = len(data)
    else:
        v[name] = list(data)
    if cls in ('ConstBitStream', 'BitStream'):
        v[name + '.pos'] = pos
    return v


def long_code_gen(cls, st, names, extra=None):
    """rng -> inputs: half of the time a short random stream, otherwise `names` codes of 125..401 bits each starting at pos
    (sometimes cut short, which must raise ReadError), preceded and followed by a few random bits"""
    def gen(rng):
        if rng.random() < 0.4:
            n = rng.randint(0, 12)
            data = [rng.random() < 0.5 for _ in range(n)]
            v = stream_vals(rng, cls, st, data, rng.randint(0, n))
        else:
            pre = [rng.random() < 0.5 for _ in range(rng.randint(0, 9))]
            body = []
            for nm in names:
                body += code_bits(nm, big_value(rng, nm) if rng.random() < 0.8 else rng.randint(0, 9))
            if rng.random() < 0.15:
                body = body[:rng.randint(0, len(body) - 1)] if body else body
            post = [rng.random() < 0.5 for _ in range(rng.randint(0, 9))]
            v = stream_vals(rng, cls, st, pre + body + post, len(pre))
        if extra is not None:
            extra(rng, v)
        return v
    return gen
