"""Conformance of the assumed external contracts (pyvc.extern / ints / search) with the
installed libraries, on an exhaustive small domain.  Run at every check; any disagreement
is a checker error (the axioms would be wrong), never a verdict."""
import itertools
import random

import bitarray
import bitarray.util

from . import extern, ints, search
from .extern import BA
from .interp import PyRaise


def _model_call(f):
    try:
        return ('ok', f())
    except PyRaise as pr:
        return ('exc', pr.exc.cls.name)


def _real_call(f):
    try:
        return ('ok', f())
    except Exception as e:
        return ('exc', type(e).__name__)


def _ba(bits):
    return BA.concrete(list(bits))


def _str(ba):
    return ''.join('1' if ba.bit(i) else '0' for i in range(ba.n))


def run(interp, seed=0, quick=True, part=0, parts=1):
    """-> (cases, failures[list of str]).  With parts > 1 the exhaustive bitarray domain is split between `parts` calls (the
    slice-arithmetic and integer-conversion sections run in part 0 only)."""
    fails = []
    cases = 0
    rng = random.Random(seed * 131 + part)
    idx = [None] + list(range(-11, 12))
    steps = [None, 1, 2, 3, 4, -1, -2, -3, -4]
    # 1. slice arithmetic against CPython
    for n in (range(0, 9) if part == 0 else ()):
        for st in steps:
            for a in idx:
                for b in idx:
                    cases += 1
                    s, e, stp, cnt = extern.adjust_indices(interp, n, a, b, st)
                    rs = slice(a, b, st).indices(n)
                    if (s, e, stp) != rs or cnt != len(range(*rs)):
                        fails.append(f'adjust_indices n={n} {a}:{b}:{st} -> {(s, e, stp, cnt)} vs {rs}')
    for n in ((3,) if part == 0 else ()):
        r = _model_call(lambda: extern.adjust_indices(interp, n, None, None, 0))
        if r != ('exc', 'ValueError'):
            fails.append('step 0 must raise ValueError')
    # 2. bitarray as a list of bits
    maxlen = 4 if quick else 6
    all_bits = [bits for L in range(0, maxlen + 1) for bits in itertools.product([0, 1], repeat=L)][part::parts]
    small_idx = [None, -7, -6, -5, -3, -2, -1, 0, 1, 2, 3, 4, 5, 6, 7]
    small_steps = [None, 1, 2, 3, -1, -2, -3]
    vals = [bits for L in range(0, 4) for bits in itertools.product([0, 1], repeat=L)]
    for bits in all_bits:
        real = bitarray.bitarray(list(bits))
        n = len(bits)
        # int index
        for i in range(-n - 2, n + 2):
            cases += 1
            m = _model_call(lambda: _ba(bits).pyvc_getitem(interp, i))
            r = _real_call(lambda: real[i])
            if m != r:
                fails.append(f'getitem {bits}[{i}]: {m} vs {r}')

            def mdel():
                x = _ba(bits)
                x.pyvc_delitem(interp, i)
                return _str(x)

            def rdel():
                x = bitarray.bitarray(list(bits))
                del x[i]
                return x.to01()
            if _model_call(mdel) != _real_call(rdel):
                fails.append(f'delitem {bits}[{i}]')
            for v in (0, 1, 2):
                def mset():
                    x = _ba(bits)
                    x.pyvc_setitem(interp, i, v)
                    return _str(x)

                def rset():
                    x = bitarray.bitarray(list(bits))
                    x[i] = v
                    return x.to01()
                cases += 1
                if _model_call(mset) != _real_call(rset):
                    fails.append(f'setitem {bits}[{i}]={v}')

            def minv():
                x = _ba(bits)
                x.m_invert(interp, i)
                return _str(x)

            def rinv():
                x = bitarray.bitarray(list(bits))
                x.invert(i)
                return x.to01()
            if _model_call(minv) != _real_call(rinv):
                fails.append(f'invert {bits}[{i}]')
        # whole-object operations
        checks = [
            ('reverse', lambda x: (x.m_reverse(interp), _str(x))[1], lambda x: (x.reverse(), x.to01())[1]),
            ('invert', lambda x: (x.m_invert(interp), _str(x))[1], lambda x: (x.invert(), x.to01())[1]),
            ('clear', lambda x: (x.m_clear(interp), _str(x))[1], lambda x: (x.clear(), x.to01())[1]),
            ('setall1', lambda x: (x.m_setall(interp, 1), _str(x))[1], lambda x: (x.setall(1), x.to01())[1]),
            ('count1', lambda x: x.m_count(interp, 1), lambda x: x.count(1)),
            ('count0', lambda x: x.m_count(interp, 0), lambda x: x.count(0)),
            ('any', lambda x: bool(x.m_any(interp)), lambda x: x.any()),
            ('all', lambda x: bool(x.m_all(interp)), lambda x: x.all()),
            ('tobytes', lambda x: x.m_tobytes(interp).to_host(), lambda x: x.tobytes()),
            ('to01', lambda x: x.m_to01(interp), lambda x: x.to01()),
            ('ba2int', lambda x: ints.ba2int(interp, x), lambda x: bitarray.util.ba2int(x)),
            ('ba2int_s', lambda x: ints.ba2int(interp, x, signed=True), lambda x: bitarray.util.ba2int(x, signed=True)),
            ('ba2hex', lambda x: ints.ba2hex(interp, x), lambda x: bitarray.util.ba2hex(x)),
            ('ba2oct', lambda x: ints.ba2base(interp, 8, x), lambda x: bitarray.util.ba2base(8, x)),
            ('frombytes', lambda x: (x.m_frombytes(interp, b'\xa5'), _str(x))[1], lambda x: (x.frombytes(b'\xa5'), x.to01())[1]),
        ]
        for name, mf, rf in checks:
            cases += 1
            m = _model_call(lambda: mf(_ba(bits)))
            r = _real_call(lambda: rf(bitarray.bitarray(list(bits))))
            if m != r:
                fails.append(f'{name} {bits}: {m} vs {r}')
        # slices
        for a in small_idx:
            for b in small_idx:
                if quick and rng.random() < 0.8:
                    continue
                for st in small_steps:
                    cases += 1
                    key = slice(a, b, st)
                    m = _model_call(lambda: _str(_ba(bits).pyvc_getitem(interp, key)))
                    r = _real_call(lambda: real[key].to01())
                    if m != r:
                        fails.append(f'getslice {bits}[{a}:{b}:{st}]: {m} vs {r}')

                    def mdel():
                        x = _ba(bits)
                        x.pyvc_delitem(interp, key)
                        return _str(x)

                    def rdel():
                        x = bitarray.bitarray(list(bits))
                        del x[key]
                        return x.to01()
                    if _model_call(mdel) != _real_call(rdel):
                        fails.append(f'delslice {bits}[{a}:{b}:{st}]: {_model_call(mdel)} vs {_real_call(rdel)}')
                    for v in (0, 1):
                        def mset():
                            x = _ba(bits)
                            x.pyvc_setitem(interp, key, v)
                            return _str(x)

                        def rset():
                            x = bitarray.bitarray(list(bits))
                            x[key] = v
                            return x.to01()
                        if _model_call(mset) != _real_call(rset):
                            fails.append(f'setslice-int {bits}[{a}:{b}:{st}]={v}')
                    for vb in (vals if not quick else rng.sample(vals, 3)):
                        cases += 1

                        def mset():
                            x = _ba(bits)
                            x.pyvc_setitem(interp, key, _ba(vb))
                            return _str(x)

                        def rset():
                            x = bitarray.bitarray(list(bits))
                            x[key] = bitarray.bitarray(list(vb))
                            return x.to01()
                        mm, rr = _model_call(mset), _real_call(rset)
                        if mm != rr:
                            fails.append(f'setslice {bits}[{a}:{b}:{st}]={vb}: {mm} vs {rr}')
        # binary operators and search
        for other in (vals if not quick else rng.sample(vals, 6)):
            for name in ('add', 'and', 'or', 'xor'):
                cases += 1
                m = _model_call(lambda: _str(_ba(bits).pyvc_binop(interp, name, _ba(other))))
                rop = {'add': lambda x, y: x + y, 'and': lambda x, y: x & y, 'or': lambda x, y: x | y, 'xor': lambda x, y: x ^ y}[name]
                r = _real_call(lambda: rop(bitarray.bitarray(list(bits)), bitarray.bitarray(list(other))).to01())
                if m != r:
                    fails.append(f'{name} {bits} {other}: {m} vs {r}')

                def minp():
                    x = _ba(bits)
                    x.pyvc_inplace(interp, name, _ba(other))
                    return _str(x)

                def rinp():
                    x = bitarray.bitarray(list(bits))
                    y = bitarray.bitarray(list(other))
                    if name == 'add':
                        x += y
                    elif name == 'and':
                        x &= y
                    elif name == 'or':
                        x |= y
                    else:
                        x ^= y
                    return x.to01()
                if _model_call(minp) != _real_call(rinp):
                    fails.append(f'i{name} {bits} {other}')
            if len(other) == 0:
                continue
            for a in (0, 1, 2, -2, 7):
                for b in (None, 0, 3, 5, -1):
                    for right in (False, True):
                        cases += 1
                        m = _model_call(lambda: search.ba_find(interp, _ba(bits), _ba(other), a, b, right))
                        r = _real_call(lambda: real.find(bitarray.bitarray(list(other)), a, *( [b] if b is not None else []), right=right))
                        if m != r:
                            fails.append(f'find {bits} {other} {a} {b} {right}: {m} vs {r}')
                        m = _model_call(lambda: list(search.ba_search(interp, _ba(bits), _ba(other), a, b, right)))
                        r = _real_call(lambda: list(real.search(bitarray.bitarray(list(other)), a, *( [b] if b is not None else []), right=right)))
                        if m != r:
                            fails.append(f'search {bits} {other} {a} {b} {right}: {m} vs {r}')
    # 3. integer conversions
    if part != 0:
        return cases, fails
    for n in range(-1, 7):
        for v in range(-40, 70):
            for signed in (False, True):
                cases += 1
                m = _model_call(lambda: _str(ints.int2ba(interp, v, n, 'big', signed)))
                r = _real_call(lambda: bitarray.util.int2ba(v, length=n, endian='big', signed=signed).to01())
                if m != r:
                    fails.append(f'int2ba {v} {n} {signed}: {m} vs {r}')
    for s in ('', '0', 'f', 'A5', '1g', 'ff ', '0x1'):
        cases += 1
        m = _model_call(lambda: _str(ints.hex2ba(interp, s)))
        r = _real_call(lambda: bitarray.util.hex2ba(s).to01())
        if m != r:
            fails.append(f'hex2ba {s!r}: {m} vs {r}')
    for s in ('', '0', '7', '17', '8', '1 2'):
        cases += 1
        m = _model_call(lambda: _str(ints.base2ba(interp, 8, s)))
        r = _real_call(lambda: bitarray.util.base2ba(8, s).to01())
        if m != r:
            fails.append(f'base2ba {s!r}: {m} vs {r}')
    for s in ('', '0', '1', '01 1', '2', '1_0'):
        cases += 1
        from . import extmods
        bat = interp.modules['bitarray'].ns['bitarray']
        m = _model_call(lambda: _str(interp.call(bat, [s], {})))
        r = _real_call(lambda: bitarray.bitarray(s).to01())
        if m != r:
            fails.append(f'bitarray({s!r}): {m} vs {r}')
    return cases, fails
