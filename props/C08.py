"""C08 extras.  The deductive model of bitarray is big-endian only (stated assumption); a caller may hand the library a
little-endian bitarray, whose *sequence of bits* is the same but whose byte image differs.  This bounded native task checks that
objects built from little-endian bitarrays behave as their bit content says."""
import random

META = {'explanation': 'BitStore primitives and Bits-level operations proved to depend on the logical content only; plus a bounded native sweep '
                       'over little-endian bitarray sources (outside the bitarray model).'}
EXTRA_TASKS = ['bitarray_endianness']


def bitarray_endianness(tier='quick', seed=0):
    import bitarray
    import bitstring
    from bitstring import Bits, BitArray, ConstBitStream, BitStream
    rng = random.Random(seed)
    fails = []
    evals = 0
    for _ in range(200 if tier == 'quick' else 3000):
        n = rng.choice([0, 1, 7, 8, 9, 11, 16, 31, 64, rng.randint(0, 200)])
        s = ''.join(rng.choice('01') for _ in range(n))
        kind, le = rng.choice([('little-endian bitarray', bitarray.bitarray(s, endian='little')), ('little-endian bitarray', bitarray.bitarray(s, endian='little')),
                               ('little-endian frozenbitarray', bitarray.frozenbitarray(s, endian='little')),
                               ('big-endian frozenbitarray', bitarray.frozenbitarray(s, endian='big'))])
        off = rng.randint(0, n)
        t = ''.join(rng.choice('01') for _ in range(n))
        for cls in (Bits, BitArray, ConstBitStream, BitStream):
            # as an operand: promoted on the fly by the bit-wise operators and by ==
            evals += 1
            x = cls(bin=t) if t else cls()
            try:
                want = [''.join(str(f(int(p), int(q))) for p, q in zip(t, s)) for f in (lambda p, q: p & q, lambda p, q: p | q, lambda p, q: p ^ q)]
                got = [(x & le).bin, (x | le).bin, (x ^ le).bin] if n else want
                ok = got == want and (x == le) is (t == s)
                if ok and n and cls in (BitArray, BitStream):
                    y = cls(bin=t)
                    y &= le
                    z = cls(bin=t)
                    z ^= le
                    ok = y.bin == want[0] and z.bin == want[2]
                obs = f'{got}'
            except Exception as e:
                ok = False
                obs = f'{type(e).__name__}: {e}'
            if not ok:
                ctor = ('bitarray.frozenbitarray' if 'frozen' in kind else 'bitarray.bitarray') + f"('{s}', endian='{'little' if 'little' in kind else 'big'}')"
                fails.append({'call': f"{cls.__name__}(bin='{t}') &, |, ^, == a {kind} '{s}'", 'observed': obs[:200],
                              'python': 'import bitarray, bitstring\n' + f"le = {ctor}\nx = bitstring.{cls.__name__}(bin='{t}')\n"
                                        f"try:\n    FAILS = [(x & le).bin, (x | le).bin, (x ^ le).bin] != {want!r} or (x == le) is not {t == s}\nexcept Exception:\n    FAILS = True\n"})
            for route, make, want_s in (('auto', lambda: cls(le), s), ('bitarray=', lambda: cls(bitarray=le), s),
                                        ('bitarray= with offset', lambda: cls(bitarray=le, offset=off), s[off:])):
                evals += 1
                a = make()
                b = cls(bin=want_s) if want_s else cls()
                ok = a == b and a.bin == b.bin and a.tobytes() == b.tobytes() and len(a) == len(b) and a.tobitarray() == b.tobitarray() \
                    and (a + b).bin == want_s + want_s and (not want_s or a.uint == b.uint)
                if cls in (Bits, ConstBitStream):
                    ok = ok and hash(a) == hash(b)
                if not ok:
                    fails.append({'call': f"{cls.__name__} from a {kind}('{s}') via {route}", 'observed': f'tobytes {a.tobytes()!r} vs {b.tobytes()!r}',
                                  'python': 'import bitarray, bitstring\n'
                                            + (f"le = bitarray.frozenbitarray('{s}', endian='{'little' if 'little' in kind else 'big'}')\n" if 'frozen' in kind else f"le = bitarray.bitarray('{s}', endian='little')\n") +
                                            f"a = bitstring.{cls.__name__}(le); b = bitstring.{cls.__name__}(bin='{s}') if '{s}' else bitstring.{cls.__name__}()\n"
                                            "FAILS = not (a == b and a.tobytes() == b.tobytes() and hash(bitstring.Bits(a)) == hash(bitstring.Bits(b)))\n"})
    return {'id': 'C08.endianness', 'obligations': [], 'evaluations': evals,
            'bounded': [{'id': 'C08/bitstore.BitStore.__init__/little-endian-bitarray-sources', 'qualname': 'bitstore.BitStore.__init__', 'shape': 'random contents',
                         'function': 'construction from, and bit-wise operators / == with, bitarray.bitarray(..., endian="little") and frozenbitarrays of both endiannesses', 'bound': '200 random contents (3000 thorough) x 4 classes x (3 routes + operand use)',
                         'evaluations': evals, 'failures': fails[:3]}],
            'summary': f'{evals} constructions, {len(fails)} failures'}
