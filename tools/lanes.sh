#!/bin/bash
# Parallel evaluation of seeded / benign patches WITHOUT touching /repo: N lanes, each a scratch git worktree of /repo plus a copy of
# /verif, the checks pointed at the worktree with PYVC_REPO / PYTHONPATH.
#   tools/lanes.sh setup [N=4]                 create /tmp/lane1..N (worktree at /repo HEAD + copy of /verif)
#   tools/lanes.sh seeded <id> [...]           evaluate seeded/<id> against its own property (one line per change + VIOLATION lines)
#   tools/lanes.sh benign <id> [...]           evaluate benign/<id> against its own property (OK / FALSE-ALARM / CHECKER-ERROR)
#   tools/lanes.sh teardown                    remove the lanes (worktrees and copies)
# e.g.  ls seeded | xargs -P 4 -n 1 tools/lanes.sh seeded
ROOT="$(cd "$(dirname "$0")/.." && pwd)"
cmd=$1; shift
lane() { for L in $(ls -d /tmp/lane* 2>/dev/null | sed 's|/tmp/lane||'); do if mkdir /tmp/lane$L/lock 2>/dev/null; then echo $L; return; fi; done; echo 0; }
case $cmd in
  setup)
    N=${1:-4}
    for L in $(seq 1 $N); do
      mkdir -p /tmp/lane$L
      [ -d /tmp/lane$L/repo ] || git -C /repo worktree add --detach /tmp/lane$L/repo HEAD -q
      rsync -a --delete --exclude .git --exclude scratch --exclude seeded --exclude benign $ROOT/ /tmp/lane$L/verif/
      mkdir -p /tmp/lane$L/verif/scratch; rmdir /tmp/lane$L/lock 2>/dev/null
    done; true ;;
  teardown)
    for d in /tmp/lane*; do git -C /repo worktree remove --force $d/repo 2>/dev/null; rm -rf $d; done; git -C /repo worktree prune ;;
  seeded|benign)
    for n in "$@"; do
      p=${n%%-*}; L=$(lane); [ "$L" = 0 ] && { echo "$n: no free lane (run setup, or lower -P)"; continue; }
      R=/tmp/lane$L/repo; V=/tmp/lane$L/verif
      ( cd $R && git checkout -q -- . && git apply $ROOT/$cmd/$n/patch.diff ) || { echo "$n APPLY-FAILED"; rmdir /tmp/lane$L/lock; continue; }
      out=$(cd $V && PYVC_REPO=$R PYTHONPATH=$R ./vf check $p --tier quick 2>&1); rc=$?
      nv=$(echo "$out" | grep -c '^VIOLATION'); nfi=$(echo "$out" | grep '^VIOLATION' | grep -c 'no-failing-input-found'); ne=$(echo "$out" | grep -c '^CHECKER-ERROR')
      if [ $cmd = seeded ]; then
        echo "$n property=$p violations=$nv (of which no-failing-input-found=$nfi) checker-errors=$ne"
        echo "$out" | grep '^VIOLATION\|^CHECKER' | head -3 | sed "s/^/    $n: /"
        (cd $V && ./vf summary $p 2>/dev/null | grep -v 'shapes:' | head -2 | cut -c1-200 | sed "s/^/    $n: SUMMARY /")
      else
        st=OK; [ $ne -gt 0 ] && st=CHECKER-ERROR; [ $nv -gt 0 ] && st=FALSE-ALARM
        echo "$n/patch.diff $p exit=$rc $st violations=$nv checker-errors=$ne"
      fi
      ( cd $R && git checkout -q -- . ); rmdir /tmp/lane$L/lock
    done ;;
  *) sed -n 2,9p "$0" ;;
esac
