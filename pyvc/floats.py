"""Assumed contract of struct.pack / struct.unpack for the float codes.

Concrete arguments are passed through to the real struct module.  A symbolic float (extern.SFloat) is known only through
uninterpreted functions:  ieee_w(v, k) is bit k (big-endian byte order, MSB first) of the w-bit IEEE encoding of v;
overflows_w(v) says whether struct raises OverflowError for v at width w (never for w = 64);  unpack_w(arr) is the float a
w-bit pattern denotes.  Assumed: little-endian packing is the byte reversal of big-endian packing; pack and unpack are
mutually inverse except for NaN payloads (used by the round-trip lemmas of C02).  What the prover checks with this is the
plumbing the property is about: which width and byte order a route selects, the length rules, the overflow-to-infinity rule.
"""
import struct as _struct
import z3
from . import sym
from .sym import Unsupported, NeedConcrete, is_sym, SInt
from .extern import BBytes, SymBytes, SFloat, BA, _FLT

WIDTH = {'e': 16, 'f': 32, 'd': 64}
_ieee = {w: z3.Function(f'ieee_{w}', _FLT, z3.IntSort(), z3.BoolSort()) for w in (16, 32, 64)}
_ovf = {w: z3.Function(f'overflows_{w}', _FLT, z3.BoolSort()) for w in (16, 32)}
_A = z3.ArraySort(z3.IntSort(), z3.BoolSort())
_unpack = {w: z3.Function(f'unpack_{w}', _A, _FLT) for w in (16, 32, 64)}


def ieee_view(v, w):
    """big-endian IEEE bits of the symbolic float v at width w"""
    f = _ieee[w]
    t = v.term
    return BA(w, lambda k: sym.mk_bool(f(t, sym._int_t(k))))


def overflows(v, w):
    if w == 64:
        return False
    return sym.mk_bool(_ovf[w](v.term))


def byterev_view(V):
    a, n = V.bit, V.n

    def b(i):
        q, r = sym.floordiv_mod(i, 8)
        return a(n - 8 - 8 * q + r)
    return BA(n, b)


def struct_pack(interp, fmt, *vals):
    if all(not is_sym(v) and not isinstance(v, SFloat) for v in vals):
        try:
            return _struct.pack(fmt, *vals)
        except (OverflowError,) as ex:
            interp.throw('OverflowError', str(ex))
        except _struct.error as ex:
            interp.throw('struct.error', str(ex))
        except Exception as ex:
            interp.host_exc(ex)
    if len(vals) == 1 and isinstance(vals[0], SFloat) and isinstance(fmt, str) and len(fmt) == 2 and fmt[0] in '<>' and fmt[1] in WIDTH:
        v, w = vals[0], WIDTH[fmt[1]]
        if sym.truth(overflows(v, w)):
            interp.throw('OverflowError', 'float too large to pack')
        V = ieee_view(v, w)
        if fmt[0] == '<':
            V = byterev_view(V)
        return BBytes(w // 8, V.bit)
    raise Unsupported("struct.pack of a symbolic value with this format")


def struct_unpack(interp, fmt, data):
    if isinstance(data, (BBytes, SymBytes)):
        bb = data if isinstance(data, BBytes) else data.as_bbytes()
        try:
            data = bb.to_host()
        except NeedConcrete:
            if isinstance(fmt, str) and len(fmt) == 2 and fmt[0] in '<>' and fmt[1] in WIDTH:
                w = WIDTH[fmt[1]]
                if sym.truth(sym.lnot(sym.eq(bb.nbytes * 8, w))):
                    interp.throw('struct.error', 'unpack requires a buffer of the right size')
                V = BA(w, bb.bit)
                if fmt[0] == '<':
                    V = byterev_view(V)
                return (SFloat(_unpack[w](V.as_array())),)
            raise Unsupported("struct.unpack of symbolic bytes with this format")
    try:
        return _struct.unpack(fmt, data)
    except _struct.error as ex:
        interp.throw('struct.error', str(ex))
    except Exception as ex:
        interp.host_exc(ex)
