"""C01: repetition (s * n, n * s, s *= n) -- the doubling loop of Bits._imul under a loop invariant."""
from pyvc.contract import contract, Shape, INLINE
from pyvc.loops import loop_invariant, fresh_view
from pyvc import sym, spec
from pyvc.sym import lor, lnot, land, ite, implies
from pyvc.spec import bits, mk_bits
from pyvc.shapes import m_bits, r_bits
from pyvc.extern import BA
from .common import *
from .bits_seq import _self_shapes
from .bits_ops import _set_bits


def rep(V, n):
    """n copies of V: bit i is V.b(i mod |V|) for i < n * |V|"""
    a, L = V.bit, V.n
    if isinstance(L, int) and L == 0:
        return BA(0, lambda i: False)

    def bit(i):
        q, r = sym.floordiv_mod(i, L)
        return a(r)
    return BA(n * L, bit)


_n_arg = (lambda S, interp, d, self_: [S.int('n')], lambda v, d, self_: [v['n']])


def _imul_shapes(states):
    out = []
    for cls, st in states:
        for case in ('empty', 'nonempty'):
            def build(S, interp, cls=cls, st=st, case=case):
                o = m_bits(S, interp, 'self', cls, st)
                S.assume(sym.eq(bits(o).n, 0) if case == 'empty' else bits(o).n > 0)
                n = S.int('n')
                S.assume(n >= 0)
                return [o, n], {}

            def real(vals, cls=cls, st=st):
                return [r_bits(vals, 'self', cls, st), vals['n']], {}
            out.append(Shape(f'{cls}/{st}/{case}', build, real))
    return out


@contract('bits.Bits._imul', shapes=_imul_shapes(MUT_STATES), props={'C01', 'C03'}, kind='internal',
          note="_imul(n), n >= 0: self holds n copies of its old content (bit i = old bit i mod old_len); returns self")
def imul_spec(C, self, n):
    C.requires(n >= 0, 'n >= 0')
    V = bits(self)
    if sym.truth(sym.eq(V.n, 0)):
        _set_bits(C, self, BA(0, lambda i: False))
        return self
    _set_bits(C, self, rep(V, n))
    if '_pos' in self.attrs and sym.truth(sym.eq(n, 0)):
        self.attrs['_pos'] = 0        # n == 0 goes through _clear()
    return self


def _imul_havoc(interp, L, c):
    st = L.v('self').attrs['_bitstore']
    ba = st.attrs['_bitarray']
    L.entry['__old'] = BA(ba.n, ba.bit)
    h = fresh_view(c, 'h')
    ba.n, ba.bit = h.n, h.bit


@loop_invariant('bits.Bits._imul', 1, havoc_heap=_imul_havoc,
                note="len(self) == m * old_len, m >= 1, and bit i of self is old bit (i mod old_len)")
def _imul_inv(L):
    self, m, old_len = L.v('self'), L.v('m'), L.v('old_len')
    V = bits(self)
    old = L.entry.get('__old')
    if old is None:                      # entry check: the store still holds the old content, m == 1
        return land(sym.eq(m, 1), sym.eq(V.n, old_len), old_len > 0)
    ob = old.bit

    def body(i):
        if sym.truth(lnot(land(i >= 0, i < V.n))):
            return True
        q, r = sym.div_shift(i, old_len, m)       # also tells the solver divmod(i + m*old_len, old_len) == (q + m, r)
        return sym.iff(V.bit(i), ob(r))
    n = L.v('n')
    return land(m >= 1, lor(sym.eq(m, 1), m < n), sym.eq(V.n, m * old_len), sym.eq(old.n, old_len), old_len > 0, L.forall(body))


def _mul_shapes(states):
    out = []
    for cls, st in states:
        def build(S, interp, cls=cls, st=st):
            return [m_bits(S, interp, 'self', cls, st), S.int('n')], {}

        def real(vals, cls=cls, st=st):
            return [r_bits(vals, 'self', cls, st), vals['n']], {}
        out.append(Shape(f'{cls}/{st}', build, real))
    return out


def mul_spec(C, self, n):
    if sym.truth(n < 0):
        C.throw('ValueError')
    V = bits(self)
    if sym.truth(lor(sym.eq(n, 0), sym.eq(V.n, 0))):
        return mk_bits(C, self.cls, BA(0, lambda i: False), pos=0)
    return mk_bits(C, self.cls, rep(V, n), pos=0)


contract('bits.Bits.__mul__', shapes=_mul_shapes(SELF_STATES), props={'C01', 'C08'}, kind='public',
         note="s * n: n copies of the bits of s in a new object of type(s); ValueError for n < 0; s unchanged")(mul_spec)
contract('bits.Bits.__rmul__', shapes=_mul_shapes(SELF_STATES_MEM), props={'C01'}, kind='public', note="n * s == s * n")(mul_spec)


@contract('bitarray_.BitArray.__imul__', shapes=_mul_shapes(MUT_STATES), props={'C01', 'C03', 'C06'}, kind='public',
          note="s *= n: in place, returns s; ValueError (s unchanged) for n < 0")
def imul_public_spec(C, self, n):
    if sym.truth(n < 0):
        C.throw('ValueError')
    return imul_spec(C, self, n)
