"""Bounded stand-in and CPython cross-check.

The same contract that the prover discharges symbolically is evaluated natively: concrete
inputs for a shape are enumerated (small exhaustive domain) or sampled, real objects are
built, the real function runs under CPython and the outcome is compared with the spec on
the same inputs (pyvc.replay).  Used (a) for obligations the prover could not decide --
reported as *bounded*, never counted as proved; (b) as a soundness cross-check of proved
obligations: a native failure of a proved obligation is a checker error."""
import itertools
import random
import zlib

import z3

from . import sym, replay
from .contract import Sym


def _decls(interp, shape):
    S = Sym()
    with sym.PathCtx(timeout_ms=2000):
        shape.build(S, interp)
    return S


def _eval_assumptions(S_decl, vals):
    """evaluate the shape's (symbolic) assumptions on concrete values"""
    subs = []
    for name, d in S_decl.decls.items():
        if d[0] == 'int':
            subs.append((z3.Int(name), z3.IntVal(vals[name])))
        elif d[0] == 'bool':
            subs.append((z3.Bool(name), z3.BoolVal(vals[name])))
        elif d[0] == 'view':
            subs.append((z3.Int(name + '.n'), z3.IntVal(len(vals[name]))))
        elif d[0] == 'float':
            pass
    for a in S_decl.assumptions:
        t = a.term if isinstance(a, (sym.SBool, sym.SInt)) else a
        if t is True:
            continue
        if t is False:
            return False
        r = z3.simplify(z3.substitute(t, *subs))
        if z3.is_false(r):
            return False
        if not z3.is_true(r):
            s = z3.Solver()
            s.add(r)
            if s.check() != z3.sat:
                return False
    return True


_BOUNDARY = None
# floats at and just beside the limits of the 16/32-bit formats: largest finite values, the round-to-infinity midpoints and the
# band between them, the smallest subnormals and their halves, ties of the significand
FLOAT_BOUNDARY = [0.0, -0.0, 1.5, -2.25, 3.141592653589793, 65504.0, 65520.0, 1e5, -1e5, 3.4e38, 3.5e38, -1e39, 1e300, 5e-324, 6e-8, 1e-45,
                  float('inf'), float('-inf'), 65510.0, -65519.99, 65519.996, -65504.0, -65520.0, 3.4028234663852886e38, 3.4028235e38,
                  -3.40282355e38, 3.40282356e38, 3.4028235677973366e38, 2.0 ** -24, 2.0 ** -25, 1.5 * 2.0 ** -25, 2.0 ** -149, 2.0 ** -150,
                  2049.0, 2051.0, 1.0 + 2.0 ** -11, 1.0 + 2.0 ** -24, 0.1, -0.1]


def boundary_ints():
    global _BOUNDARY
    if _BOUNDARY is None:
        ks = list(range(0, 21)) + [24, 30, 31, 32, 33, 47, 48, 49, 50, 51, 52, 53, 54, 55, 62, 63, 64, 65, 66, 100, 127, 128, 129, 200, 256]
        vals = set(range(-4, 5))
        for k in ks:
            for d in range(-3, 4):
                vals.add((1 << k) + d)
                vals.add(-(1 << k) + d)
        _BOUNDARY = sorted(vals)
    return _BOUNDARY


def boundary_bits(rng, n):
    """random content, biased towards the boundary patterns of integer interpretations in either byte order"""
    r = rng.random()
    if n == 0 or r < 0.55:
        return [rng.random() < 0.5 for _ in range(n)]
    kind = rng.choice(['zeros', 'ones', 'first1', 'last1', 'lastbyte80', 'firstbyte80', 'first0', 'last0', 'lastbyte7f', 'alt'])
    if kind == 'zeros':
        return [False] * n
    if kind == 'ones':
        return [True] * n
    if kind == 'first1':
        return [True] + [False] * (n - 1)
    if kind == 'last1':
        return [False] * (n - 1) + [True]
    if kind == 'first0':
        return [False] + [True] * (n - 1)
    if kind == 'last0':
        return [True] * (n - 1) + [False]
    if kind == 'alt':
        return [i % 2 == 0 for i in range(n)]
    if n >= 8 and kind == 'lastbyte80':
        return [False] * (n - 8) + [True] + [False] * 7
    if n >= 8 and kind == 'firstbyte80':
        return [True] + [False] * (n - 1)
    if n >= 8 and kind == 'lastbyte7f':
        return [True] * (n - 8) + [False] + [True] * 7
    return [rng.random() < 0.5 for _ in range(n)]


def gen_inputs(interp, shape, rng, n_samples, max_len=10, int_range=14, exhaustive_len=None):
    """yield concrete input dicts satisfying the shape's assumptions"""
    if getattr(shape, 'gen', None) is not None:
        for _ in range(n_samples):
            yield shape.gen(rng)
        return
    try:
        S = _decls(interp, shape)
    except sym.Infeasible:
        return          # the shape's inputs cannot be constructed on this tree (e.g. a Dtype the library now rejects)
    names = list(S.decls.items())
    if names and all(d[0] == 'int' for _, d in names):
        # integer-only shapes: sweep the power-of-two boundaries (codeword lengths, range limits, float precision limits)
        cands = boundary_ints()
        small = [c for c in cands if abs(c) <= 70]

        def is_value(nm):
            # only *values* get astronomically large candidates; lengths, positions and counts stay small (they size buffers)
            return nm in ('i', 'v', 'value', 'x') or (nm.startswith('v') and nm[1:].isdigit())
        if len(names) == 1 and n_samples >= 100 and is_value(names[0][0]):
            pool = [{names[0][0]: v} for v in cands]
        else:
            pool = []
            for _ in range(n_samples * 6):
                vals = {}
                for nm, _d in names:
                    src = cands if (is_value(nm) and rng.random() < 0.6) else (small if rng.random() < 0.5 else list(range(-9, 70)))
                    vals[nm] = rng.choice(src)
                # a value near the limits of the chosen length is the interesting case
                lens = [vals[nm] for nm, _d in names if not is_value(nm) and 0 < vals[nm] <= 70]
                if lens and rng.random() < 0.5:
                    k = rng.choice(lens)
                    for nm, _d in names:
                        if is_value(nm):
                            vals[nm] = rng.choice([1 << k, (1 << k) - 1, 1 << (k - 1), (1 << (k - 1)) - 1, -(1 << (k - 1)), -(1 << (k - 1)) - 1, 0, -1])
                pool.append(vals)
        produced = 0
        for vals in pool:
            try:
                if not _eval_assumptions(S, vals):
                    continue
            except Exception:
                continue
            produced += 1
            yield vals
            if produced >= max(n_samples, len(cands) if len(names) == 1 and n_samples >= 100 else n_samples):
                break
        return
    tried = 0
    produced = 0
    while produced < n_samples and tried < n_samples * 60:
        tried += 1
        vals = {}
        big = max_len * 4
        L = rng.choice([8, 16, 24, 32, 0, 1, 2, 3, 5, 7, 8, 9, max_len, rng.randint(0, max_len), rng.randint(0, big), big])
        for name, d in names:
            if d[0] == 'int':
                if name.endswith('.ml') or name.endswith('.pos'):
                    vals[name] = rng.choice([rng.randint(0, max_len + 8), rng.randint(0, max(L, 1))])
                elif name in getattr(shape, 'big', ()) and rng.random() < 0.3:
                    # an argument that may be astronomically large without sizing anything (a shift or rotation count, a read count)
                    vals[name] = rng.choice(boundary_ints())
                else:
                    vals[name] = rng.choice([rng.randint(-int_range, int_range), rng.randint(-3, 3), rng.randint(0, max_len)])
            elif d[0] == 'bool':
                vals[name] = rng.random() < 0.5
            elif d[0] == 'float':
                vals[name] = rng.choice(FLOAT_BOUNDARY + [rng.uniform(-1e6, 1e6), rng.uniform(-1, 1)])
            elif d[0] == 'view':
                n = rng.choice([L, L, rng.randint(0, max_len)])
                if name.endswith('.raw'):
                    n = 8 * rng.randint(0, max(1, (max_len + 7) // 8 + 1))
                vals[name] = boundary_bits(rng, n)
        try:
            if not _eval_assumptions(S, vals):
                continue
        except Exception:
            continue
        produced += 1
        yield vals


def cross_check(interp, contract, shape, seed, n_samples=40, max_len=10):
    """-> (evaluations, failures[list of replay infos], skipped)"""
    if shape.real is None:
        return 0, [], 0
    # (zlib.crc32, not hash(): str hashes are randomised per process, and a check must explore the same inputs on every run)
    rng = random.Random(zlib.crc32(f'{contract.qualname}|{shape.name}'.encode()) ^ seed)
    evals = 0
    fails = []
    skipped = 0          # inputs the harness could not evaluate (a fault when frequent); inputs outside the precondition are not counted
    outside = 0
    # draw more than n_samples candidates: inputs outside the contract's precondition are discarded, and the quota is of *evaluated* inputs
    custom = getattr(shape, 'gen', None) is not None
    # (the default generator decides itself how many candidates a shape deserves -- e.g. the complete boundary sweep for a single
    #  integer value -- so only custom generators get a quota of evaluated inputs)
    def candidates():
        yield from gen_inputs(interp, shape, rng, n_samples * (6 if custom else 1), max_len=max_len)
        if not custom and evals < max(3, n_samples // 3) and outside > 0:
            # most candidates fell outside the contract's precondition: draw a larger second batch
            yield from gen_inputs(interp, shape, rng, n_samples * 5, max_len=max_len)
    for vals in candidates():
        if (custom and evals >= n_samples) or outside + skipped >= n_samples * 8:
            break
        info = replay.replay(interp, contract, shape, vals)
        if info.get('reproduced') is None:
            if info.get('benign_skip'):
                outside += 1
            else:
                skipped += 1
            continue
        evals += 1
        if info['reproduced']:
            fails.append(info)
            if len(fails) >= 3:
                break
    return evals, fails, skipped
