"""C05 bounded stand-in for the tokeniser (regular-expression / string code, outside the prover): formats generated from a
grammar are packed, unpacked and compared with an independent per-token reference encoder; the compositional laws are
checked on real strings."""
import random
import struct

META = {'explanation': 'pack/_read_dtype_list arithmetic proved over token lists with symbolic lengths and values; the tokeniser is '
                       'checked by a bounded grammar enumeration against an independent reference.'}
EXTRA_TASKS = ['grammar']
# the exp-Golomb encoders/decoders are token kinds of pack/unpack: their contracts are re-run as part of C05
ALSO_PROPS = ['C10']


def enc(name, n, v):
    """independent reference encoding -> bit string"""
    if name == 'uint':
        return format(v, f'0{n}b')
    if name == 'int':
        return format(v & ((1 << n) - 1), f'0{n}b')
    if name == 'uintbe':
        return format(v, f'0{n}b')
    if name == 'uintle':
        return ''.join(format(b, '08b') for b in v.to_bytes(n // 8, 'little'))
    if name == 'intle':
        return ''.join(format(b, '08b') for b in v.to_bytes(n // 8, 'little', signed=True))
    if name == 'hex':
        return ''.join(format(int(c, 16), '04b') for c in v)
    if name == 'oct':
        return ''.join(format(int(c, 8), '03b') for c in v)
    if name == 'bin':
        return v
    if name == 'bool':
        return '1' if v else '0'
    if name == 'bytes':
        return ''.join(format(b, '08b') for b in v)
    if name == 'pad':
        return '0' * n
    if name == 'float':
        return ''.join(format(b, '08b') for b in struct.pack({16: '>e', 32: '>f', 64: '>d'}[n], v))
    if name == 'bits':
        return BITS_VALUES[v]
    if name == 'ue':
        x = v + 1
        k = x.bit_length() - 1
        return '0' * k + '1' + (format(x - (1 << k), f'0{k}b') if k else '')
    raise KeyError(name)


# values of a bits token: literals, and token strings (whose own '=' must not confuse the outer 'bits:n=...' token)
BITS_VALUES = {'0b101': '101', '0xf3': '11110011', 'uint:8=3': '00000011', 'int:4=-1': '1111', 'hex:8=a5': '10100101', 'bin=0110': '0110', 'se=-7': '0001111',
               'ue=2': '011', 'bool=True': '1', 'uintle:16=258': '0000001000000001', '0o17': '001111'}


def rand_token(rng):
    name = rng.choice(['uint', 'int', 'uintbe', 'uintle', 'intle', 'hex', 'oct', 'bin', 'bool', 'bytes', 'pad', 'float', 'ue', 'bits'])
    if name == 'bits':
        v = rng.choice(sorted(BITS_VALUES))
        return name, len(BITS_VALUES[v]), v
    if name in ('uint', 'int'):
        n = rng.randint(1, 70)
        v = rng.randrange(0, 1 << n) if name == 'uint' else rng.randrange(-(1 << (n - 1)), 1 << (n - 1))
        if rng.random() < 0.15:
            v = 0
    elif name in ('uintbe', 'uintle', 'intle'):
        n = 8 * rng.randint(1, 5)
        v = rng.randrange(0, 1 << n) if name != 'intle' else rng.randrange(-(1 << (n - 1)), 1 << (n - 1))
    elif name == 'hex':
        k = rng.randint(1, 6); n = 4 * k; v = ''.join(rng.choice('0123456789abcdef') for _ in range(k))
    elif name == 'oct':
        k = rng.randint(1, 6); n = 3 * k; v = ''.join(rng.choice('01234567') for _ in range(k))
    elif name == 'bin':
        n = rng.randint(1, 12); v = ''.join(rng.choice('01') for _ in range(n))
    elif name == 'bool':
        n = 1; v = rng.random() < 0.5
    elif name == 'bytes':
        k = rng.randint(1, 4); n = k; v = bytes(rng.randrange(256) for _ in range(k))
    elif name == 'pad':
        n = rng.randint(1, 9); v = None
    elif name == 'float':
        n = rng.choice([16, 32, 64]); v = rng.choice([0.0, 1.5, -2.25, 1024.0])
    else:
        n = None; v = rng.choice([0, 0, rng.randint(0, 200)])
    return name, n, v


def spell(rng, name, n, inline_value, v):
    if n is None or name == 'bool':
        s = name
    else:
        s = rng.choice([f'{name}:{n}', f'{name}{n}', f'{name} : {n}' if False else f'{name}:{n}'])
    if inline_value and v is not None:
        vs = v.hex() if isinstance(v, bytes) else str(v)
        if isinstance(v, bytes):
            return None
        s += f'={vs}'
    return s


def grammar(tier='quick', seed=0):
    import bitstring
    from bitstring import pack, Bits, BitStream
    rng = random.Random(seed)
    fails = []
    evals = 0
    N = 1500 if tier == 'quick' else 20000
    for _ in range(N):
        toks = [rand_token(rng) for _ in range(rng.randint(1, 5))]
        parts, vals, want, kws = [], [], '', {}
        for name, n, v in toks:
            inline = rng.random() < 0.3
            s = spell(rng, name, n, inline, v)
            if s is None:
                inline = False
                s = spell(rng, name, n, False, v)
            if not inline and v is not None and not isinstance(v, bytes) and rng.random() < 0.25:
                # the value through a keyword: 'uint:8=kv0' with kv0=... (zero, False and 0.0 are values like any other)
                kn = f'kv{len(kws)}'
                kws[kn] = v
                s += f'={kn}'
                inline = True
            parts.append(s)
            if not inline and v is not None:
                vals.append(v)
            want += enc(name, n, v)
        fmt = rng.choice([', ', ',', ' ,  ']).join(parts)
        evals += 1
        try:
            p = pack(fmt, *vals, **kws)
            ok = p.bin == want
            if ok:
                back = p.unpack(', '.join(spell(rng, nm, n, False, v) for nm, n, v in toks))
                exp = [(bitstring.Bits(bin=BITS_VALUES[v]) if nm == 'bits' else v) for nm, n, v in toks if nm != 'pad']
                ok = len(back) == len(exp) and all((a == b) for a, b in zip(back, exp))
        except Exception as e:
            ok = False
        if not ok:
            fails.append({'call': f'pack({fmt!r}, *{vals!r}, **{kws!r})', 'expected_bin': want[:80],
                          'python': f"import bitstring\ntry:\n    FAILS = bitstring.pack({fmt!r}, *{vals!r}, **{kws!r}).bin != {want!r}\nexcept Exception:\n    FAILS = True"})
            if len(fails) > 5:
                break
        # compositional laws
        if len(toks) >= 2 and all(v is not None for _, _, v in toks):
            evals += 1
            k = rng.randint(1, len(toks) - 1)
            f1 = ', '.join(spell(rng, nm, n, True, v) or '' for nm, n, v in toks[:k])
            f2 = ', '.join(spell(rng, nm, n, True, v) or '' for nm, n, v in toks[k:])
            if '' in (f1, f2) or any(isinstance(v, bytes) for _, _, v in toks):
                continue
            try:
                if Bits(f1 + ', ' + f2) != Bits(f1) + Bits(f2):
                    fails.append({'call': f'Bits({f1!r} + ", " + {f2!r})', 'python': "FAILS = True"})
                m = rng.randint(1, 3)
                if Bits(f'{m}*({f1})') != Bits(f1) * m:
                    fails.append({'call': f'Bits("{m}*({f1})")', 'python': "FAILS = True"})
            except Exception as e:
                fails.append({'call': f'compose {f1!r} {f2!r}', 'observed': type(e).__name__, 'python': "FAILS = True"})
        # wrong number / size of values
        evals += 1
        need = [v for _, _, v in toks if v is not None]
        plain = ', '.join(spell(rng, nm, n, False, v) for nm, n, v in toks)
        for bad in (need[:-1] if need else None, need + [1]):
            if bad is None:
                continue
            try:
                pack(plain, *bad)
                fails.append({'call': f'pack({plain!r}, *{bad!r})', 'observed': 'accepted', 'expected': 'CreationError',
                              'python': f"import bitstring\ntry:\n    bitstring.pack({plain!r}, *{bad!r})\n    FAILS = True\nexcept ValueError:\n    FAILS = False"})
            except ValueError:
                pass
            except Exception as e:
                fails.append({'call': f'pack({plain!r}, *{bad!r})', 'observed': type(e).__name__, 'python': "FAILS = True"})
    # a stated length that disagrees with the size of the value -- including a stated length of zero -- is refused, by every spelling
    for name, good_n, v in (('hex', 8, 'ff'), ('bin', 3, '101'), ('oct', 6, '17'), ('bytes', 2, b'ab'), ('bits', 4, '0xf'), ('uint', 8, 255)):
        for n in (0, good_n - 1 if name in ('bin', 'bits') else good_n * 2):
            if name == 'uint' and n != 0:
                continue
            for how in ('value argument', 'inline value', 'keyword length'):
                if how == 'inline value' and isinstance(v, bytes):
                    continue
                evals += 1
                call = {'value argument': lambda: pack(f'{name}:{n}', v), 'inline value': lambda: pack(f'uint:8, {name}:{n}={v}, uint:8', 1, 2),
                        'keyword length': lambda: pack(f'{name}:k', v, k=n)}[how]
                try:
                    r = call()
                    fails.append({'call': f'pack of a {name} token of stated length {n} with the value {v!r} ({how})', 'observed': f'accepted: {len(r)} bits', 'expected': 'CreationError',
                                  'python': f"import bitstring\ntry:\n    bitstring.pack('{name}:{n}', {v!r})\n    FAILS = True\nexcept ValueError:\n    FAILS = False"})
                except ValueError:
                    pass
                except Exception as e:
                    fails.append({'call': f'pack of a {name} token of stated length {n} with the value {v!r} ({how})', 'observed': type(e).__name__, 'python': "FAILS = True"})
    # struct-style tokens with several codes, counts and factors: 'k*<hB' is k repetitions of the *group*, i.e. struct.pack('<' + 'hB' * k)
    import struct
    ranges = {'b': (-128, 127), 'B': (0, 255), 'h': (-2 ** 15, 2 ** 15 - 1), 'H': (0, 2 ** 16 - 1), 'l': (-2 ** 31, 2 ** 31 - 1), 'L': (0, 2 ** 32 - 1),
              'q': (-2 ** 63, 2 ** 63 - 1), 'Q': (0, 2 ** 64 - 1)}
    for _ in range(300 if tier == 'quick' else 5000):
        evals += 1
        prefix = rng.choice('<>')
        codes = ''.join(rng.choice('bBhHlLqQ') for _ in range(rng.randint(1, 3)))
        counted = ''.join((str(rng.randint(2, 3)) if rng.random() < 0.25 else '') + c for c in codes)
        flat = ''
        for mm in __import__('re').finditer(r'(\d*)([bBhHlLqQ])', counted):
            flat += mm.group(2) * int(mm.group(1) or 1)
        k = rng.choice([1, 2, 2, 3])
        spelled = rng.choice([f'{k}*{prefix}{counted}', f'{k}*({prefix}{counted})', ', '.join([prefix + counted] * k)])
        vals = [rng.choice([ranges[c][0], ranges[c][1], 0, 1, rng.randint(*ranges[c])]) for c in flat * k]
        want_bytes = struct.pack(prefix + flat * k, *vals)
        try:
            got = pack(spelled, *vals)
            ok = got.tobytes() == want_bytes and len(got) == 8 * len(want_bytes) and got.unpack(spelled) == vals
        except Exception:
            ok = False
        if not ok:
            fails.append({'call': f'pack({spelled!r}, *{vals!r})', 'expected': f'struct.pack({prefix + flat * k!r}, ...)',
                          'python': f"import bitstring, struct\nv = {vals!r}\ntry:\n    FAILS = bitstring.pack({spelled!r}, *v).tobytes() != struct.pack({prefix + flat * k!r}, *v)\nexcept Exception:\n    FAILS = True"})
            if len(fails) > 5:
                break
    # list formats: pack([f1, f2], ...) == pack(f1) + pack(f2), repeatable, and f1 alone still behaves afterwards
    for _ in range(60 if tier == 'quick' else 600):
        toks = [rand_token(rng) for _ in range(rng.randint(2, 4))]
        toks = [t for t in toks if t[2] is not None and not isinstance(t[2], bytes)]
        if len(toks) < 2:
            continue
        fl = [spell(rng, nm, n, False, v) for nm, n, v in toks]
        vals = [v for _, _, v in toks]
        want = ''.join(enc(nm, n, v) for nm, n, v in toks)
        evals += 1
        try:
            a = pack(list(fl), *vals).bin
            b = pack(list(fl), *vals).bin
            c = pack(fl[0], vals[0]).bin
            ok = a == want and b == want and c == enc(*toks[0])
        except Exception as e:
            ok = False
        if not ok:
            fails.append({'call': f'pack({fl!r}, *{vals!r}) twice, then pack({fl[0]!r}, {vals[0]!r})',
                          'python': f"import bitstring\ntry:\n    a = bitstring.pack({fl!r}, *{vals!r}).bin\n    b = bitstring.pack({fl!r}, *{vals!r}).bin\n"
                                    f"    c = bitstring.pack({fl[0]!r}, {vals[0]!r}).bin\n    FAILS = not (a == b == {want!r} and c == {enc(*toks[0])!r})\nexcept Exception:\n    FAILS = True"})
    # a stated length that disagrees with the value
    for fmt, vals in (('hex:8', ['abc']), ('bin:3', ['1111']), ('bytes:2', [b'abc']), ('bits:5', ['0b1']), ('uint:3', [8]), ('int:3', [4]),
                      ('hex:8=abc', []), ('uint:3=9', [])):
        evals += 1
        try:
            pack(fmt, *vals)
            fails.append({'call': f'pack({fmt!r}, *{vals!r})', 'observed': 'accepted', 'expected': 'CreationError',
                          'python': f"import bitstring\ntry:\n    bitstring.pack({fmt!r}, *{vals!r})\n    FAILS = True\nexcept ValueError:\n    FAILS = False"})
        except ValueError:
            pass
    return {'id': 'C05.grammar', 'obligations': [], 'evaluations': evals,
            'bounded': [{'id': 'C05/utils.tokenparser/grammar-differential', 'qualname': 'utils.tokenparser', 'shape': 'grammar',
                         'function': 'tokenparser/preprocess_tokens/expand_brackets/pack/unpack',
                         'bound': f'{N} random formats of 1..5 tokens from 13 dtype kinds, inline and separate values, spacing variants, n*( ) groups',
                         'evaluations': evals, 'failures': fails[:3]}],
            'summary': f'{evals} evaluations, {len(fails)} failures'}
