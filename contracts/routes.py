"""C02 / C15: every creation route for the same (dtype, length, value) reaches the same encoding or the same rejection."""
from pyvc.contract import contract, Shape, Contract, INLINE
from pyvc import sym, spec
from pyvc.sym import lor, lnot, land, ite
from pyvc.spec import bits, mk_bits, mk_store
from pyvc.shapes import m_bits, r_bits
from pyvc.extern import BA
from pyvc.interp import Obj
from .common import *
from .values import INT_ROWS, enc_int
from .streams import _byterev
from .bits_ops import _set_bits

CLASSES = {'Bits': 'bits.Bits', 'BitArray': 'bitarray_.BitArray', 'ConstBitStream': 'bitstream.ConstBitStream', 'BitStream': 'bitstream.BitStream'}
ROWS = ['uint', 'int', 'uintbe', 'intbe', 'uintle', 'intle', 'uintne', 'intne']


def enc_row(C, name, v, n):
    signed, endian, whole = INT_ROWS[name]
    if n is None or not sym.is_intlike(n):
        C.throw('ValueError')
    if sym.truth(n <= 0):
        C.throw('ValueError')
    if whole and sym.truth(lnot(sym.eq(n % 8, 0))):
        C.throw('ValueError')
    V = enc_int(C, v, n, signed)
    return _byterev(V) if endian == 'le' else V


# ---- keyword route: Cls(uint=v, length=n) ---------------------------------------------------------------------------------
def _kw_shapes():
    out = []
    for nm in ROWS:
        for lk in ('int', None):
            def build(S, interp, nm=nm, lk=lk):
                kw = {nm: S.int('v')}
                if lk:
                    kw['length'] = S.int('n')
                return [], kw

            def real(vals, nm=nm, lk=lk):
                kw = {nm: vals['v']}
                if lk:
                    kw['length'] = vals['n']
                return [], kw
            out.append(Shape(f'{nm}/length={lk}', build, real))
    return out


def _kw_spec(clsname):
    def f(C, **kw):
        n = kw.pop('length', None)
        (name, v), = kw.items()
        V = enc_row(C, name, v, n)
        return mk_bits(C, C.cls(clsname), V, pos=0)
    return f


for _cn, _q in CLASSES.items():
    Contract(_q + '@keyword-int-route', target=_q, spec=_kw_spec(_cn), shapes=_kw_shapes(), props={'C02', 'C15'}, kind='public',
             note=f"{_cn}(<int row>=v, length=n): exactly the n-bit canonical encoding, or CreationError when n is missing, not "
                  "positive, not allowed for the row, or v does not fit")


# ---- property assignment on mutable objects: a.uint = v, a.uint12 = v -------------------------------------------------------
def _setattr_shapes():
    out = []
    for cls, st in MUT_STATES:
        for nm in ROWS + ['uint12', 'int7', 'uintle16', 'uintbe24']:
            digits = nm[len(nm.rstrip('0123456789')):]
            cases = ('pos<=newlen', 'pos>newlen') if (digits and cls == 'BitStream') else ('',)
            for case in cases:
                def build(S, interp, cls=cls, st=st, nm=nm, case=case, digits=digits):
                    o = m_bits(S, interp, 'self', cls, st)
                    if case:
                        p = o.attrs['_pos']
                        S.assume(p <= int(digits) if case == 'pos<=newlen' else p > int(digits))
                    return [o, nm, S.int('v')], {}

                def real(vals, cls=cls, st=st, nm=nm):
                    return [r_bits(vals, 'self', cls, st), nm, vals['v']], {}
                out.append(Shape(f'{cls}/{nm}' + ('/' + case if case else ''), build, real))
    return out


@contract('bitarray_.BitArray.__setattr__', shapes=_setattr_shapes(), props={'C02', 'C15', 'C06'}, kind='public',
          note="a.<row> = v re-encodes v in len(a) bits, a.<row><n> = v in n bits; a value that does not fit or a length the "
               "row does not allow raises CreationError and leaves a unchanged; a stream's pos stays valid (0 if the length changed)")
def setattr_spec(C, self, attribute, value):
    name = attribute.rstrip('0123456789')
    digits = attribute[len(name):]
    if name not in INT_ROWS:
        return INLINE           # ordinary attributes (_bitstore, _pos) and the other dtypes run the real body
    old = bits(self)
    if digits:
        n = int(digits)
    else:
        n = old.n
        if sym.truth(sym.eq(n, 0)):
            C.throw('ValueError')
    V = enc_row(C, name, value, n)
    _set_bits(C, self, V)
    if '_pos' in self.attrs and sym.truth(self.attrs['_pos'] > V.n):
        self.attrs['_pos'] = 0          # nothing documents a move; but 0 <= pos <= len must keep holding
    return None


# ---- keyword route for the string / bytes / bool rows: a stated length must agree with the value ------------------------------
STR_ROWS = [('hex', 'ff', 8), ('hex', '0x1f3', 12), ('bin', '101', 3), ('oct', '17', 6), ('bool', True, 1), ('bin', '', 0)]
# (bytes= is a window constructor -- length/offset select bits -- and is specified in contracts/sources.py)


def _kw_str_shapes():
    out = []
    for nm, val, units in STR_ROWS:
        def build(S, interp, nm=nm, val=val):
            return [], {nm: val, 'length': S.int('n')}

        def real(vals, nm=nm, val=val):
            return [], {nm: val, 'length': vals['n']}
        out.append(Shape(f'{nm}={val!r}', build, real))
    return out


def _kw_str_spec(clsname):
    def f(C, **kw):
        n = kw.pop('length')
        (name, v), = kw.items()
        units = next(u for nm, val, u in STR_ROWS if nm == name and val == v)
        if sym.truth(lnot(sym.eq(n, units))):
            C.throw('ValueError')
        if name == 'bytes':
            V = BA.concrete([bool((b >> (7 - k)) & 1) for b in v for k in range(8)])
        elif name == 'bool':
            V = BA.concrete([bool(v)])
        else:
            per = {'hex': 4, 'oct': 3, 'bin': 1}[name]
            digits = v[2:] if v[:2] in ('0x', '0o', '0b') else v
            V = BA.concrete([bool((int(ch, 16) >> (per - 1 - k)) & 1) for ch in digits for k in range(per)])
        return mk_bits(C, C.cls(clsname), V, pos=0)
    return f


for _cn, _q in CLASSES.items():
    Contract(_q + '@keyword-string-route', target=_q, spec=_kw_str_spec(_cn), shapes=_kw_str_shapes(), props={'C15', 'C02'}, kind='public',
             note=f"{_cn}(hex=.., length=n) etc.: a stated length that disagrees with the value's length raises CreationError; "
                  "otherwise exactly the value's bits")


# ---- keyword route for the float rows --------------------------------------------------------------------------------------
def _kw_float_shapes():
    out = []
    for nm in ('float', 'floatbe', 'floatle', 'floatne'):
        def build(S, interp, nm=nm):
            return [], {nm: S.float('f'), 'length': S.int('n')}

        def real(vals, nm=nm):
            return [], {nm: vals['f'], 'length': vals['n']}

        def gen(rng):
            return {'f': rng.choice([0.0, -0.0, 1.5, -2.25, 65520.0, 1e39, -1e39, 1e300, float('inf'), rng.uniform(-100, 100)]),
                    'n': rng.choice([16, 32, 64, 16, 32, 64, 0, 8, 24, 128, -32])}
        out.append(Shape(nm, build, real, gen=gen))
    return out


def _kw_float_spec(clsname):
    import sys as _s
    from .floats import enc_float

    def f(C, **kw):
        n = kw.pop('length')
        (name, v), = kw.items()
        be = {'float': True, 'floatbe': True, 'floatle': False, 'floatne': _s.byteorder != 'little'}[name]
        return mk_bits(C, C.cls(clsname), enc_float(C, v, n, be), pos=0)
    return f


for _cn, _q in CLASSES.items():
    Contract(_q + '@keyword-float-route', target=_q, spec=_kw_float_spec(_cn), shapes=_kw_float_shapes(), props={'C02', 'C15', 'C18'}, kind='public',
             note=f"{_cn}(float*=f, length=n): n must be 16, 32 or 64 (CreationError otherwise); the struct encoding in the row's byte order")
