import sys
sys.path.insert(0,'/verif')
from pyvc.interp import Interp
from pyvc import concrete
I=Interp()
I.get_module('bitstring')
tests = r'''
Bits('0b1011')
Bits('0b1011')[1:3]
Bits('0b1011')[::-1]
Bits('0b10110')[-1]
Bits('0b10110')[7]
BitArray('0xff') + '0b1'
Bits('0b1') + BitArray('0b111')
Bits('0b101') * 3
len(Bits('0x1234'))
Bits(uint=5, length=8)
Bits(int=-5, length=8)
Bits(int=-5, length=8).int
Bits(uint=300, length=8)
Bits('uint8=3, 0x1')
Bits('0xab').hex
Bits('0xab').uint
BitArray('0xab').uintle
Bits('0b1101').bin
Bits('0o17').oct
list(Bits('0b10110').findall('0b1'))
Bits('0b10110').find('0b11')
Bits('0b10110').rfind('0b1')
Bits('0b0001').ue
Bits(ue=5)
Bits(se=-3)
Bits(uie=7)
Bits(sie=-2)
BitStream('ue=5, se=-3').readlist('ue, se')
a = BitArray('0b0011'); a.invert(); a
a = BitArray('0b0011'); a.ror(1); a
a = BitArray('0b0011'); a.rol(1, 1, 4); a
a = BitArray('0x0102030405'); a.byteswap(2); a
a = BitArray('0b0011'); a.reverse(); a
a = BitArray('0b0011'); a[1:3] = '0b111'; a
a = BitArray('0b0011'); del a[1:3]; a
a = BitArray('0b0011'); a.insert('0b1', 2); a
a = BitArray('0b0011'); a.overwrite('0b11', 0); a
a = BitArray('0b00110011'); a.replace('0b11', '0b0'); a
a = BitArray('0b0011'); a.set(1, [0, 1]); a
a = BitArray('0b0011'); a <<= 1; a
a = BitArray('0b0011'); a >>= 1; a
a = BitArray('0b0011'); a.uint = 5; a
a = BitArray('0b0011'); a.u8 = 5; a
Bits('0b0011') & '0b0101'
Bits('0b0011') | '0b0101'
Bits('0b0011') ^ '0b0101'
~Bits('0b0011')
Bits('0b0011') << 1
Bits('0b0011') >> 5
Bits('0b0011') == '0b0011'
Bits('0b0011') == 3
Bits('0b0011') != BitArray('0b0011')
list(Bits('0x0f0f').cut(5))
list(Bits('0x0f0f').split('0xf'))
Bits('0x0f0f').startswith('0x0')
Bits('0x0f0f').endswith('0xf')
Bits('0x0f0f').count(1)
Bits('0x0f0f').tobytes()
Bits('0b111').tobytes()
Bits(bytes=b'abc', offset=4, length=12)
Bits(float=1.5, length=32)
Bits(float=1.5, length=32).float
Bits(floatle=1.5, length=64).floatle
Bits('float32=1.5').f32
Bits('bfloat=1.5').bfloat
pack('uint8, int4, bits', 1, -2, '0b1')
pack('2*(uint4), hex', 1, 2, 'ff')
pack('<HH', 1, 2)
pack('uint8', 1, 2)
pack('uint8')
s = BitStream('0x1234'); s.read(4)
s = BitStream('0x1234'); s.read('uint8'); s.pos
s = BitStream('0x1234'); s.read('hex')
s = BitStream('0x1234'); s.read(20)
s = BitStream('0x1234'); s.pos = 20
s = ConstBitStream('0x1234'); s.peek('u4'); s.pos
s = BitStream('0x1234'); s.readto('0b1')
s = BitStream('0x1234', pos=3); s.bytealign(); s.pos
Bits('0x1234').unpack('u4, hex, u4')
Bits('0x1234').unpack('u4, hex')
Dtype('uint8')
Dtype('uint', 8).build(3)
Dtype('int', 4).parse('0b1111')
Dtype('float', 17)
Dtype('uintle', 12)
Bits('0x12').e4m3mxfp
Bits(e4m3mxfp=0.5)
Bits(p4binary=0.5)
Bits(mxint=0.5)
Bits(e8m0mxfp=4.0)
hash(Bits('0x1234')) == hash(ConstBitStream('0x1234'))
Bits('0b1').join(['0b0', '0b00'])
Bits(5)
Bits(-1)
BitArray(hex='0x1g')
BitArray(bin='012')
Bits('0b1', foo=3)
Bits(bool=True)
Bits('pad:3')
Bits('0b101').all(1, [0, 2])
Bits('0b101').any(0)
Bits('0b101').all(1)
str(Bits('0b101'))
repr(BitStream('0x1234', pos=4))
str(Bits('0x12345'))
Bits('0x12').bytes
Bits('0b1').bytes
Array('uint8', [1,2,3]).data
Array('uint8', [1,2,3])[1]
Array('int4', [1,-2,3]).tolist()
a = Array('uint8', [1,2,3]); a.append(4); a.tolist()
a = Array('uint8', [1,2,3]); a.pop(); a.tolist()
a = Array('uint8', [1,2,3]); a[0:2] = [9,8,7]; a.tolist()
(Array('uint8', [1,2,3]) + 1).tolist()
Array('uint8', [1,2,3]) * 100
'''
bad=0
for line in tests.strip().splitlines():
    try:
        m,r = concrete.both(I, line)
    except Exception as ex:
        import traceback
        print('CRASH', line, '->', type(ex).__name__, ex)
        bad+=1
        continue
    if m!=r:
        bad+=1
        print('DIFF', line, '\n   model', m, '\n   real ', r)
print('bad', bad)
