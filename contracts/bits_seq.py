"""C01: a bitstring is the Python sequence of its bits (bits.py / bitstream.py)."""
from pyvc.contract import contract, Shape, INLINE
from pyvc import sym, spec
from pyvc.spec import bits, slice_view, index_view, cat, mk_bits
from pyvc.shapes import m_bits, r_bits
from .common import *


def _self_shapes(extra=lambda S, interp, d, self_: [], extra_real=lambda v, d, self_: [], combos=({},), states=SELF_STATES,
                 props=None, opts=None):
    out = []
    for cls, st in states:
        for d in combos:
            def build(S, interp, cls=cls, st=st, d=d):
                o = m_bits(S, interp, 'self', cls, st)
                return [o] + extra(S, interp, d, o), {}

            def real(vals, cls=cls, st=st, d=d):
                o = r_bits(vals, 'self', cls, st)
                return [o] + extra_real(vals, d, o), {}
            out.append(Shape(f'{cls}/{st}' + ('/' + cname(d) if d else ''), build, real, props=props, opts=opts))
    return out


@contract('bits.Bits.__len__', shapes=_self_shapes(), props={'C01', 'C08'}, kind='public',
          note="len(s) == len(s.bin)")
def bits_len(C, self):
    return bits(self).n


@contract('bits.Bits.__bool__', shapes=_self_shapes(), props={'C01', 'C08'}, kind='public',
          note="bool(s) iff len(s) != 0")
def bits_bool(C, self):
    return sym.lnot(sym.eq(bits(self).n, 0))


_key_combos = [{'key': 'index'}] + [dict(d, key='slice') for d in opt_combos(['start', 'stop', 'step'], 'step')]


def _mk_key(S, interp, d, self_):
    if d['key'] == 'index':
        return [S.int('index')]
    return [slice(mk_opt(S, 'start', d['start']), mk_opt(S, 'stop', d['stop']), mk_opt(S, 'step', d['step']))]


def _r_key(v, d, self_):
    if d['key'] == 'index':
        return [v['index']]
    return [slice(rv(v, 'start', d['start']), rv(v, 'stop', d['stop']), rv(v, 'step', d['step']))]


def getitem_spec(C, self, key):
    V = bits(self)
    if isinstance(key, slice):
        return mk_bits(C, self.cls, slice_view(C, V, key), pos=0)
    b = index_view(C, V, key)
    return b if isinstance(b, bool) else sym.mk_bool(sym._b(b))


contract('bits.Bits.__getitem__',
         shapes=_self_shapes(_mk_key, _r_key, _key_combos, states=[s for s in SELF_STATES if s[0] in ('Bits', 'BitArray')]),
         props={'C01', 'C08'}, kind='public',
         note="s[i] is bit i (IndexError outside [-n, n)); s[a:b:c] is a new object of type(s) holding seq[a:b:c]")(getitem_spec)

contract('bitstream.ConstBitStream.__getitem__',
         shapes=_self_shapes(_mk_key, _r_key, _key_combos, states=[s for s in SELF_STATES if s[0] in ('ConstBitStream', 'BitStream')]),
         props={'C01', 'C08', 'C06'}, kind='public',
         note="as Bits.__getitem__; the new stream starts at pos 0 and the operand's pos is not touched")(getitem_spec)


# ---- concatenation -----------------------------------------------------------------------
def _operand_shapes(states, operands, name='bs', props=None):
    out = []
    for cls, st in states:
        for k in operands:
            def build(S, interp, cls=cls, st=st, k=k):
                o = m_bits(S, interp, 'self', cls, st)
                return [o, m_operand(S, interp, name, k, o)], {}

            def real(vals, cls=cls, st=st, k=k):
                o = r_bits(vals, 'self', cls, st)
                return [o, r_operand(vals, name, k, o)], {}
            out.append(Shape(f'{cls}/{st}/{opname(k)}', build, real, props=props))
    return out


def add_spec(C, self, bs):
    if C.callsite and is_stream(self.cls) and C.qualname.startswith('bits.Bits.'):
        return INLINE
    return mk_bits(C, self.cls, cat(bits(self), promote_bits(C, bs)), pos=0)


contract('bits.Bits.__add__', shapes=_operand_shapes([s for s in SELF_STATES if s[0] in ('Bits', 'BitArray')], OPERANDS),
         props={'C01', 'C08'}, kind='public',
         note="s + t holds bits(s) followed by bits(t), has the class of the left operand, and neither operand changes")(add_spec)

contract('bitstream.ConstBitStream.__add__',
         shapes=_operand_shapes([s for s in SELF_STATES if s[0] in ('ConstBitStream', 'BitStream')], OPERANDS),
         props={'C01', 'C08', 'C06'}, kind='public',
         note="as Bits.__add__; result pos 0, operands' pos untouched")(add_spec)


def radd_spec(C, self, bs):
    # t + s with t not a bitstring: class of the bitstring operand
    return mk_bits(C, self.cls, cat(promote_bits(C, bs), bits(self)), pos=0)


contract('bits.Bits.__radd__', shapes=_operand_shapes(SELF_STATES, [('str',), ('bytes',)]),
         props={'C01', 'C08'}, kind='public',
         note="t + s for a promotable t: promote(t) followed by bits(s), class of the bitstring operand")(radd_spec)


# ---- iteration -------------------------------------------------------------------------------------------------
from pyvc.interp import SeqVal


def _iter_spec(C, self):
    V = spec.store_bits(self) if self.cls.name == 'BitStore' else bits(self)
    b = V.bit
    return ('gen', [SeqVal(V.n, lambda j: (b(j) if isinstance(b(j), bool) else sym.mk_bool(sym._b(b(j)))))])


from .bitstore import _store_shapes
contract('bitstore.BitStore.__iter__', shapes=_store_shapes(), props={'C01', 'C08'}, kind='public',
         note="iterating a store yields exactly its len logical bits, in order (uniform-map loop: one yield per index)")(_iter_spec)
contract('bits.Bits.__iter__', shapes=_self_shapes(), props={'C01', 'C08'}, kind='public',
         note="iter(s) yields exactly the bits of s, in order, for every class and store state")(_iter_spec)
from pyvc.contract import REGISTRY as _R
_R['bitstore.BitStore.__iter__'].inline = True     # generator contracts are not substituted at call sites
_R['bits.Bits.__iter__'].inline = True


# ---- join ---------------------------------------------------------------------------------------------------
_JOIN_ITEMS = [(), (('obj', 'Bits', 'immutable'),), (('obj', 'BitArray', 'plain'), ('str',)), (('obj', 'BitStream', 'plain'), ('self',), ('obj', 'Bits', 'buffer')),
               (('str',), ('bytes',))]


def _join_shapes():
    out = []
    for cls, st in SELF_STATES:
        for kinds in _JOIN_ITEMS:
            for as_tuple in (False, True):
                def build(S, interp, cls=cls, st=st, kinds=kinds, as_tuple=as_tuple):
                    o = m_bits(S, interp, 'self', cls, st)
                    items = [m_operand(S, interp, f'it{i}', k, o) for i, k in enumerate(kinds)]
                    return [o, tuple(items) if as_tuple else items], {}

                def real(vals, cls=cls, st=st, kinds=kinds, as_tuple=as_tuple):
                    o = r_bits(vals, 'self', cls, st)
                    items = [r_operand(vals, f'it{i}', k, o) for i, k in enumerate(kinds)]
                    return [o, tuple(items) if as_tuple else items], {}
                out.append(Shape(f'{cls}/{st}/' + ('+'.join(opname(k) for k in kinds) or 'empty') + ('/tuple' if as_tuple else '/list'), build, real))
    return out


@contract('bits.Bits.join', shapes=_join_shapes(), props={'C01', 'C04', 'C08'}, kind='public',
          note="s.join(seq): the items' bits with the bits of s between consecutive items, in a new object of s's class (pos 0); the empty "
               "sequence gives an empty object; neither s nor any item changes, and the result shares nothing with them")
def join_spec(C, self, sequence):
    V = spec.zeros(0)
    first = True
    for it in list(sequence):
        if not first:
            V = cat(V, bits(self))
        V = cat(V, promote_bits(C, it))
        first = False
    return mk_bits(C, self.cls, V, pos=0)
