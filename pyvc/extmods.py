"""Models of the external modules the repo imports (assumed contracts, see extern.py)."""
from __future__ import annotations

import re as _re
import struct as _struct
import math as _math
import zlib as _zlib
import operator as _operator
import sys as _sys
import os as _os
import io as _io
import array as _array
import copy as _copy

import z3

from . import sym
from .sym import SInt, SBool, Unsupported, NeedConcrete, is_sym, ite, land, lor, lnot
from .interp import (ClassVal, Obj, FuncVal, BoundMethod, ClassMethodVal, StaticMethodVal, PropertyVal,
                     Partial, Builtin, ModuleVal, GenObj, SRange, PyRaise, OpaqueStr, _MISSING)
from . import extern
from .extern import BA, BBytes, SymBytes, SStr, SFloat, _TypeBuiltin, _AbstractType


class _Any:
    """typing placeholder: subscriptable, callable, or-able"""

    def __getitem__(self, k):
        return self

    def __call__(self, *a, **k):
        return self

    def __or__(self, o):
        return self

    __ror__ = __or__

    def __getattr__(self, n):
        if n.startswith('__') or n.startswith('pyvc_'):
            raise AttributeError(n)
        return self


def install(interp):
    B = interp.builtins
    M = interp.modules

    def mod(name, **ns):
        m = ModuleVal(name, dict(ns))
        m.executed = True
        M[name] = m
        return m

    anyv = _Any()
    typing_ns = {n: anyv for n in ('Union', 'Optional', 'Dict', 'Callable', 'List', 'Iterable', 'Any', 'BinaryIO',
                                    'TextIO', 'Tuple', 'Iterator', 'Type', 'Pattern', 'Match', 'Literal', 'Sequence')}
    typing_ns['TypeVar'] = Builtin(lambda *a, **k: anyv, 'TypeVar')
    typing_ns['overload'] = Builtin(lambda f: None, 'overload')
    mod('typing', **typing_ns)

    # ---- functools
    def lru_cache(*a, **k):
        def deco(f):
            g = f.func if isinstance(f, (ClassMethodVal, StaticMethodVal)) else f
            if isinstance(g, FuncVal):
                g.cached = True
            return f
        if len(a) == 1 and isinstance(a[0], (FuncVal, ClassMethodVal, StaticMethodVal)):
            return deco(a[0])
        return Builtin(deco, 'lru_cache.deco')

    mod('functools', lru_cache=Builtin(lru_cache, 'lru_cache'),
        partial=Builtin(lambda f, *a, **k: Partial(f, a, k), 'partial'))

    # ---- numbers / abc
    integral = _AbstractType('numbers.Integral', lambda it, x: isinstance(x, (int, SInt, SBool)))
    number = _AbstractType('numbers.Number', lambda it, x: isinstance(x, (int, SInt, SBool, float, SFloat, complex)))
    real = _AbstractType('numbers.Real', lambda it, x: isinstance(x, (int, SInt, SBool, float, SFloat)))
    mod('numbers', Integral=integral, Number=number, Real=real)

    def is_iterable(it, x):
        if isinstance(x, Obj):
            return x.cls.lookup('__iter__')[0] is not _MISSING
        if isinstance(x, (GenObj, SRange, BA, BBytes, SymBytes, SStr)):
            return True
        if is_sym(x) or isinstance(x, SFloat):
            return False
        try:
            iter(x)
            return True
        except TypeError:
            return False

    def is_sized(it, x):
        if isinstance(x, Obj):
            return x.cls.lookup('__len__')[0] is not _MISSING
        if isinstance(x, (BA, BBytes, SymBytes, SStr)):
            return True
        if is_sym(x) or isinstance(x, SFloat):
            return False
        return hasattr(x, '__len__')
    abc_ns = dict(Iterable=_AbstractType('abc.Iterable', is_iterable), Sized=_AbstractType('abc.Sized', is_sized))
    abcmod = mod('collections.abc', **abc_ns)
    # typing.Iterable is collections.abc.Iterable as far as isinstance() is concerned (the package tests `isinstance(v, Iterable)` with it)
    M['typing'].ns['Iterable'] = abc_ns['Iterable']
    mod('collections', abc=abcmod)

    # ---- sys / os / io / misc
    class _Modules(dict):
        pass
    sysmods = _Modules()
    stdout = _io.StringIO()
    mod('sys', byteorder=_sys.byteorder, modules=sysmods, stdout=stdout, version_info=tuple(_sys.version_info),
        maxsize=_sys.maxsize)

    class _ModulesProxy:
        def pyvc_getitem(self, it, k):
            return M.get(k) or interp.get_module(k)

        def pyvc_setitem(self, it, k, v):
            pass
    M['sys'].ns['modules'] = _ModulesProxy()
    mod('os', getenv=Builtin(lambda k, d=None: None, 'getenv'), environ={})
    mod('types', ModuleType=ClassVal('ModuleType', [B['object']], {}, builtin=True))

    def copy_copy(x):
        if isinstance(x, Obj):
            f, _ = x.cls.lookup('__copy__')
            if f is not _MISSING:
                return interp.call(BoundMethod(x, f), [], {})
            raise Unsupported("copy.copy of object without __copy__")
        if isinstance(x, BA):
            return BA(x.n, x.bit)
        return _copy.copy(x)
    mod('copy', copy=Builtin(copy_copy, 'copy.copy'))
    # the operator module: the function forms of the operators go through the interpreter's own operator semantics (model objects
    # dispatch to the package's __and__, __add__ ...); everything else is the host function
    import ast as _ast
    op_ns = {n: Builtin(getattr(_operator, n), 'operator.' + n) for n in dir(_operator)
             if not n.startswith('_') and callable(getattr(_operator, n))}
    _bin = {'and_': _ast.BitAnd, 'or_': _ast.BitOr, 'xor': _ast.BitXor, 'add': _ast.Add, 'sub': _ast.Sub, 'mul': _ast.Mult, 'lshift': _ast.LShift,
            'rshift': _ast.RShift, 'floordiv': _ast.FloorDiv, 'mod': _ast.Mod, 'truediv': _ast.Div, 'pow': _ast.Pow}
    for _n, _node in _bin.items():
        op_ns[_n] = Builtin(lambda a, b, _node=_node: interp.binop(_node(), a, b), 'operator.' + _n)
        op_ns['i' + _n.rstrip('_') if _n not in ('and_', 'or_') else 'i' + _n[:-1]] = Builtin(lambda a, b, _node=_node: interp.binop_inplace(_node(), a, b), 'operator.i' + _n)
    _cmp = {'eq': _ast.Eq, 'ne': _ast.NotEq, 'lt': _ast.Lt, 'le': _ast.LtE, 'gt': _ast.Gt, 'ge': _ast.GtE, 'is_': _ast.Is, 'is_not': _ast.IsNot}
    for _n, _node in _cmp.items():
        op_ns[_n] = Builtin(lambda a, b, _node=_node: interp.compare(_node(), a, b), 'operator.' + _n)
    op_ns['contains'] = Builtin(lambda a, b: interp.contains(a, b), 'operator.contains')
    op_ns['getitem'] = Builtin(lambda a, k: interp.getitem(a, k), 'operator.getitem')
    mod('operator', **op_ns)

    def is_bytesio(it, x):
        from . import files
        return isinstance(x, files.BytesIOModel) or isinstance(x, _io.BytesIO)

    def is_bufreader(it, x):
        from . import files
        return isinstance(x, files.FileModel)
    mod('io', BytesIO=_AbstractType('io.BytesIO', is_bytesio),
        BufferedReader=_AbstractType('io.BufferedReader', is_bufreader),
        StringIO=Builtin(lambda *a: _io.StringIO(*a), 'StringIO'))

    def mmap_mmap(fileno, length, access=None):
        from . import files
        return files.mmap_of(interp, fileno)
    mod('mmap', mmap=Builtin(mmap_mmap, 'mmap.mmap'), ACCESS_READ=1)
    mod('pathlib', Path=Builtin(lambda p: p, 'Path'))
    mod('array', array=_AbstractType('array.array', lambda it, x: isinstance(x, _array.array)))
    mod('zlib', decompress=Builtin(_zlib.decompress, 'zlib.decompress'))

    def inspect_signature(f):
        if isinstance(f, BoundMethod):
            f = f.func
        if isinstance(f, FuncVal):
            a = f.node.args
            names = [p.arg for p in a.posonlyargs + a.args + a.kwonlyargs]

            class Sig:
                parameters = {n: None for n in names}
            return Sig()
        raise Unsupported("inspect.signature of non-function")
    mod('inspect', signature=Builtin(inspect_signature, 'inspect.signature'))

    # ---- re: passthrough on concrete strings
    def re_fn(name):
        def f(*a, **k):
            for x in a:
                if isinstance(x, OpaqueStr) or is_sym(x) or isinstance(x, SStr):
                    raise NeedConcrete("regular expression on a symbolic string")
            return getattr(_re, name)(*a, **k)
        return Builtin(f, 're.' + name)
    mod('re', **{n: re_fn(n) for n in ('compile', 'match', 'search', 'findall', 'sub', 'split', 'fullmatch')},
        IGNORECASE=_re.IGNORECASE)

    # ---- math
    def m_isnan(x):
        if isinstance(x, SFloat):
            return x.isnan()
        if is_sym(x):
            return False
        try:
            return _math.isnan(x)
        except Exception as ex:
            interp.host_exc(ex)
    mod('math', isnan=Builtin(m_isnan, 'isnan'),
        **{n: Builtin(getattr(_math, n), 'math.' + n) for n in ('floor', 'ceil', 'log2', 'copysign', 'isinf', 'log', 'sqrt', 'isfinite')})

    # ---- struct
    def s_pack(fmt, *vals):
        from . import floats
        return floats.struct_pack(interp, fmt, *vals)

    def s_unpack(fmt, data):
        from . import floats
        return floats.struct_unpack(interp, fmt, data)
    class _StructObj:
        """struct.Struct(fmt): pack / unpack with the format fixed (the same assumed contract as struct.pack / struct.unpack)"""
        def __init__(self, fmt):
            self.fmt = fmt

        def pyvc_getattr(self, it, name):
            if name == 'pack':
                return Builtin(lambda *a: s_pack(self.fmt, *a), 'Struct.pack')
            if name == 'unpack':
                return Builtin(lambda data: s_unpack(self.fmt, data), 'Struct.unpack')
            if name == 'size':
                return _struct.calcsize(self.fmt)
            if name == 'format':
                return self.fmt
            from .interp import _MISSING
            return _MISSING

        def pyvc_truthy(self, it):
            return True

    mod('struct', pack=Builtin(s_pack, 'struct.pack'), unpack=Builtin(s_unpack, 'struct.unpack'), Struct=Builtin(_StructObj, 'struct.Struct'),
        error=B['struct.error'], calcsize=Builtin(_struct.calcsize, 'calcsize'))

    # ---- bitarray
    def ba_new(initializer=None, endian='big', buffer=None):
        if buffer is not None:
            from . import files
            return files.ba_from_buffer(interp, buffer)
        if initializer is None:
            return BA(0, lambda i: False)
        if isinstance(initializer, BA):
            return BA(initializer.n, initializer.bit)
        if isinstance(initializer, (bool, SBool)):
            interp.throw('TypeError', 'cannot create bitarray from bool')
        if sym.is_intlike(initializer):
            if sym.truth(initializer < 0):
                interp.throw('ValueError', 'bitarray length must be >= 0')
            # bitarray(n): n zero bits (documented since bitarray 3: "initialized to zeros")
            return BA(initializer, lambda i: False)
        if isinstance(initializer, str):
            if isinstance(initializer, OpaqueStr):
                raise Unsupported("bitarray from opaque string")
            bits = []
            for ch in initializer:
                if ch == '0':
                    bits.append(False)
                elif ch == '1':
                    bits.append(True)
                elif ch in ' \n\r\t\v_':
                    continue
                else:
                    interp.throw('ValueError', f"expected '0' or '1' (or whitespace, or underscore), got {ch!r}")
            return BA.concrete(bits)
        if isinstance(initializer, SStr) and initializer.kind == 'bin':
            v = initializer.view
            return BA(v.n, v.bit)
        if isinstance(initializer, (list, tuple)):
            bits = []
            for x in initializer:
                if is_sym(x):
                    raise NeedConcrete("bitarray from list of symbolic")
                if x not in (0, 1):
                    interp.throw('ValueError', 'bit must be 0 or 1')
                bits.append(bool(x))
            return BA.concrete(bits)
        if isinstance(initializer, (bytes, bytearray)):
            from .extern import bytes_to_ba
            return bytes_to_ba(initializer)
        interp.throw('TypeError', 'cannot create bitarray from this type')

    ba_type = _AbstractType('bitarray.bitarray', lambda it, x: isinstance(x, BA))

    class _BAType(Builtin):
        def __init__(self):
            super().__init__(ba_new, 'bitarray.bitarray')
            self.check = ba_type.check
    bat = _BAType()

    from . import ints
    util = mod('bitarray.util',
               int2ba=Builtin(lambda *a, **k: ints.int2ba(interp, *a, **k), 'int2ba'),
               ba2int=Builtin(lambda *a, **k: ints.ba2int(interp, *a, **k), 'ba2int'),
               hex2ba=Builtin(lambda *a, **k: ints.hex2ba(interp, *a, **k), 'hex2ba'),
               ba2hex=Builtin(lambda *a, **k: ints.ba2hex(interp, *a, **k), 'ba2hex'),
               base2ba=Builtin(lambda *a, **k: ints.base2ba(interp, *a, **k), 'base2ba'),
               ba2base=Builtin(lambda *a, **k: ints.ba2base(interp, *a, **k), 'ba2base'))
    mod('bitarray', bitarray=bat, util=util, __version__='3.11.0')
