"""C05 (deductive core): the arithmetic of pack / unpack over token lists -- lengths add up, one value per token, the
single length-less token gets what is left.  Format strings here are concrete (the tokeniser is string/regex code and is
served by the bounded stand-in in props/C05.py); lengths and values are symbolic."""
from pyvc.contract import contract, Shape, Contract, INLINE
from pyvc import sym, spec
from pyvc.sym import lor, lnot, land, ite, smax
from pyvc.spec import bits, mk_bits, sub, cat, zeros
from pyvc.shapes import m_bits, r_bits
from pyvc.extern import BA
from pyvc.interp import Obj
from .common import *
from .streams import decode, FIXED
from .routes import enc_row

# token list shapes: (name, length-kind) with length-kind 'n<k>' symbolic, None stretchy, or a concrete int
LISTS = [
    [('uint', 'a'), ('uint', 'b')],
    [('uint', 'a'), ('bits', None), ('int', 'b')],
    [('hex', None), ('uint', 'a')],
    [('bytes', None), ('uint', 'a')],
    [('pad', 'a'), ('bool', None), ('bin', None)],
    [('bits', None)],
    [('uintle', 'a'), ('hex', 'b'), ('oct', None)],
    # self-delimiting codes before (allowed) and after (refused) the length-less token
    [('ue', None), ('hex', None), ('int', 'a')],
    [('uint', 'a'), ('se', None), ('bits', None), ('uint', 'b')],
    [('bits', None), ('ue', None)],
    [('ue', None), ('se', None)],
    [('uie', None), ('bits', None), ('uint', 'a')],
    [('uint', 'a'), ('sie', None), ('uie', None)],
]
VARIABLE = ('ue', 'se', 'uie', 'sie')


def _mk_list(S, interp, L):
    D = interp.get_module('bitstring').ns['Dtype']
    out = []
    for name, lk in L:
        if lk is None:
            out.append(interp.call(D, [name], {}))
        else:
            n = S.int(lk)
            unit, ok, _ = FIXED.get(name, (1, lambda x: x >= 0, None))
            S.assume(ok(n * unit) if name != 'bits' else (n >= 0))
            out.append(interp.call(D, [name, n], {}))
    return out


def _r_list(vals, L):
    import bitstring
    return [bitstring.Dtype(name) if lk is None else bitstring.Dtype(name, vals[lk]) for name, lk in L]


def _rdl_shapes():
    out = []
    for idx, L in enumerate(LISTS):
        for cls, st in (('Bits', 'immutable'), ('BitStream', 'plain')):
            def build(S, interp, L=L, cls=cls, st=st):
                o = m_bits(S, interp, 'self', cls, st)
                p = S.int('p')
                S.assume(land(p >= 0, p <= bits(o).n))
                return [o, _mk_list(S, interp, L), p], {}

            def real(vals, L=L, cls=cls, st=st):
                return [r_bits(vals, 'self', cls, st), _r_list(vals, L), vals['p']], {}
            gen = None
            lead = []
            for n_, k_ in L:
                if n_ not in VARIABLE:
                    break
                lead.append(n_)
            if lead:
                # lists that start with self-delimiting codes: long codes for the leading tokens, the rest of the data random
                from .golomb import long_code_gen

                def extra(rng, v, L=L):
                    v['p'] = v.pop('self.pos', None)
                    if v['p'] is None:
                        v['p'] = 0 if rng.random() < 0.5 else min(len(v.get('self', [])), rng.randint(0, 9))
                    for n_, k_ in L:
                        if k_ is not None:
                            v[k_] = rng.choice([0, 1, 3, 4, 8])
                base = long_code_gen('BitStream', st, lead, extra)

                def gen(rng, base=base, cls=cls):
                    v = base(rng)
                    if cls != 'BitStream':
                        v.pop('self.pos', None)
                    else:
                        v['self.pos'] = 0
                    return v
            out.append(Shape(f'{cls}/' + ','.join(n + (':' + str(k) if k else '') for n, k in L), build, real, gen=gen))
    return out


@contract('bits.Bits._read_dtype_list', shapes=_rdl_shapes(), props={'C05', 'C06'}, kind='public',
          note="unpack/readlist over a token list: token i reads the next L_i bits; the single length-less token gets "
               "max(remaining - sum of the later fixed lengths, 0) bits, which must be a whole number of its units; values are "
               "the successive interpretations; pad tokens yield nothing; returns (values, end position); ReadError when bits run out")
def read_dtype_list_spec(C, self, dtypes, pos):
    V = bits(self)
    N = V.n
    # lsb0: token i reads the window counted from the least significant end (see streams._read_core)
    win = (lambda a, b: sub(V, N - b, N - a)) if C.lsb0 else (lambda a, b: sub(V, a, b))
    info = []
    for d in dtypes:
        name, L = d.attrs['_name'], d.attrs['_length']
        unit = 8 if name == 'bytes' else 1
        fixed = L
        if L is None and name == 'bool':
            fixed = 1
        info.append((name, fixed, unit))
    later = 0
    seen_stretchy = False
    for name, L, unit in info:
        if name in VARIABLE:
            if seen_stretchy:
                C.throw('Error')          # a self-delimiting code cannot follow the length-less token
        elif L is None:
            if seen_stretchy:
                C.throw('Error')
            seen_stretchy = True
        elif seen_stretchy:
            later = later + L * unit
    vals = []
    p = pos
    for name, L, unit in info:
        if name in VARIABLE:
            from .golomb import readue_core
            if C.lsb0:
                C.throw('ReadError')
            T = win(p, V.n)                               # (the code reads the codeword from the tail bits[pos:])
            if name in ('uie', 'sie'):
                from .golomb import readuie_core
                c, used = readuie_core(C, T, 0)
                if name == 'sie' and not sym.truth(sym.eq(c, 0)):
                    if sym.truth(used >= T.n):
                        C.throw('ReadError')
                    c, used = (-c if sym.truth(T.bit(used)) else c), used + 1
            else:
                c, used = readue_core(C, T, 0)
                if name == 'se':
                    m = (c + 1) // 2
                    c = m if sym.truth(sym.eq(c % 2, 1)) else -m
            p = p + used
            vals.append(c)
            continue
        if L is None:
            bl = smax(V.n - p - later, 0)
            if sym.truth(lnot(sym.eq(bl % unit, 0))):
                C.throw('ValueError')
            Lb = bl
        else:
            Lb = L * unit
        if sym.truth(p + Lb > V.n):
            C.throw('ReadError')
        v = decode(C, name, win(p, p + Lb), self.cls)
        p = p + Lb
        if name != 'pad':
            vals.append(v)
    return vals, p


# ---- pack with concrete formats, symbolic values and keyword lengths ----------------------------------------------------------
PACKS = [
    ('uint:8, int:4', [('uint', 8), ('int', 4)], {}),
    ('uint:n, int:m', [('uint', 'n'), ('int', 'm')], {'n': 'n', 'm': 'm'}),
    ('2*(uint:n)', [('uint', 'n'), ('uint', 'n')], {'n': 'n'}),
    ('uintle:16, pad:3, uintbe:n', [('uintle', 16), ('pad', 3), ('uintbe', 'n')], {'n': 'n'}),
]


def _assemble(C, pieces):
    """the tokens' encodings in order; in lsb0 mode the first token sits at the least significant end, i.e. the stored order is
    the reverse token order (each value still encoded as a whole value), so that an lsb0 unpack reads them back in order"""
    V = zeros(0)
    for W in (reversed(pieces) if C.lsb0 else pieces):
        V = cat(V, W)
    return V


def _pack_shapes():
    out = []
    for fmt, toks, kws in PACKS:
        nvals = sum(1 for t in toks if t[0] != 'pad')
        for given in (nvals, nvals - 1, nvals + 1):
            def build(S, interp, fmt=fmt, kws=kws, given=given):
                return [fmt] + [S.int(f'v{i}') for i in range(given)], {k: S.int(k) for k in kws}

            def real(vals, fmt=fmt, kws=kws, given=given):
                return [fmt] + [vals[f'v{i}'] for i in range(given)], {k: vals[k] for k in kws}
            out.append(Shape(f'{fmt!r}/{given}-values', build, real))
    return out


@contract('methods.pack', shapes=_pack_shapes(), props={'C05', 'C15'}, kind='public',
          note="pack(fmt, *values): the concatenation of the tokens' encodings (length = sum of the token lengths), one value per "
               "non-pad token in order; CreationError for too few, too many or unfitting values")
def pack_spec(C, fmt, *values, **kwargs):
    toks = next(t for f, t, k in PACKS if f == fmt)
    nvals = sum(1 for t in toks if t[0] != 'pad')
    pieces = []
    it = list(values)
    for name, ln in toks:
        n = kwargs[ln] if isinstance(ln, str) else ln
        if name == 'pad':
            if sym.truth(n < 0):
                C.throw('ValueError')
            pieces.append(zeros(n))
            continue
        if not it:
            C.throw('ValueError')
        pieces.append(enc_row(C, name, it.pop(0), n))
    if it:
        C.throw('ValueError')
    return mk_bits(C, C.cls('BitStream'), _assemble(C, pieces), pos=0)


# ---- pack with 'bits' tokens: the values are bitstrings (or strings denoting them) whose stores must not be adopted ---------------
from .common import m_operand, r_operand, promote_bits, opname

BITS_PACKS = [
    ('bits', [('bits', None)], {}, 1),
    ('bits:n', [('bits', 'n')], {'n': 'n'}, 1),
    ('bits, uint:8', [('bits', None), ('uint', 8)], {}, 1),
    ('uint:8, bits', [('uint', 8), ('bits', None)], {}, 1),
    ('bits:n, pad:3', [('bits', 'n'), ('pad', 3)], {'n': 'n'}, 1),
    ('bits, bits, bits', [('bits', None)] * 3, {}, 3),          # the same object may be passed for all three
]
_BITS_OPERANDS = [('obj', 'Bits', 'immutable'), ('obj', 'BitArray', 'plain'), ('obj', 'BitStream', 'plain'), ('obj', 'Bits', 'buffer'), ('str',)]


def _pack_bits_shapes():
    out = []
    for fmt, toks, kws, nb in BITS_PACKS:
        for kind in _BITS_OPERANDS:
            for same_obj in ((False, True) if nb > 1 else (False,)):
                def build(S, interp, fmt=fmt, toks=toks, kws=kws, kind=kind, same_obj=same_obj):
                    vals = []
                    first = None
                    k = 0
                    for name, _ln in toks:
                        if name == 'pad':
                            continue
                        if name == 'bits':
                            if same_obj and first is not None:
                                vals.append(first)
                            else:
                                first = m_operand(S, interp, f'b{k}', kind, None)
                                vals.append(first)
                            k += 1
                        else:
                            vals.append(S.int('v'))
                    return [fmt] + vals, {q: S.int(q) for q in kws}

                def real(vals, fmt=fmt, toks=toks, kws=kws, kind=kind, same_obj=same_obj):
                    out_v = []
                    first = None
                    k = 0
                    for name, _ln in toks:
                        if name == 'pad':
                            continue
                        if name == 'bits':
                            if same_obj and first is not None:
                                out_v.append(first)
                            else:
                                first = r_operand(vals, f'b{k}', kind, None)
                                out_v.append(first)
                            k += 1
                        else:
                            out_v.append(vals['v'])
                    return [fmt] + out_v, {q: vals[q] for q in kws}
                out.append(Shape(f'{fmt!r}/{opname(kind)}' + ('/same-object' if same_obj else ''), build, real))
    return out


@contract('methods.pack@bits', target='methods.pack', shapes=_pack_bits_shapes(), props={'C05', 'C04', 'C02'}, kind='public', observe_args=True,
          note="pack with 'bits' tokens: the values' bits are concatenated into a *new* BitStream; a 'bits:n' token takes exactly n bits "
               "(CreationError otherwise); the values themselves are unchanged and share nothing with the result")
def pack_bits_spec(C, fmt, *values, **kwargs):
    toks = next(t for f, t, k, _ in BITS_PACKS if f == fmt)
    pieces = []
    it = list(values)
    for name, ln in toks:
        n = kwargs[ln] if isinstance(ln, str) else ln
        if name == 'pad':
            pieces.append(zeros(n))
            continue
        if not it:
            C.throw('ValueError')
        v = it.pop(0)
        if name == 'bits':
            W = promote_bits(C, v)
            if n is not None and sym.truth(lnot(sym.eq(W.n, n))):
                C.throw('ValueError')
            pieces.append(W)
        else:
            pieces.append(enc_row(C, name, v, n))
    if it:
        C.throw('ValueError')
    return mk_bits(C, C.cls('BitStream'), _assemble(C, pieces), pos=0)
