"""Builtins and the *assumed contracts* of external dependencies (DESIGN.md 3.5).

Everything in this file is trusted, not proved: it states what bitarray, struct, slice
arithmetic and the Python builtins are assumed to do.  pyvc/conformance.py runs these
models concretely against the installed libraries on an exhaustive small domain at every
check; a disagreement is a checker error (exit 3), never a verdict.

bitarray.bitarray is modelled as "a Python list of bits": BA(n, bit) with n an int or SInt
and bit a host function index -> bool/SBool defined for 0 <= index < n.
"""
from __future__ import annotations

import itertools
import z3

from . import sym
from .sym import SInt, SBool, Unsupported, NeedConcrete, is_sym, ite, land, lor, lnot
from .interp import (ClassVal, Obj, FuncVal, BoundMethod, ClassMethodVal, StaticMethodVal, PropertyVal,
                     Partial, Builtin, ModuleVal, SuperVal, GenObj, SRange, PyRaise, OpaqueStr, _MISSING)

_ids = itertools.count(1)


# ======================================================================================
# slice arithmetic (CPython PySlice_Unpack + PySlice_AdjustIndices)
# ======================================================================================
def _clamp(v, n, lo, hi):
    """v: int-like index; negative indices are offset by n then clamped to [lo, hi]"""
    v2 = ite(v < 0, v + n, v)
    return ite(v2 < lo, lo, ite(v2 > hi, hi, v2))


def adjust_indices(interp, n, start, stop, step):
    """-> (start, stop, step, count) as CPython computes them for a sequence of length n.
    step None -> 1.  Raises ValueError for step == 0.  Forks on the sign of a symbolic step."""
    for v in (start, stop, step):
        if not (v is None or sym.is_intlike(v)):
            if isinstance(v, Obj):
                raise Unsupported("__index__ objects as slice indices")
            interp.throw('TypeError', 'slice indices must be integers or None')
    if step is None:
        step = 1
    if sym.truth(sym.eq(step, 0)):
        interp.throw('ValueError', 'slice step cannot be zero')
    if sym.truth(step > 0):
        s = 0 if start is None else _clamp(start, n, 0, n)
        e = n if stop is None else _clamp(stop, n, 0, n)
        if isinstance(step, int) and step == 1:
            count = ite(e <= s, 0, e - s)
        else:
            count = ite(e <= s, 0, sym.floordiv_mod(e - s - 1, step)[0] + 1)
    else:
        s = n - 1 if start is None else _clamp(start, n, -1, n - 1)
        e = -1 if stop is None else _clamp(stop, n, -1, n - 1)
        if isinstance(step, int) and step == -1:
            count = ite(e >= s, 0, s - e)
        else:
            count = ite(e >= s, 0, sym.floordiv_mod(s - e - 1, -step)[0] + 1)
    if sym.have_ctx() and CTX_SIMPLIFY_SLICES:
        # resolve the clamping against the length where the path already decides it: the same window reached along two
        # routes (a slice of a slice, a position plus a length) then gets the same index terms
        s, e, count = sym.ctx_simplify_int(s), sym.ctx_simplify_int(e), sym.ctx_simplify_int(count)
    return s, e, step, count


CTX_SIMPLIFY_SLICES = True


def slice_indices(interp, sl, length):
    """slice.indices(length)"""
    if not sym.is_intlike(length):
        interp.throw('TypeError', 'length must be an integer')
    if sym.truth(length < 0):
        interp.throw('ValueError', 'length should not be negative')
    s, e, st, _ = adjust_indices(interp, length, sl.start, sl.stop, sl.step)
    return (s, e, st)


# ======================================================================================
# bit buffers
# ======================================================================================
class BA:
    """model of bitarray.bitarray (big-endian bit order)"""

    def __init__(self, n, bit, readonly=False):
        self.n = n
        self.bit = bit
        self.readonly = readonly
        self.bid = next(_ids)
        self.alias_of = None       # for buffer=...: the exporting object
        self.tag = None            # optional provenance tag, e.g. ('int2ba', i, n, signed)

    def __repr__(self):
        return f'<BA#{self.bid} n={self.n}>'

    # ---- helpers
    @staticmethod
    def concrete(bits):
        bits = [bool(b) for b in bits]
        return BA(len(bits), lambda i, bits=bits: _pick(bits, i))

    def snapshot(self):
        return BA(self.n, self.bit)

    def as_array(self):
        k = z3.Int('k!arr')
        n = sym._int_t(self.n)
        return z3.Lambda([k], z3.If(z3.And(k >= 0, k < n), sym._b(self.bit(SInt(k))), z3.BoolVal(False)))

    def _write(self, interp, n, bit):
        if self.readonly:
            interp.throw('TypeError', 'cannot modify read-only memory')
        if interp.write_log is not None:
            interp.write_log.append(('ba', self))
        self.n = n
        self.bit = bit
        self.tag = None

    def norm_index(self, interp, i):
        if not sym.is_intlike(i):
            interp.throw('TypeError', 'bitarray indices must be integers')
        j = ite(i < 0, i + self.n, i)
        if sym.truth(lor(j < 0, j >= self.n)):
            interp.throw('IndexError', 'bitarray index out of range')
        return j

    # ---- protocol used by the interpreter
    def pyvc_truthy(self, interp):
        return sym.truth(lnot(sym.eq(self.n, 0)))

    def pyvc_getitem(self, interp, k):
        if isinstance(k, slice):
            s, e, st, cnt = adjust_indices(interp, self.n, k.start, k.stop, k.step)
            old = self.bit
            if isinstance(st, int) and st == 1:
                return BA(cnt, lambda i: old(s + i))
            return BA(cnt, lambda i: old(s + i * st))
        j = self.norm_index(interp, k)
        return _bit_as_int(self.bit(j))

    def pyvc_setitem(self, interp, k, v):
        if isinstance(k, slice):
            s, e, st, cnt = adjust_indices(interp, self.n, k.start, k.stop, k.step)
            old, n = self.bit, self.n
            if isinstance(v, BA):
                val, m = v.bit, v.n
                if v is self:
                    snap = v.snapshot()
                    val, m = snap.bit, snap.n
                if sym.truth(sym.eq(st, 1)):         # (forks for a symbolic step: an explicit step of 1 is a plain, resizable slice)
                    e2 = ite(e < s, s, e)
                    newn = n - (e2 - s) + m
                    self._write(interp, newn, lambda i: _sel3(i < s, old, i, i < s + m, val, i - s, old, i - m + (e2 - s)))
                    return
                if sym.truth(lnot(sym.eq(cnt, m))):
                    interp.throw('ValueError', 'attempt to assign sequence of size m to extended slice of size cnt')
                self._write(interp, n, lambda i: _strided_pick(i, s, st, cnt, val, old))
                return
            if sym.is_intlike(v):
                if sym.truth(lor(v < 0, v > 1)):
                    interp.throw('ValueError', 'bit must be 0 or 1')
                b = _int_as_bit(v)
                self._write(interp, n, lambda i: _strided_pick(i, s, st, cnt, lambda t: b, old))
                return
            interp.throw('TypeError', 'bitarray or int expected for slice assignment')
        if not sym.is_intlike(k):
            interp.throw('TypeError', 'bitarray indices must be integers')
        if not sym.is_intlike(v):
            interp.throw('TypeError', 'an integer is required')
        if sym.truth(lor(v < 0, v > 1)):
            interp.throw('ValueError', 'bit must be 0 or 1')
        j = self.norm_index(interp, k)
        b = _int_as_bit(v)
        old = self.bit
        self._write(interp, self.n, lambda i: _sel(sym.eq(i, j), b, old(i)))

    def pyvc_delitem(self, interp, k):
        old, n = self.bit, self.n
        if isinstance(k, slice):
            s, e, st, cnt = adjust_indices(interp, n, k.start, k.stop, k.step)
            if isinstance(st, int) and st == 1:
                self._write(interp, n - cnt, lambda i: _sel2(i < s, old, i, old, i + cnt))
                return
            # normalise to a positive step
            if not sym.truth(st > 0):
                s = s + (cnt - 1) * st
                st = -st
            if sym.truth(sym.eq(cnt, 0)):
                return
            if sym.truth(sym.eq(st, 1)):             # (forks for a symbolic step; the strided formula below divides by st - 1)
                self._write(interp, n - cnt, lambda i: _sel2(i < s, old, i, old, i + cnt))
                return
            def newbit(i, s=s, st=st, cnt=cnt):
                jp = i - s
                t = sym.floordiv_mod(jp, st - 1)[0]
                t = ite(t > cnt - 1, cnt - 1, t)
                return _sel2(i < s, old, i, old, i + t + 1)
            self._write(interp, n - cnt, newbit)
            return
        j = self.norm_index(interp, k)
        self._write(interp, n - 1, lambda i: _sel2(i < j, old, i, old, i + 1))

    def pyvc_eq(self, interp, other):
        if not isinstance(other, BA):
            return False
        return view_eq(self, other)

    def pyvc_binop(self, interp, name, other):
        if name == 'add':
            if not isinstance(other, BA):
                interp.throw('TypeError', 'bitarray expected')
            a, n, b, m = self.bit, self.n, other.bit, other.n
            return BA(n + m, lambda i: _sel2(i < n, a, i, b, i - n))
        if name in ('and', 'or', 'xor'):
            if not isinstance(other, BA):
                interp.throw('TypeError', 'bitarray expected')
            if sym.truth(lnot(sym.eq(self.n, other.n))):
                interp.throw('ValueError', 'bitarrays of equal length expected')
            a, b = self.bit, other.bit
            return BA(self.n, lambda i: _bitop(name, a(i), b(i)))
        if name == 'mul':
            raise Unsupported("bitarray * int")
        return NotImplemented

    def pyvc_inplace(self, interp, name, other):
        if name == 'add':
            if not isinstance(other, BA):
                interp.throw('TypeError', 'bitarray expected')
            a, n = self.bit, self.n
            b, m = other.bit, other.n
            self._write(interp, n + m, lambda i: _sel2(i < n, a, i, b, i - n))
            return self
        if name in ('and', 'or', 'xor'):
            if not isinstance(other, BA):
                interp.throw('TypeError', 'bitarray expected')
            if sym.truth(lnot(sym.eq(self.n, other.n))):
                interp.throw('ValueError', 'bitarrays of equal length expected')
            a, b = self.bit, other.bit
            self._write(interp, self.n, lambda i: _bitop(name, a(i), b(i)))
            return self
        return NotImplemented

    def pyvc_getattr(self, interp, name):
        m = getattr(self, 'm_' + name, None)
        if m is None:
            return _MISSING
        return Builtin(lambda *a, **k: m(interp, *a, **k), 'bitarray.' + name)

    # ---- methods
    def m___getitem__(self, interp, k):
        return self.pyvc_getitem(interp, k)

    def m___setitem__(self, interp, k, v):
        return self.pyvc_setitem(interp, k, v)

    def m___delitem__(self, interp, k):
        return self.pyvc_delitem(interp, k)

    def m___len__(self, interp):
        return self.n

    def m_copy(self, interp):
        return BA(self.n, self.bit)

    def m_invert(self, interp, index=None):
        old = self.bit
        if index is None:
            self._write(interp, self.n, lambda i: _not(old(i)))
            return None
        j = self.norm_index(interp, index)
        self._write(interp, self.n, lambda i: _sel(sym.eq(i, j), _not(old(i)), old(i)))
        return None

    def m_reverse(self, interp):
        old, n = self.bit, self.n
        self._write(interp, n, lambda i: old(n - 1 - i))

    def m_clear(self, interp):
        self._write(interp, 0, lambda i: False)

    def m_setall(self, interp, v):
        if sym.truth(lor(v < 0, v > 1)):
            interp.throw('ValueError', 'bit must be 0 or 1')
        b = _int_as_bit(v)
        self._write(interp, self.n, lambda i: b)

    def m_frombytes(self, interp, data):
        bb = as_bbytes(interp, data)
        a, n = self.bit, self.n
        b, m = bb.bit, bb.nbytes * 8
        self._write(interp, n + m, lambda i: _sel2(i < n, a, i, b, i - n))

    def m_tobytes(self, interp):
        n, a = self.n, self.bit
        nbytes = sym.floordiv_mod(n + 7, 8)[0]
        return BBytes(nbytes, lambda i: _sel2b(i < n, a, i))

    def m_to01(self, interp):
        if is_sym(self.n):
            return SStr('bin', self)
        n = self.n
        bits = [self.bit(i) for i in range(n)]
        if any(is_sym(b) for b in bits):
            return SStr('bin', self)
        return ''.join('1' if b else '0' for b in bits)

    def m_tolist(self, interp):
        if is_sym(self.n):
            raise NeedConcrete("tolist of symbolic-length bitarray")
        return [_bit_as_int(self.bit(i)) for i in range(self.n)]

    def m_count(self, interp, value=1, *a):
        if a:
            raise Unsupported("count with range")
        c = count_ones(self)
        if sym.truth(sym.eq(_int_as_bit(value), True)):
            return c
        return self.n - c

    def m_any(self, interp):
        return any_set(self)

    def m_all(self, interp):
        return all_set(self)

    def m_find(self, interp, sub, start=0, stop=None, right=False):
        from . import search
        return search.ba_find(interp, self, sub, start, stop, right)

    def m_search(self, interp, sub, start=0, stop=None, right=False):
        from . import search
        return search.ba_search(interp, self, sub, start, stop, right)

    def m_extend(self, interp, other):
        if isinstance(other, BA):
            return self.pyvc_inplace(interp, 'add', other)
        raise Unsupported("bitarray.extend(non-bitarray)")


def _pick(bits, i):
    if isinstance(i, int):
        return bits[i] if 0 <= i < len(bits) else False
    # symbolic index into concrete bits: ite chain
    t = z3.BoolVal(False)
    it = sym._int_t(i)
    for j in range(len(bits) - 1, -1, -1):
        if bits[j]:
            t = z3.If(it == j, z3.BoolVal(True), t)
    return sym.mk_bool(t)


def _bit_as_int(b):
    if isinstance(b, bool):
        return int(b)
    return sym.mk_int(sym._int_t(b))


def _int_as_bit(v):
    if isinstance(v, (bool, SBool)):
        return v
    if isinstance(v, int):
        return v != 0
    return sym.mk_bool(v.term != 0)


def _not(b):
    return (not b) if isinstance(b, bool) else lnot(b)


def _bitop(name, a, b):
    if name == 'and':
        return (a and b) if isinstance(a, bool) and isinstance(b, bool) else land(a, b)
    if name == 'or':
        return (a or b) if isinstance(a, bool) and isinstance(b, bool) else lor(a, b)
    if isinstance(a, bool) and isinstance(b, bool):
        return a != b
    return lnot(sym.iff(a, b))


def _sel(c, x, y):
    """bool-valued ite"""
    if isinstance(c, bool):
        return x if c else y
    return sym.mk_bool(z3.If(sym._b(c), sym._b(x), sym._b(y)))


def _sel2(c, f, i, g, j):
    """f(i) if c else g(j) -- evaluating lazily when c is concrete"""
    if isinstance(c, bool):
        return f(i) if c else g(j)
    return sym.mk_bool(z3.If(sym._b(c), sym._b(f(i)), sym._b(g(j))))


def _sel2b(c, f, i):
    if isinstance(c, bool):
        return f(i) if c else False
    return sym.mk_bool(z3.If(sym._b(c), sym._b(f(i)), z3.BoolVal(False)))


def _sel3(c1, f, i, c2, g, j, h, k):
    if isinstance(c1, bool):
        if c1:
            return f(i)
        return _sel2(c2, g, j, h, k)
    return sym.mk_bool(z3.If(sym._b(c1), sym._b(f(i)), sym._b(_sel2(c2, g, j, h, k))))


def _strided_pick(i, s, st, cnt, val, old):
    """bit i after assigning val(t) to positions s + t*st, t < cnt"""
    if isinstance(st, int) and st == -1:
        t = s - i
        c = land(t >= 0, t < cnt)
        return _sel2(c, val, t, old, i)
    d = i - s
    q, r = sym.floordiv_mod(d, st)
    c = land(sym.eq(r, 0), q >= 0, q < cnt)
    return _sel2(c, val, q, old, i)


def view_eq_term(a, b):
    """z3 term: the two views have equal length and equal bits (bound variable 'k!eq')"""
    k = z3.Int('k!eq')
    n1, n2 = sym._int_t(a.n), sym._int_t(b.n)
    body = sym._b(a.bit(SInt(k))) == sym._b(b.bit(SInt(k)))
    return z3.And(n1 == n2, z3.ForAll([k], z3.Implies(z3.And(k >= 0, k < n1), body)))


def view_eq(a, b):
    if isinstance(a.n, int) and isinstance(b.n, int):
        if a.n != b.n:
            return False
        rs = [sym.iff(a.bit(i), b.bit(i)) if (is_sym(a.bit(i)) or is_sym(b.bit(i))) else (a.bit(i) == b.bit(i))
              for i in range(a.n)]
        if all(isinstance(r, bool) for r in rs):
            return all(rs)
        return land(*rs)
    return sym.mk_bool(view_eq_term(a, b))


_count = z3.Function('popcount', z3.ArraySort(z3.IntSort(), z3.BoolSort()), z3.IntSort())


def count_ones(v):
    if isinstance(v.n, int):
        bits = [v.bit(i) for i in range(v.n)]
        if all(isinstance(b, bool) for b in bits):
            return sum(bits)
        return sym.mk_int(z3.Sum([sym._int_t(b) for b in bits])) if bits else 0
    c = sym.ctx()
    t = _count(v.as_array())
    c.assume(z3.And(t >= 0, t <= sym._int_t(v.n)))
    return SInt(t)


def any_set(v):
    if isinstance(v.n, int):
        bits = [v.bit(i) for i in range(v.n)]
        if all(isinstance(b, bool) for b in bits):
            return any(bits)
        return lor(*bits) if bits else False
    k = z3.Int('k!any')
    return sym.mk_bool(z3.Exists([k], z3.And(k >= 0, k < sym._int_t(v.n), sym._b(v.bit(SInt(k))))))


def all_set(v):
    if isinstance(v.n, int):
        bits = [v.bit(i) for i in range(v.n)]
        if all(isinstance(b, bool) for b in bits):
            return all(bits)
        return land(*bits) if bits else True
    k = z3.Int('k!all')
    return sym.mk_bool(z3.ForAll([k], z3.Implies(z3.And(k >= 0, k < sym._int_t(v.n)), sym._b(v.bit(SInt(k))))))


class BBytes:
    """model of a bytes object obtained from bits: nbytes bytes, bit(i) for 0 <= i < 8*nbytes"""

    def __init__(self, nbytes, bit):
        self.nbytes = nbytes
        self.bit = bit

    def pyvc_truthy(self, interp):
        return sym.truth(lnot(sym.eq(self.nbytes, 0)))

    def pyvc_getitem(self, interp, k):
        if isinstance(k, slice):
            s, e, st, cnt = adjust_indices(interp, self.nbytes, k.start, k.stop, k.step)
            old = self.bit
            if isinstance(st, int) and st == 1:
                return BBytes(cnt, lambda i: old(s * 8 + i))
            if isinstance(st, int) and st == -1:
                def rb(i, s=s):
                    q, r = sym.floordiv_mod(i, 8)
                    return old((s - q) * 8 + r)
                return BBytes(cnt, rb)
            raise Unsupported("bytes slice with a general step")
        raise Unsupported("bytes index")

    def pyvc_getattr(self, interp, name):
        if name == 'find':
            from . import search
            return Builtin(lambda sub, start=0, end=None: search.bytes_find(interp, self, sub, start, end), 'bytes.find')
        return _MISSING

    def pyvc_eq(self, interp, other):
        if isinstance(other, BBytes):
            return view_eq(BA(self.nbytes * 8, self.bit), BA(other.nbytes * 8, other.bit))
        if isinstance(other, (bytes, bytearray)):
            return view_eq(BA(self.nbytes * 8, self.bit), bytes_to_ba(other))
        return False

    def to_host(self):
        if is_sym(self.nbytes):
            raise NeedConcrete("symbolic-length bytes")
        out = bytearray()
        for j in range(self.nbytes):
            v = 0
            for r in range(8):
                b = self.bit(j * 8 + r)
                if is_sym(b):
                    raise NeedConcrete("symbolic bytes content")
                v = (v << 1) | int(b)
            out.append(v)
        return bytes(out)


def bytes_to_ba(b):
    bits = []
    for x in bytes(b):
        for r in range(7, -1, -1):
            bits.append(bool((x >> r) & 1))
    return BA.concrete(bits)


def as_bbytes(interp, data):
    if isinstance(data, BBytes):
        return data
    if isinstance(data, (bytes, bytearray, memoryview)):
        ba = bytes_to_ba(bytes(data))
        return BBytes(len(bytes(data)), ba.bit)
    if isinstance(data, SymBytes):
        return data.as_bbytes()
    interp.throw('TypeError', 'a bytes-like object is required')


class SymBytes:
    """a caller-supplied bytes/bytearray of symbolic length and content (input shape)"""

    def __init__(self, nbytes, bit, kind='bytes'):
        self.nbytes = nbytes
        self.bit = bit
        self.kind = kind

    def as_bbytes(self):
        return BBytes(self.nbytes, self.bit)


class PStr:
    """a caller-supplied *string* operand known only through the bits it promotes to
    (promote(x) is uninterpreted: content depends only on the operands' bits)"""

    def __init__(self, view):
        self.view = view


class SStr:
    """string whose characters are a function of a bit view (bin / hex / oct digits)"""

    def __init__(self, kind, view):
        self.kind = kind
        self.view = view

    def pyvc_eq(self, interp, other):
        if isinstance(other, SStr) and other.kind == self.kind:
            return view_eq(self.view, other.view)
        raise Unsupported("comparison of a digit string with a host string")


# ======================================================================================
# builtins
# ======================================================================================
def install(interp):
    B = interp.builtins
    obj = ClassVal('object', [], {}, builtin=True)
    obj.mro = [obj]
    B['object'] = obj

    def object_new(cls, *a, **k):
        if not isinstance(cls, ClassVal):
            raise Unsupported("object.__new__ on non-class")
        o = Obj(cls)
        if any(c.name == 'BaseException' for c in cls.mro):
            o.attrs['args'] = tuple(a)
        return o
    nw = Builtin(object_new, 'object.__new__')
    nw.is_static_new = True
    obj.ns['__new__'] = nw

    def object_init(self, *a, **k):
        return None
    oi = Builtin(object_init, 'object.__init__')
    oi.is_method = True
    obj.ns['__init__'] = oi

    def object_setattr(self, name, value):
        interp.object_setattr(self, name, value)
    osa = Builtin(object_setattr, 'object.__setattr__')
    osa.is_method = True
    obj.ns['__setattr__'] = osa

    def exc(name, *bases):
        c = ClassVal(name, [B[b] for b in bases] or [obj], {}, builtin=True)
        B[name] = c
        return c
    exc('BaseException')
    exc('Exception', 'BaseException')
    for n, b in [('ArithmeticError', 'Exception'), ('LookupError', 'Exception'), ('ValueError', 'Exception'),
                 ('TypeError', 'Exception'), ('AttributeError', 'Exception'), ('AssertionError', 'Exception'),
                 ('RuntimeError', 'Exception'), ('StopIteration', 'Exception'), ('OSError', 'Exception'),
                 ('EOFError', 'Exception'), ('ImportError', 'Exception'), ('NameError', 'Exception'),
                 ('IndexError', 'LookupError'), ('KeyError', 'LookupError'),
                 ('ZeroDivisionError', 'ArithmeticError'), ('OverflowError', 'ArithmeticError'),
                 ('NotImplementedError', 'RuntimeError'), ('RecursionError', 'RuntimeError'),
                 ('FileNotFoundError', 'OSError'), ('UnicodeError', 'ValueError'),
                 ('UnicodeDecodeError', 'UnicodeError'), ('UnicodeEncodeError', 'UnicodeError')]:
        exc(n, b)
    B['IOError'] = B['OSError']
    exc('struct.error', 'Exception')

    def b_len(x):
        if isinstance(x, Obj):
            n = interp.call_method(x, '__len__', [])
            if sym.is_intlike(n) and sym.truth(n < 0):
                interp.throw('ValueError', '__len__() should return >= 0')
            return n
        if isinstance(x, BA):
            return x.n
        if isinstance(x, (BBytes, SymBytes)):
            return x.nbytes
        if isinstance(x, SRange):
            a, b, st = x.start, x.stop, x.step
            if sym.truth(sym.eq(st, 0)):
                interp.throw('ValueError', 'range() arg 3 must not be zero')
            if sym.truth(st > 0):
                return ite(b <= a, 0, sym.floordiv_mod(b - a - 1, st)[0] + 1)
            return ite(b >= a, 0, sym.floordiv_mod(a - b - 1, -st)[0] + 1)
        if isinstance(x, SStr):
            raise Unsupported("len of digit string")
        if is_sym(x):
            interp.throw('TypeError', "object of type 'int' has no len()")
        try:
            return len(x)
        except TypeError as ex:
            interp.host_exc(ex)
    B['len'] = Builtin(b_len, 'len')

    def b_int(x=0, base=None):
        if base is not None:
            if is_sym(x) or is_sym(base):
                raise NeedConcrete("int(x, base) symbolic")
            try:
                return int(x, base)
            except Exception as ex:
                interp.host_exc(ex)
        if isinstance(x, SInt):
            return x
        if isinstance(x, SBool):
            return sym.mk_int(sym._int_t(x))
        if isinstance(x, Obj):
            f, _ = x.cls.lookup('__int__')
            if f is not _MISSING:
                return interp.call(BoundMethod(x, f), [], {})
            interp.throw('TypeError', 'int() argument must be a string or a number')
        if isinstance(x, (OpaqueStr, SStr)):
            raise Unsupported("int() of an opaque string")
        try:
            return int(x)
        except Exception as ex:
            interp.host_exc(ex)
    int_cls = _TypeBuiltin(b_int, 'int')
    B['int'] = int_cls

    def b_bool(x=False):
        if isinstance(x, SBool):
            return x
        if isinstance(x, SInt):
            return sym.mk_bool(x.term != 0)
        return interp.truthy(x)
    B['bool'] = _TypeBuiltin(b_bool, 'bool')

    def b_float(x=0.0):
        if is_sym(x):
            raise Unsupported("float() of a symbolic int")
        if isinstance(x, SFloat):
            return x
        if isinstance(x, Obj):
            interp.throw('TypeError', 'float() argument must be a string or a number')
        try:
            return float(x)
        except Exception as ex:
            interp.host_exc(ex)
    B['float'] = _TypeBuiltin(b_float, 'float')

    def b_str(x=''):
        return interp.str_of(x)
    B['str'] = _TypeBuiltin(b_str, 'str')

    def b_repr(x):
        return interp.repr_of(x)
    B['repr'] = Builtin(b_repr, 'repr')

    def b_bytes(x=b''):
        if isinstance(x, (BBytes, SymBytes)):
            return as_bbytes(interp, x)
        if is_sym(x):
            raise NeedConcrete("bytes(symbolic int)")
        if isinstance(x, Obj):
            f, _ = x.cls.lookup('__bytes__')
            if f is not _MISSING:
                return interp.call(BoundMethod(x, f), [], {})
            x = list(interp.iterate(x))
        try:
            return bytes(x)
        except Exception as ex:
            interp.host_exc(ex)
    B['bytes'] = _TypeBuiltin(b_bytes, 'bytes')

    def b_bytearray(x=b''):
        if isinstance(x, (BBytes, SymBytes)):
            return as_bbytes(interp, x)       # a private copy: views are immutable values
        if is_sym(x):
            raise NeedConcrete("bytearray(symbolic int)")
        try:
            return bytearray(x)
        except Exception as ex:
            interp.host_exc(ex)
    B['bytearray'] = _TypeBuiltin(b_bytearray, 'bytearray')
    B['memoryview'] = _TypeBuiltin(lambda x: x, 'memoryview')

    def b_isinstance(x, t):
        if isinstance(t, tuple):
            return any(b_isinstance(x, u) for u in t)
        if isinstance(t, ClassVal):
            if isinstance(x, Obj):
                return x.cls.is_subclass(t)
            if t is obj:
                return True
            return False
        if isinstance(t, _TypeBuiltin):
            return t.isinstance(x)
        if hasattr(t, 'check'):
            return t.check(interp, x)
        raise Unsupported(f"isinstance against {t!r}")
    B['isinstance'] = Builtin(b_isinstance, 'isinstance')

    def b_issubclass(c, t):
        if isinstance(t, tuple):
            return any(b_issubclass(c, u) for u in t)
        if isinstance(c, ClassVal) and isinstance(t, ClassVal):
            return c.is_subclass(t)
        raise Unsupported("issubclass")
    B['issubclass'] = Builtin(b_issubclass, 'issubclass')

    def b_hasattr(o, name):
        try:
            return interp.getattr_opt(o, name) is not _MISSING
        except PyRaise as pr:
            if pr.exc.cls.name == 'AttributeError' or any(c.name == 'AttributeError' for c in pr.exc.cls.mro):
                return False
            raise
    B['hasattr'] = Builtin(b_hasattr, 'hasattr')

    def b_getattr(o, name, *default):
        try:
            r = interp.getattr_opt(o, name)
        except PyRaise as pr:
            if default and any(c.name == 'AttributeError' for c in pr.exc.cls.mro):
                return default[0]
            raise
        if r is _MISSING:
            if default:
                return default[0]
            interp.throw('AttributeError', name)
        return r
    B['getattr'] = Builtin(b_getattr, 'getattr')
    B['setattr'] = Builtin(lambda o, n, v: interp.setattr(o, n, v), 'setattr')

    def b_range(*a):
        if any(is_sym(x) for x in a):
            if len(a) == 1:
                return SRange(0, a[0], 1)
            if len(a) == 2:
                return SRange(a[0], a[1], 1)
            return SRange(a[0], a[1], a[2])
        for x in a:
            if not isinstance(x, int):
                interp.throw('TypeError', 'range() integer argument expected')
        try:
            return range(*a)
        except Exception as ex:
            interp.host_exc(ex)
    B['range'] = _TypeBuiltin(b_range, 'range')
    B['slice'] = _TypeBuiltin(lambda *a: slice(*a), 'slice')

    def b_min(*a, **k):
        if k:
            raise Unsupported("min with key")
        items = list(interp.iterate(a[0])) if len(a) == 1 else list(a)
        if not items:
            interp.throw('ValueError', 'min() arg is an empty sequence')
        r = items[0]
        for x in items[1:]:
            if is_sym(r) or is_sym(x):
                r = sym.smin(r, x)
            else:
                r = min(r, x)
        return r

    def b_max(*a, **k):
        if k:
            raise Unsupported("max with key")
        items = list(interp.iterate(a[0])) if len(a) == 1 else list(a)
        if not items:
            interp.throw('ValueError', 'max() arg is an empty sequence')
        r = items[0]
        for x in items[1:]:
            if is_sym(r) or is_sym(x):
                r = sym.smax(r, x)
            else:
                r = max(r, x)
        return r
    B['min'] = Builtin(b_min, 'min')
    B['max'] = Builtin(b_max, 'max')
    B['abs'] = Builtin(lambda x: abs(x), 'abs')

    def b_sum(it, start=0):
        r = start
        for x in interp.iterate(it):
            r = interp.prim_binop('add', r, x) if not isinstance(r, Obj) else interp.binop(__import__('ast').Add(), r, x)
        return r
    B['sum'] = Builtin(b_sum, 'sum')

    def b_divmod(a, b):
        if is_sym(a) or is_sym(b):
            if sym.truth(sym.eq(b, 0)):
                interp.throw('ZeroDivisionError', 'integer division or modulo by zero')
            return sym.floordiv_mod(a, b)
        try:
            return divmod(a, b)
        except Exception as ex:
            interp.host_exc(ex)
    B['divmod'] = Builtin(b_divmod, 'divmod')

    def b_iter(x):
        if isinstance(x, GenObj):
            return x
        return GenObj(interp.iterate(x), 'iter')
    B['iter'] = Builtin(b_iter, 'iter')

    def b_next(g, *default):
        if isinstance(g, GenObj):
            try:
                return interp.gen_next(g)
            except PyRaise as pr:
                if default and pr.exc.cls.name == 'StopIteration':
                    return default[0]
                raise
        if hasattr(g, '__next__'):
            try:
                return next(g)
            except StopIteration:
                if default:
                    return default[0]
                interp.throw('StopIteration')
        interp.throw('TypeError', 'object is not an iterator')
    B['next'] = Builtin(b_next, 'next')

    B['list'] = _TypeBuiltin(lambda x=(): list(interp.iterate(x)), 'list')
    B['tuple'] = _TypeBuiltin(lambda x=(): tuple(interp.iterate(x)), 'tuple')
    B['set'] = _TypeBuiltin(lambda x=(): set(interp.iterate(x)), 'set')
    B['frozenset'] = _TypeBuiltin(lambda x=(): frozenset(interp.iterate(x)), 'frozenset')

    def b_dict(*a, **k):
        d = {}
        if a:
            if isinstance(a[0], dict):
                d.update(a[0])
            else:
                for kv in interp.iterate(a[0]):
                    kk, vv = list(interp.iterate(kv))
                    d[kk] = vv
        d.update(k)
        return d
    B['dict'] = _TypeBuiltin(b_dict, 'dict')
    B['sorted'] = Builtin(lambda x, **k: sorted(list(interp.iterate(x)), **k), 'sorted')
    B['reversed'] = Builtin(lambda x: iter(list(interp.iterate(x))[::-1]), 'reversed')
    B['enumerate'] = Builtin(lambda x, start=0: iter(list(enumerate(list(interp.iterate(x)), start))), 'enumerate')
    B['zip'] = Builtin(lambda *xs: iter(list(zip(*[list(interp.iterate(x)) for x in xs]))), 'zip')

    def b_any(it):
        for x in interp.iterate(it):
            if interp.truthy(x):
                return True
        return False

    def b_all(it):
        for x in interp.iterate(it):
            if not interp.truthy(x):
                return False
        return True
    B['any'] = Builtin(b_any, 'any')
    B['all'] = Builtin(b_all, 'all')
    B['property'] = _TypeBuiltin(lambda fget=None, fset=None, fdel=None, doc=None: PropertyVal(fget, fset, fdel), 'property')
    B['classmethod'] = _TypeBuiltin(lambda f: ClassMethodVal(f), 'classmethod')
    B['staticmethod'] = _TypeBuiltin(lambda f: StaticMethodVal(f), 'staticmethod')

    def b_super(cls, o):
        return SuperVal(cls, o)
    B['super'] = Builtin(b_super, 'super')

    def b_type(x):
        if isinstance(x, Obj):
            return x.cls
        for name in ('bool', 'int', 'str', 'float', 'bytes', 'list', 'tuple', 'dict'):
            if B[name].isinstance(x):
                return B[name]
        return _TypeBuiltin(None, type(x).__name__)
    B['type'] = Builtin(b_type, 'type')
    B['callable'] = Builtin(lambda x: isinstance(x, (FuncVal, BoundMethod, Builtin, ClassVal, Partial)) or
                            (not is_sym(x) and callable(x)), 'callable')
    B['chr'] = Builtin(chr, 'chr')
    B['ord'] = Builtin(ord, 'ord')
    B['bin'] = Builtin(lambda x: _digits('bin', x), 'bin')
    B['hex'] = Builtin(lambda x: _digits('hex', x), 'hex')
    B['oct'] = Builtin(lambda x: _digits('oct', x), 'oct')
    B['id'] = Builtin(lambda x: id(x), 'id')
    B['print'] = Builtin(lambda *a, **k: None, 'print')
    B['format'] = Builtin(lambda v, spec='': OpaqueStr() if is_sym(v) else format(v, spec), 'format')
    B['round'] = Builtin(round, 'round')
    B['map'] = Builtin(lambda f, *its: iter([interp.call(f, list(xs), {}) for xs in zip(*[list(interp.iterate(i)) for i in its])]), 'map')
    B['filter'] = Builtin(lambda f, it: iter([x for x in interp.iterate(it) if interp.truthy(interp.call(f, [x], {}) if f is not None else x)]), 'filter')
    B['dir'] = Builtin(lambda o: sorted(o.attrs) if isinstance(o, Obj) else [], 'dir')

    def b_hash(x):
        from . import hashing
        return hashing.py_hash(interp, x)
    B['hash'] = Builtin(b_hash, 'hash')
    B['NotImplemented'] = NotImplemented
    B['Ellipsis'] = Ellipsis
    B['True'] = True
    B['False'] = False
    B['None'] = None
    B['__debug__'] = True

    def b_open(*a, **k):
        from . import files
        return files.py_open(interp, *a, **k)
    B['open'] = Builtin(b_open, 'open')

    from . import extmods
    extmods.install(interp)


class _TypeBuiltin(Builtin):
    """a builtin type usable both as a constructor and in isinstance()"""

    def __init__(self, fn, name):
        super().__init__(fn, name)
        self.tname = name

    def isinstance(self, x):
        n = self.tname
        if n == 'int':
            return isinstance(x, (int, SInt, SBool))
        if n == 'bool':
            return isinstance(x, (bool, SBool))
        if n == 'str':
            return isinstance(x, (str, SStr, PStr))
        if n == 'float':
            return isinstance(x, (float, SFloat))
        if n == 'bytes':
            return isinstance(x, (bytes, BBytes)) or (isinstance(x, SymBytes) and x.kind == 'bytes')
        if n == 'bytearray':
            return isinstance(x, bytearray) or (isinstance(x, SymBytes) and x.kind == 'bytearray')
        if n == 'memoryview':
            return isinstance(x, memoryview) or (isinstance(x, SymBytes) and x.kind == 'memoryview')
        if n == 'list':
            return isinstance(x, list)
        if n == 'tuple':
            return isinstance(x, tuple)
        if n == 'dict':
            return isinstance(x, dict)
        if n == 'set':
            return isinstance(x, set)
        if n == 'slice':
            return isinstance(x, slice)
        if n == 'range':
            return isinstance(x, (range, SRange))
        if n == 'type':
            return isinstance(x, (ClassVal, _TypeBuiltin))
        return False

    def __repr__(self):
        return f'<type {self.tname}>'

    def pyvc_getattr(self, interp, name):
        if self.tname == 'int' and name == 'from_bytes':
            def from_bytes(b, byteorder='big', signed=False):
                if isinstance(b, BBytes):
                    b = b.to_host()
                return int.from_bytes(b, byteorder=byteorder, signed=signed)
            return Builtin(from_bytes, 'int.from_bytes')
        if name == '__name__':
            return self.tname
        if self.tname in ('str', 'bytes', 'dict', 'float') and hasattr(__builtins__ if not isinstance(__builtins__, dict) else object, name):
            pass
        return _MISSING


class _AbstractType:
    def __init__(self, name, check):
        self.name = name
        self.check = check

    def __repr__(self):
        return f'<abstract {self.name}>'

    # in annotations and type aliases: Iterable[int], Iterable | None
    def __getitem__(self, k):
        return self

    def __or__(self, o):
        return self

    __ror__ = __or__


_FLT = z3.DeclareSort('PyFloat')
_fpos = z3.Function('float_is_positive', _FLT, z3.BoolSort())
_fnan = z3.Function('float_is_nan', _FLT, z3.BoolSort())


class SFloat:
    """a Python float known only through uninterpreted functions (the assumed contract of struct, see floats.py)"""

    def __init__(self, term, note=''):
        self.term = term
        self.note = note

    @staticmethod
    def named(name):
        return SFloat(z3.Const(name, _FLT))

    def __gt__(self, o):
        if isinstance(o, (int, float)) and o == 0:
            return sym.mk_bool(_fpos(self.term))
        raise Unsupported("comparison of a symbolic float")

    def __lt__(self, o):
        raise Unsupported("comparison of a symbolic float")

    __ge__ = __le__ = __lt__

    def isnan(self):
        return sym.mk_bool(_fnan(self.term))


def _digits(kind, x):
    if is_sym(x):
        return SDigits(kind, x)
    return {'bin': bin, 'hex': hex, 'oct': oct}[kind](x)


class SDigits:
    """bin(x)/hex(x)/oct(x) of a symbolic int"""

    def __init__(self, kind, value):
        self.kind = kind
        self.value = value
