"""Contracts for bitstore_helpers.py"""
from pyvc.contract import contract, Shape, INLINE
from pyvc import sym, spec
from pyvc.extern import PStr, BA


@contract('bitstore_helpers.str_to_bitstore', shapes=[], props=set(), kind='assumed',
          note="ASSUMED for opaque string operands: the promoted content promote(s) is an uninterpreted view; the "
               "returned store is the (immutable, cached) store holding it.  Concrete strings run the real body.")
def str_to_bitstore(C, s):
    if isinstance(s, PStr):
        # the memoised store: the same object for the same string for as long as it stays in the cache
        st = getattr(s, 'cached_store', None)
        if st is None:
            st = spec.mk_store(C, s.view, immutable=True)
            st.cached = True
            s.cached_store = st
        return st
    return INLINE
