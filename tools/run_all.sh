#!/bin/bash
# runs every registered check (quick by default) and prints one summary line each
cd "$(dirname "$0")/.."
TIER=${1:-quick}
shift
for p in $(python3 -c "import json;print(' '.join(c['property_id'] for c in json.load(open('MANIFEST.json'))['checks']))"); do
  ./vf check $p --tier $TIER "$@" 2>&1 | grep -E "^\[|VIOLATION|CHECKER-ERROR" | cut -c1-220
  echo "   exit=${PIPESTATUS[0]}"
done
