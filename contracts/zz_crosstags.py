"""Cross-property tags added last (this module is imported after all others: file names are loaded in alphabetical order).

A contract is written once, for the property whose statement it is closest to, but the same obligations also decide parts of other
properties; seeded changes written for one property were repeatedly caught only by the check of another.  The tags below make
each property's own check run every contract that can refute it."""
from pyvc.contract import REGISTRY

_EXTRA = {
    # a stream position is part of the state the in-place operators must leave alone (or move as documented)
    'C06': ['bitarray_.BitArray.__ilshift__', 'bitarray_.BitArray.__irshift__', 'bitarray_.BitArray.__iand__', 'bitarray_.BitArray.__ior__',
            'bitarray_.BitArray.__ixor__', 'bitarray_.BitArray.__iadd__', 'bits.Bits.__lshift__', 'bits.Bits.__rshift__', 'bits.Bits.__invert__',
            'bits.Bits.__mul__', 'bits.Bits.__rmul__'],
    # pieces handed out by reads, cuts and splits are new objects that share nothing with a mutable parent
    # a stream that a call leaves with pos outside [0, len] has a repr that does not evaluate back
    'C19': ['bitstream.ConstBitStream.bytealign', 'bitstream.ConstBitStream._setbitpos', 'bitstream.ConstBitStream._setbytepos'],
    # every code of the 8-bit / micro-scaling formats is decoded from the unsigned or signed value of the whole bitstring
    'C11': ['bits.Bits._getuint', 'bits.Bits._getint'],
    # a.uint12 = v goes through __setattr__'s fallback: the object must end up owning an unflagged store of its own
    'C04': ['bitarray_.BitArray.__setattr__', 'bitstream.ConstBitStream.read', 'bitstream.ConstBitStream.peek', 'bitstream.ConstBitStream.readto', 'bitstream.ConstBitStream.readlist',
            'bitstream.ConstBitStream.peeklist', 'bits.Bits.cut', 'bits.Bits.split', 'bits.Bits.cut@sweep', 'bits.Bits.split@sweep', 'bits.Bits._read_dtype_list',
            'bits.Bits.join', 'bits.Bits.__getitem__', 'bitstream.ConstBitStream.__getitem__'],
}
for _p, _qs in _EXTRA.items():
    for _q in _qs:
        if _q in REGISTRY:
            REGISTRY[_q].props.add(_p)
            for _sh in REGISTRY[_q].shapes:
                if _sh.props is not None and not _sh.opts.get('lsb0'):
                    _sh.props = set(_sh.props) | {_p}

# shapes that exist only in lsb0 mode and carry their own property set
_LSB0_EXTRA = {
    'C01': ['bits.Bits.__getitem__', 'bitstream.ConstBitStream.__getitem__', 'bitstore.BitStore.getslice_withstep_lsb0', 'bitstore.BitStore.getindex_lsb0',
            'bitstore.BitStore.getslice_lsb0'],
    'C17': ['bits.Bits._setbytes_with_truncation', 'bits.Bits._setbitarray', 'bits.Bits._setfile', 'bits.Bits._setauto',
            # tofile cuts the data into chunks with the option-dispatched slice: a file-backed source with a shorter logical length
            'bitstore.BitStore.getslice_lsb0'],
    'C03': ['bitarray_.BitArray.__setitem__', 'bitstream.BitStream.__setitem__', 'bitarray_.BitArray.__delitem__', 'bitstream.BitStream.__delitem__',
            'bitarray_.BitArray.insert', 'bitstream.BitStream.insert', 'bitarray_.BitArray.overwrite', 'bitstream.ConstBitStream.overwrite',
            'bitarray_.BitArray.append', 'bitstream.ConstBitStream.append', 'bitarray_.BitArray.prepend', 'bitstream.BitStream.prepend', 'bitarray_.BitArray.reverse',
            'bitarray_.BitArray.set', 'bitarray_.BitArray.invert', 'bitarray_.BitArray.__iadd__', 'bitstream.BitStream.__iadd__', 'bitarray_.BitArray.__ilshift__',
            'bitarray_.BitArray.__irshift__', 'bitarray_.BitArray.byteswap', 'bitarray_.BitArray.ror', 'bitarray_.BitArray.rol'],
    'C16': ['bitarray_.BitArray.__ilshift__', 'bitarray_.BitArray.__irshift__', 'bits.Bits.__lshift__', 'bits.Bits.__rshift__', 'bits.Bits.__and__', 'bits.Bits.__invert__'],
    'C13': ['bits.Bits.__eq__', 'bits.Bits.__hash__'],
}
for _p, _qs in _LSB0_EXTRA.items():
    for _q in _qs:
        if _q in REGISTRY:
            c = REGISTRY[_q]
            touched = False
            for _sh in c.shapes:
                if _sh.opts.get('lsb0'):
                    _sh.props = (set(_sh.props) if _sh.props is not None else set(c.props)) | {_p}
                    touched = True
            if touched and _p not in c.props and all(s.opts.get('lsb0') for s in c.shapes):
                c.props.add(_p)


# arguments that may take huge values in the bounded stand-in (they do not size a buffer: the operation clamps or rejects them)
_BIG = {'bits.Bits.__lshift__': {'n'}, 'bits.Bits.__rshift__': {'n'}, 'bitarray_.BitArray.__ilshift__': {'n'}, 'bitarray_.BitArray.__irshift__': {'n'},
        'bitarray_.BitArray.ror': {'bits'}, 'bitarray_.BitArray.rol': {'bits'}, 'bitstream.ConstBitStream.read': {'n'}, 'bitstream.ConstBitStream.peek': {'n'},
        'bits.Bits.__getitem__': {'start', 'stop', 'step', 'index'}, 'bitstream.ConstBitStream.__getitem__': {'start', 'stop', 'step', 'index'}}
for _q, _names in _BIG.items():
    if _q in REGISTRY:
        for _sh in REGISTRY[_q].shapes:
            _sh.big = set(_names)


# the stream and token-list readers of the exp-Golomb codes decide C10 as much as the codecs themselves: only their Golomb shapes
# are added to C10's check (the other token kinds are C05/C06 business)
_GOLOMB_SHAPES = {'bitstream.ConstBitStream.read': ('str-ue', 'str-se', 'str-uie', 'str-sie'), 'bitstream.ConstBitStream.peek': ('str-ue', 'str-se', 'str-uie', 'str-sie'),
                  'bits.Bits._read_dtype_list': ('ue', 'se', 'uie', 'sie'), 'bitstream.ConstBitStream.readlist': ('ue', 'se', 'uie', 'sie'),
                  'bitstream.ConstBitStream.peeklist': ('ue', 'se', 'uie', 'sie'), 'bits.Bits.unpack': ('ue', 'se', 'uie', 'sie')}
for _q, _marks in _GOLOMB_SHAPES.items():
    if _q in REGISTRY:
        _c = REGISTRY[_q]
        for _sh in _c.shapes:
            _parts = set(_sh.name.replace(',', '/').replace(':', '/').split('/'))
            if any(m in _parts for m in _marks) and not _sh.opts.get('lsb0'):
                _sh.props = set(_sh.props if _sh.props is not None else _c.props) | {'C10'}
