"""Spec vocabulary (DESIGN.md section 5): pure functions over views, written from the
property statements.  A view is an extern.BA used as an immutable value (n, bit)."""
import z3
from . import sym
from .sym import SInt, SBool, ite, land, lor, lnot, implies, iff, is_sym
from . import extern
from .extern import BA, BBytes, adjust_indices
from .interp import Obj


def view(n, bit):
    return BA(n, bit)


def store_bits(store):
    """logical content of a BitStore: modified_length bits if set, else the raw buffer"""
    ba = store.attrs['_bitarray']
    ml = store.attrs.get('modified_length')
    if ml is None:
        return BA(ba.n, ba.bit)
    return BA(ml, ba.bit)


def bits(x):
    """logical content of a bitstring object (the string x.bin)"""
    return store_bits(x.attrs['_bitstore'])


def pyslice(C, n, start, stop, step):
    """(first, count, step) selected by seq[start:stop:step] on a sequence of length n (CPython rule)"""
    s, e, st, cnt = adjust_indices(C.interp, n, start, stop, step)
    return s, cnt, st


def slice_view(C, V, key):
    first, count, step = pyslice(C, V.n, key.start, key.stop, key.step)
    b = V.bit
    if isinstance(step, int) and step == 1:
        return BA(count, lambda i: b(first + i))
    return BA(count, lambda i: b(first + i * step))


def index_view(C, V, i):
    """V[i] with Python's negative-index rule; IndexError when out of range"""
    j = ite(i < 0, i + V.n, i)
    if sym.truth(lor(j < 0, j >= V.n)):
        C.throw('IndexError')
    return V.bit(j)


def cat(V, W):
    a, n, b = V.bit, V.n, W.bit
    return BA(n + W.n, lambda i: extern._sel2(i < n, a, i, b, i - n))


def rev(V):
    a, n = V.bit, V.n
    return BA(n, lambda i: a(n - 1 - i))


def sub(V, lo, hi):
    """V[lo:hi] for 0 <= lo <= hi <= n"""
    a = V.bit
    return BA(hi - lo, lambda i: a(lo + i))


def splice(V, lo, hi, W):
    """V[:lo] + W + V[hi:]"""
    a, b, m = V.bit, W.bit, W.n
    return BA(V.n - (hi - lo) + m,
              lambda i: extern._sel3(i < lo, a, i, i < lo + m, b, i - lo, a, i - m + (hi - lo)))


def zeros(n):
    return BA(n, lambda i: False)


def pointwise(op, V, W):
    a, b = V.bit, W.bit
    return BA(V.n, lambda i: extern._bitop(op, a(i), b(i)))


def inv(V):
    a = V.bit
    return BA(V.n, lambda i: extern._not(a(i)))


def mk_store(C, V, immutable=False):
    """a fresh in-memory BitStore holding view V"""
    cls = C.interp.lookup_qualname('bitstore.BitStore')
    o = Obj(cls)
    o.attrs['_bitarray'] = BA(V.n, V.bit)
    o.attrs['immutable'] = immutable
    o.attrs['modified_length'] = None
    return o


def mk_bits(C, cls, V, immutable=None, pos=None):
    """a fresh bitstring object of class cls (ClassVal) holding view V"""
    o = Obj(cls)
    o.attrs['_bitstore'] = mk_store(C, V, immutable=bool(immutable))
    if any(k.name == 'ConstBitStream' for k in cls.mro):
        o.attrs['_pos'] = 0 if pos is None else pos
    return o
