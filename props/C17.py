"""C17 extras: tofile's chunk loop.  tobytes and the window constructors are proved (contracts/bitstore.py, sources.py).
tofile writes the concatenation of tobytes() of the chunks cut(chunk_size) yields; that equals tobytes() of the whole
provided chunk_size is a positive multiple of 8 -- an obligation on the literal constant in the source -- and the cut loop
is right, which is checked by running the *real* tofile body in the interpreter with the constant replaced by small values
(so the chunk boundary is crossed with byte-sized data), plus native checks of tofile / Array.tobytes / tofile / fromfile."""
import ast
import copy
import io
import os
import random
import tempfile

META = {'explanation': 'tobytes and read-back windows proved; tofile: constant obligation (static) + the real loop run with small chunk sizes.'}
EXTRA_TASKS = ['tofile_chunks', 'native_io']


def _ob(oid, ok, witness=None, backend='static'):
    d = {'id': oid, 'backend': backend, 'kind': 'public', 'verdict': 'proved' if ok else 'refuted', 'qualname': oid.split('/')[1], 'shape': oid.split('/')[-1], 'clause': ''}
    if witness:
        d['witness'] = dict(witness, reproduced=witness.get('reproduced', True))
    return d


class _Sink:
    def __init__(self):
        self.data = bytearray()

    def pyvc_getattr(self, interp, name):
        from pyvc.interp import Builtin
        from pyvc.extern import BBytes
        if name == 'write':
            def write(b):
                self.data += b.to_host() if isinstance(b, BBytes) else bytes(b)
            return Builtin(write, 'write')
        from pyvc.interp import _MISSING
        return _MISSING


def tofile_chunks(tier='quick', seed=0):
    from pyvc import runner
    from pyvc.interp import FuncVal
    from pyvc import concrete
    runner.load_contracts()
    interp = runner.get_interp()
    interp.contracts = {}          # run the real bodies (no modular substitution) in this concrete run
    fn = interp.lookup_qualname('bits.Bits.tofile')
    obs = []
    # 1. the chunk size: located structurally -- the first argument of the `.cut(...)` call that drives the write loop, followed
    #    through one local assignment -- so that renaming the local or inlining the constant does not matter.  An implementation
    #    without such a call has no chunk constant: the obligation does not arise (the native read/write checks still run).
    def _const(expr):
        try:
            v = eval(compile(ast.Expression(expr), '<chunk size>', 'eval'), {})
            return v if isinstance(v, int) and not isinstance(v, bool) else None
        except Exception:
            return None

    def _locate(fnode):
        cut = next((n for n in ast.walk(fnode) if isinstance(n, ast.Call) and isinstance(n.func, ast.Attribute) and n.func.attr == 'cut' and n.args), None)
        if cut is not None:
            arg = cut.args[0]
            if isinstance(arg, ast.Name):
                asg = next((n for n in ast.walk(fnode) if isinstance(n, ast.Assign) and len(n.targets) == 1 and isinstance(n.targets[0], ast.Name)
                            and n.targets[0].id == arg.id), None)
                return ('assign', asg) if asg is not None else (None, None)
            return 'arg', cut
        # no .cut(...) drives the loop (the writer slices by hand): the chunk size is then the local that is assigned a large constant
        # expression (anything from 1024 up) -- found by value, not by name
        big = [n for n in ast.walk(fnode) if isinstance(n, ast.Assign) and len(n.targets) == 1 and isinstance(n.targets[0], ast.Name)
               and (_const(n.value) or 0) >= 1024]
        if len(big) == 1:
            return 'assign-free', big[0]
        return None, None
    where, holder = _locate(fn.node)
    val = None
    if where in ('assign', 'arg'):
        expr = holder.value if where == 'assign' else holder.args[0]
        try:
            val = eval(compile(ast.Expression(expr), '<chunk size>', 'eval'), {})
            ok = isinstance(val, int) and val > 0 and val % 8 == 0
        except Exception:
            ok = None                      # not a constant expression: nothing to decide statically
        if ok is not None:
            obs.append(_ob('C17/bits.Bits.tofile/chunk-size-is-a-positive-multiple-of-8/constant', ok,
                           None if ok else {'inputs': {'chunk_size': repr(val)}, 'reproduced': False,
                                            'python': "FAILS = False  # needs > 100 MiB of data to show natively; see the interpreted run below"}))
    # 2. the real loop with small chunk sizes
    rng = random.Random(seed)
    fails = []
    evals = 0
    Bits = interp.get_module('bitstring').ns['Bits']
    for k in (8, 16, 24, 64):
        if where is None:
            break
        node = copy.deepcopy(fn.node)
        w2, h2 = _locate(node)
        if w2 in ('assign', 'assign-free'):
            h2.value = ast.Constant(k)
        else:
            h2.args[0] = ast.Constant(k)
        ast.fix_missing_locations(node)
        f2 = FuncVal(node, fn.module, fn.closure, fn.defaults, fn.kwdefaults, fn.qualname + f'@chunk{k}', owner=fn.owner)
        for nbits in list(range(0, 3 * k + 10)) if tier == 'thorough' or k <= 24 else [0, 1, k - 1, k, k + 1, 2 * k, 2 * k + 3, 3 * k + 7]:
            evals += 1
            s = ''.join(rng.choice('01') for _ in range(nbits))
            b = interp.call(Bits, [], {'bin': s}) if s else interp.call(Bits, [], {})
            sink = _Sink()
            interp.call(f2, [b, sink], {})
            want = int(s + '0' * (-nbits % 8), 2).to_bytes((nbits + 7) // 8, 'big') if nbits else b''
            if bytes(sink.data) != want:
                fails.append({'call': f'tofile with chunk_size={k} on {nbits} bits', 'python': "FAILS = False  # interpreted run with a substituted constant"})
    bounded = [{'id': 'C17/bits.Bits.tofile/real-loop-with-small-chunk-sizes', 'qualname': 'bits.Bits.tofile', 'shape': 'chunk sizes 8,16,24,64',
                'function': 'Bits.tofile (real body, interpreted, constant substituted)', 'bound': 'chunk sizes 8/16/24/64 bits x lengths up to 3 chunks + 9',
                'evaluations': evals, 'failures': fails[:2]}]
    return {'id': 'C17.tofile', 'obligations': obs, 'bounded': bounded, 'evaluations': evals, 'functions': ['bits.Bits.tofile'],
            'summary': f'chunk constant {val}; {evals} interpreted runs'}


def native_io(tier='quick', seed=0):
    import bitstring
    from bitstring import Bits, BitArray, ConstBitStream, Array
    rng = random.Random(seed)
    fails = []
    evals = 0
    tmp = tempfile.mkdtemp(prefix='pyvc-c17-')
    try:
        for _ in range(300 if tier == 'quick' else 4000):
            n = rng.choice([0, 1, 7, 8, 9, 63, 64, 65, rng.randint(0, 300)])
            s = ''.join(rng.choice('01') for _ in range(n))
            for cls in (Bits, BitArray, ConstBitStream):
                evals += 1
                b = cls(bin=s) if n else cls()
                want = int(s + '0' * (-n % 8), 2).to_bytes((n + 7) // 8, 'big') if n else b''
                out = io.BytesIO()
                b.tofile(out)
                ok = b.tobytes() == want and bytes(b) == want and out.getvalue() == want
                if n % 8 == 0:
                    ok = ok and b.bytes == want
                else:
                    try:
                        b.bytes
                        ok = False
                    except ValueError:
                        pass
                if not ok:
                    fails.append({'call': f'{cls.__name__}(bin of {n} bits) tobytes/bytes/tofile', 'python': "FAILS = True"})
            # read back through a real file with a window
            if n:
                p = os.path.join(tmp, 'f.bin')
                with open(p, 'wb') as fh:
                    Bits(bin=s).tofile(fh)
                total = 8 * ((n + 7) // 8)
                off = rng.randint(0, total)
                ln = rng.randint(0, total - off)
                padded = s + '0' * (total - n)
                for make in (lambda: Bits(filename=p, offset=off, length=ln), lambda: Bits(open(p, 'rb'), offset=off, length=ln),
                             lambda: Bits(io.BytesIO(open(p, 'rb').read()), offset=off, length=ln), lambda: Bits(bytes=open(p, 'rb').read(), offset=off, length=ln)):
                    evals += 1
                    try:
                        if make().bin != padded[off:off + ln]:
                            fails.append({'call': f'read back window offset={off} length={ln} of a {total}-bit file', 'python': "FAILS = True"})
                    except Exception as e:
                        fails.append({'call': f'read back window offset={off} length={ln}', 'observed': type(e).__name__, 'python': "FAILS = True"})
        # a BytesIO or file handle is read as a whole whatever its current position, and reading it does not use it up: building twice, or
        # after the caller (or a windowed construction) has moved the position, gives the same bits
        for _ in range(40 if tier == 'quick' else 400):
            nb = rng.randint(1, 12)
            raw = bytes(rng.randrange(256) for _ in range(nb))
            bits_all = ''.join(format(x, '08b') for x in raw)
            p = os.path.join(tmp, 'h.bin')
            with open(p, 'wb') as fh:
                fh.write(raw)
            k = rng.randint(0, nb)
            off = rng.randint(0, 8 * nb)
            ln = rng.randint(0, 8 * nb - off)
            for kind in ('BytesIO', 'file handle'):
                for cls in (Bits, BitArray, ConstBitStream):
                    evals += 1
                    h = io.BytesIO(raw) if kind == 'BytesIO' else open(p, 'rb')
                    try:
                        steps = []
                        h.read(k)
                        steps.append((f'after h.read({k})', cls(h).bin, bits_all))
                        steps.append(('built a second time', cls(h).bin, bits_all))
                        steps.append((f'window offset={off} length={ln}', cls(h, offset=off, length=ln).bin, bits_all[off:off + ln]))
                        steps.append(('whole again after the window', cls(h).bin, bits_all))
                        out = io.BytesIO()
                        cls(bytes=raw).tofile(out)
                        steps.append(('from the BytesIO that tofile just wrote', cls(out).bin, bits_all))
                        bad = next((st for st in steps if st[1] != st[2]), None)
                    except Exception as e:
                        bad = ('raised', type(e).__name__, '')
                    finally:
                        h.close()
                    if bad:
                        fails.append({'call': f'{cls.__name__}(<{kind} over {raw.hex()}>) {bad[0]}', 'observed': str(bad[1])[:80], 'expected': str(bad[2])[:80],
                                      'python': 'import io, bitstring\n' + f"raw = bytes.fromhex('{raw.hex()}')\nh = io.BytesIO(raw)\nh.read({k})\n"
                                                f"a = bitstring.{cls.__name__}(h).tobytes()\nb = bitstring.{cls.__name__}(h).tobytes()\n"
                                                f"o = io.BytesIO(); bitstring.{cls.__name__}(bytes=raw).tofile(o)\nc = bitstring.{cls.__name__}(o).tobytes()\n"
                                                "FAILS = a != raw or b != raw or c != raw\n"})
                        break
        # one large write: more than 12.5 MiB (and in the thorough tier more than 100 MiB, past the writer's chunk size), a few bits over
        for mib, extra in ((13, 5),) if tier == 'quick' else ((13, 5), (101, 3)):
            evals += 1
            big = Bits(bytes=bytes(rng.randrange(256) for _ in range(4096)) * (mib * 256)) + Bits(bin='1' * extra)
            out = io.BytesIO()
            big.tofile(out)
            if out.getvalue() != big.tobytes():
                fails.append({'call': f'tofile of {len(big)} bits', 'observed': f'{len(out.getvalue())} bytes written', 'expected': f'{len(big.tobytes())} bytes',
                              'python': 'import io, bitstring\n' + f"b = bitstring.Bits(bytes=bytes(range(256)) * {mib * 4096}) + bitstring.Bits(bin='{'1' * extra}')\n"
                                        "o = io.BytesIO(); b.tofile(o)\nFAILS = o.getvalue() != b.tobytes()\n"})
            del big, out
        # bytes= from every kind of buffer object, with and without a window: always the window of the *bytes* of the buffer
        import array as _array
        for _ in range(300 if tier == 'quick' else 5000):
            nb = rng.choice([2, 4, 8, 12, 16])
            raw = bytes(rng.randrange(256) for _ in range(nb))
            kind = rng.choice(['bytes', 'bytearray', 'memoryview', 'memoryview H', 'memoryview I', 'memoryview 2d', 'array H', 'memoryview slice'])
            if kind == 'bytes':
                src = raw
            elif kind == 'bytearray':
                src = bytearray(raw)
            elif kind == 'memoryview':
                src = memoryview(raw)
            elif kind == 'memoryview H':
                src = memoryview(_array.array('H', raw))
            elif kind == 'memoryview I':
                src = memoryview(_array.array('I', raw)) if nb % 4 == 0 else memoryview(raw)
            elif kind == 'memoryview 2d':
                src = memoryview(raw).cast('B', (2, nb // 2))
            elif kind == 'array H':
                src = _array.array('H', raw)
            else:
                src = memoryview(b'\x00' + raw + b'\x00')[1:-1]
            total = 8 * nb
            off = rng.choice([None, 0, 1, 8, rng.randint(0, total)])
            ln = rng.choice([None, 0, rng.randint(0, total - (off or 0))])
            bits_all = ''.join(format(x, '08b') for x in raw)
            want = bits_all[(off or 0):(off or 0) + ln] if ln is not None else bits_all[(off or 0):]
            for cls in (Bits, BitArray, ConstBitStream):
                evals += 1
                kw = {k: v for k, v in (('offset', off), ('length', ln)) if v is not None}
                try:
                    got = cls(bytes=src, **kw).bin
                    ok = got == want
                except TypeError:
                    ok = kind == 'array H'          # an array.array is not a bytes-like initialiser for bytes=
                except Exception as e:
                    ok = False
                    got = type(e).__name__
                if not ok:
                    fails.append({'call': f"{cls.__name__}(bytes=<{kind} of {raw.hex()}>, {kw})", 'observed': str(got)[:60], 'expected': want[:60], 'python': "FAILS = True"})
                    break
        # Array
        for _ in range(100):
            evals += 1
            vals = [rng.randrange(0, 1 << 12) for _ in range(rng.randint(1, 9))]
            a = Array('uint12', vals)
            want = a.data.tobytes()
            out = io.BytesIO()
            a.tofile(out)
            if a.tobytes() != want or out.getvalue() != want:
                fails.append({'call': f"Array('uint12', {vals}).tobytes/tofile", 'python': "FAILS = True"})
            p = os.path.join(tmp, 'a.bin')
            with open(p, 'wb') as fh:
                Array('uint16', vals).tofile(fh)
            b = Array('uint16')
            with open(p, 'rb') as fh:
                k = rng.randint(0, len(vals))
                b.fromfile(fh, k)
            if b.tolist() != vals[:k]:
                fails.append({'call': f"Array('uint16').fromfile(f, {k}) of {vals}", 'observed': b.tolist(), 'python': "FAILS = True"})
            p_odd = os.path.join(tmp, 'odd.bin')
            # a file whose size is not a whole number of items: only whole items are taken, nothing is left as trailing bits
            for dt, w in (('uint16', 16), ('uint5', 5), ('int12', 12), ('uint3', 3), ('float32', 32)):
                rawf = bytes(rng.randrange(256) for _ in range(rng.randint(1, 7)))          # (an empty file cannot be mapped: ValueError, documented)
                with open(p_odd, 'wb') as fh:
                    fh.write(rawf)
                whole = (8 * len(rawf)) // w
                for n_req in (None, whole, whole + 3, max(0, whole - 1), 0):
                    evals += 1
                    c = Array(dt)
                    try:
                        with open(p_odd, 'rb') as fh:
                            c.fromfile(fh, n_req) if n_req is not None else c.fromfile(fh)
                        okf = n_req is None or n_req <= whole
                    except EOFError:
                        okf = n_req is not None and n_req > whole
                    exp_items = whole if (n_req is None or n_req > whole) else n_req
                    bits_all = ''.join(format(x, '08b') for x in rawf)
                    if not okf or len(c) != exp_items or len(c.trailing_bits) != 0 or c.data.bin != bits_all[:exp_items * w]:
                        fails.append({'call': f"Array({dt!r}).fromfile(<{len(rawf)}-byte file>, {n_req})", 'observed': f'{len(c)} items, {len(c.trailing_bits)} trailing bits',
                                      'expected': f'{exp_items} items, no trailing bits', 'python': "FAILS = True"})
                        break
            if len(vals):
                b2 = Array('uint16')
                try:
                    with open(p, 'rb') as fh:
                        b2.fromfile(fh, len(vals) + 2)
                    fails.append({'call': 'Array.fromfile asking for more items than the file holds', 'observed': 'no EOFError', 'python': "FAILS = True"})
                except EOFError:
                    if b2.tolist() != vals:
                        fails.append({'call': 'Array.fromfile EOFError path', 'observed': b2.tolist(), 'python': "FAILS = True"})
    finally:
        import shutil
        shutil.rmtree(tmp, True)
    return {'id': 'C17.native', 'obligations': [], 'evaluations': evals,
            'bounded': [{'id': 'C17/bits.Bits.tofile+Array/native-io', 'qualname': 'bits.Bits.tofile', 'shape': 'random sizes', 'function': 'tobytes/bytes/tofile/read-back/Array io',
                         'bound': '300 random sizes x 3 classes, random windows, 100 Arrays', 'evaluations': evals, 'failures': fails[:3]}],
            'summary': f'{evals} native io cases, {len(fails)} failures'}
