"""C14: Array behaves as a list of fixed-width items over one contiguous bit buffer.

Abstract view: items(A) = [chunk_i], chunk_i = bits(A.data)[i*w, (i+1)*w), w = the dtype's bit length, followed by the
trailing (< w) bits.  Each operation is a list-of-chunks equation plus the frame 'all other chunks and the trailing bits
are unchanged'."""
from pyvc.contract import contract, Shape, INLINE
from pyvc import sym, spec
from pyvc.sym import lor, lnot, land, ite, smin, smax
from pyvc.spec import bits, mk_bits, sub, cat, splice
from pyvc.shapes import m_bits, r_bits
from pyvc.extern import BA
from pyvc.interp import Obj
from .common import *
from .streams import decode, FIXED
from .values import enc_int, INT_ROWS
from .bits_ops import _set_bits

# (dtype name, unit bits): 'bytes' has a multiplier of 8 -- length counts bytes, w = 8 * length
DTYPES = [('uint', 1), ('int', 1), ('bytes', 8)]


def m_array(S, interp, name, dt):
    A = Obj(interp.get_module('bitstring').ns['Array'])
    A.attrs['data'] = m_bits(S, interp, name + '.data', 'BitArray', 'plain')
    n = S.int(name + '.len')
    S.assume(land(n >= 1, n <= 4096))
    D = interp.get_module('bitstring').ns['Dtype']
    A.attrs['_dtype'] = interp.call(D, [dt, n], {})
    return A


def r_array(vals, name, dt):
    import bitstring
    a = bitstring.Array(bitstring.Dtype(dt, vals[name + '.len']))
    a.data = bitstring.BitArray(bin=''.join('1' if b else '0' for b in vals[name + '.data'])) if vals[name + '.data'] else bitstring.BitArray()
    return a


def W(A):
    return A.attrs['_dtype'].attrs['_bitlength']


def _arr_shapes(extra=lambda S, interp, d, A: [], extra_real=lambda v, d, A: [], combos=({},), dtypes=DTYPES):
    out = []
    for dt, unit in dtypes:
        for d in combos:
            def build(S, interp, dt=dt, d=d):
                A = m_array(S, interp, 'self', dt)
                return [A] + extra(S, interp, d, A), {}

            def real(vals, dt=dt, d=d):
                A = r_array(vals, 'self', dt)
                return [A] + extra_real(vals, d, A), {}
            out.append(Shape(dt + ('/' + cname(d) if d else ''), build, real))
    return out


def _items(A):
    D = bits(A.attrs['data'])
    w = W(A)
    return D, w, D.n // w


@contract('array_.Array.__len__', shapes=_arr_shapes(), props={'C14'}, kind='public', note="len(A) = number of whole items")
def arr_len(C, self):
    return _items(self)[2]


@contract('array_.Array.itemsize', shapes=[], props={'C14'}, kind='public', note="itemsize in bits")
def arr_itemsize(C, self):
    return INLINE


def _decode_item(C, A, V):
    return decode(C, A.attrs['_dtype'].attrs['_name'], V)


_key = (lambda S, interp, d, A: [S.int('i')], lambda v, d, A: [v['i']])


def _norm_index(C, i, n):
    j = ite(i < 0, i + n, i)
    if sym.truth(lor(j < 0, j >= n)):
        C.throw('IndexError')
    return j


@contract('array_.Array.__getitem__', shapes=_arr_shapes(*_key), props={'C14'}, kind='public',
          note="A[i]: the decoded chunk i (negative from the end); IndexError out of range")
def arr_getitem(C, self, key):
    if isinstance(key, slice):
        return INLINE
    D, w, n = _items(self)
    j = _norm_index(C, key, n)
    return _decode_item(C, self, sub(D, j * w, (j + 1) * w))


def _enc_item(C, A, v):
    dt = A.attrs['_dtype']
    name, ln = dt.attrs['_name'], dt.attrs['_length']
    if name in INT_ROWS:
        return enc_int(C, v, ln, INT_ROWS[name][0])
    raise sym.Unsupported("item encoding for this dtype")


_iv = (lambda S, interp, d, A: [S.int('i'), S.int('v')], lambda v, d, A: [v['i'], v['v']])
_INT_DT = [d for d in DTYPES if d[0] in INT_ROWS]


@contract('array_.Array.__setitem__', shapes=_arr_shapes(*_iv, dtypes=_INT_DT), props={'C14', 'C15'}, kind='public',
          note="A[i] = v: chunk i becomes the encoding of v, every other chunk and the trailing bits unchanged; IndexError out of "
               "range, ValueError (A unchanged) when v does not fit")
def arr_setitem(C, self, key, value):
    if isinstance(key, slice):
        return INLINE
    D, w, n = _items(self)
    j = _norm_index(C, key, n)
    V = _enc_item(C, self, value)
    _set_bits(C, self.attrs['data'], splice(D, j * w, (j + 1) * w, V))
    return None


@contract('array_.Array.__delitem__', shapes=_arr_shapes(*_key), props={'C14'}, kind='public',
          note="del A[i]: chunk i removed, the others and the trailing bits keep their content")
def arr_delitem(C, self, key):
    if isinstance(key, slice):
        return INLINE
    D, w, n = _items(self)
    j = _norm_index(C, key, n)
    _set_bits(C, self.attrs['data'], splice(D, j * w, (j + 1) * w, spec.zeros(0)))
    return None


_v = (lambda S, interp, d, A: [S.int('v')], lambda v, d, A: [v['v']])


@contract('array_.Array.append', shapes=_arr_shapes(*_v, dtypes=_INT_DT), props={'C14'}, kind='public',
          note="append(v): refused (ValueError) when there are trailing bits, else the encoding of v is added at the end")
def arr_append(C, self, x):
    D, w, n = _items(self)
    if sym.truth(lnot(sym.eq(D.n % w, 0))):
        C.throw('ValueError')
    V = _enc_item(C, self, x)
    _set_bits(C, self.attrs['data'], cat(D, V))
    return None


@contract('array_.Array.insert', shapes=_arr_shapes(*_iv, dtypes=_INT_DT), props={'C14'}, kind='public',
          note="insert(i, v): like list.insert on the items (i clamped to [0, len], negative i from the end); the trailing bits stay at the end")
def arr_insert(C, self, i, x):
    D, w, n = _items(self)
    j = ite(i < 0, smax(i + n, 0), smin(i, n))
    V = _enc_item(C, self, x)
    _set_bits(C, self.attrs['data'], splice(D, j * w, j * w, V))
    return None


@contract('array_.Array.pop', shapes=_arr_shapes(*_key), props={'C14'}, kind='public',
          note="pop(i): returns the decoded chunk i and removes it; IndexError for an empty Array or an index out of range")
def arr_pop(C, self, i=-1):
    D, w, n = _items(self)
    if sym.truth(sym.eq(n, 0)):
        C.throw('IndexError')
    j = _norm_index(C, i, n)
    r = _decode_item(C, self, sub(D, j * w, (j + 1) * w))
    _set_bits(C, self.attrs['data'], splice(D, j * w, (j + 1) * w, spec.zeros(0)))
    return r


@contract('array_.Array.trailing_bits', shapes=[], props={'C14'}, kind='public')
def arr_trailing(C, self):
    return INLINE
