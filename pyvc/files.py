"""Models of files, mmap and BytesIO (assumed contract: the mapped content is the file's bytes)."""
from . import sym
from .sym import Unsupported, NeedConcrete, is_sym
from .interp import Builtin, _MISSING
from .extern import BA, BBytes, SymBytes, as_bbytes


class FileModel:
    """an open binary file (io.BufferedReader): name + content bytes (as bits)"""

    def __init__(self, name, nbytes, bit, pos=0):
        self.name = name
        self.nbytes = nbytes
        self.bit = bit
        self.pos = pos

    def pyvc_getattr(self, interp, name):
        if name == 'name':
            return self.name
        if name == 'fileno':
            return Builtin(lambda: self, 'fileno')
        if name == '__enter__':
            return Builtin(lambda: self, '__enter__')
        if name == '__exit__':
            return Builtin(lambda *a: None, '__exit__')
        if name == 'close':
            return Builtin(lambda: None, 'close')
        if name == 'tell':
            return Builtin(lambda: self.pos, 'tell')
        return _MISSING


class FileSystem:
    """name -> (nbytes, bit) ; installed on the interpreter by shapes that use files"""

    def __init__(self):
        self.files = {}


class MMapModel:
    def __init__(self, f):
        self.file = f


class BytesIOModel:
    def __init__(self, nbytes, bit):
        self.nbytes = nbytes
        self.bit = bit

    def pyvc_getattr(self, interp, name):
        if name == 'seek':
            def seek(off, whence=0):
                if whence == 2 and off == 0:
                    return self.nbytes
                if whence == 0:
                    return off
                raise Unsupported("BytesIO.seek mode")
            return Builtin(seek, 'seek')
        if name == 'getvalue':
            return Builtin(lambda: BBytes(self.nbytes, self.bit), 'getvalue')
        return _MISSING


def py_open(interp, path, mode='r', *a, **k):
    fs = getattr(interp, 'fs', None)
    if fs is None or path not in fs.files:
        if fs is None:
            raise Unsupported("open() without a file-system model")
        interp.throw('FileNotFoundError', 'No such file')
    nbytes, bit = fs.files[path]
    return FileModel(path, nbytes, bit)


def mmap_of(interp, f):
    if not isinstance(f, FileModel):
        raise Unsupported("mmap of non-file")
    if sym.truth(sym.eq(f.nbytes, 0)):
        interp.throw('ValueError', 'cannot mmap an empty file')
    return MMapModel(f)


def ba_from_buffer(interp, buf):
    """bitarray(buffer=buf): aliases buf; read-only for mmap/bytes"""
    if isinstance(buf, MMapModel):
        r = BA(buf.file.nbytes * 8, buf.file.bit, readonly=True)
        r.alias_of = buf
        return r
    if isinstance(buf, (BBytes, SymBytes)):
        bb = as_bbytes(interp, buf)
        r = BA(bb.nbytes * 8, bb.bit, readonly=True)
        r.alias_of = buf
        return r
    if isinstance(buf, (bytes, bytearray, memoryview)):
        bb = as_bbytes(interp, buf)
        r = BA(bb.nbytes * 8, bb.bit, readonly=not isinstance(buf, bytearray))
        r.alias_of = buf
        return r
    raise Unsupported("bitarray(buffer=...) of this type")
