"""C20: well-typed misuse fails cleanly and corrupts nothing.

Deductive part: every contract of a public entry point fixes the exception class of each raising path (outcome-kind /
raises clauses: only documented classes appear in specifications) and the validity of the post-state; the check for C20
runs the contracts of the public mutators, stream operations, constructors, value setters and operators (selection below).
Bounded part: a call fuzzer over the public API with arbitrary well-typed values."""
import io
import random

META = {'explanation': 'exception classes and post-state validity are clauses of every public contract (proved); a bounded API fuzzer '
                       'covers entry points that take format strings or are not yet under contract.'}
EXTRA_TASKS = ['fuzz']
# properties whose public contracts are re-run as the deductive part of C20
ALSO_PROPS = ['C03', 'C06', 'C15', 'C16', 'C04']

DOCUMENTED = (ValueError, IndexError, TypeError, OSError)


def fuzz(tier='quick', seed=0):
    import bitstring
    from bitstring import Bits, BitArray, ConstBitStream, BitStream, Array, Dtype, pack
    rng = random.Random(seed)
    fails = []
    evals = 0
    N = 2500 if tier == 'quick' else 40000

    def rbits(maxlen=24):
        n = rng.randint(0, maxlen)
        return ''.join(rng.choice('01') for _ in range(n))

    def rint():
        return rng.choice([0, 1, -1, 2, 7, 8, 9, -8, 100, -100, 10 ** 6, rng.randint(-40, 40)])

    def rfmt():
        return rng.choice(['uint:8', 'int:4', 'hex', 'bin', 'bits:3', 'ue', 'se', 'bool', 'float:32', 'bytes', 'pad:2', 'uint8, hex', '2*(bin2)',
                           'uintle:16', '<H', 'bfloat', 'e4m3mxfp', 'uint:0', 'uint:-1', 'bogus', '3*(uint8', 'int:n', '', 'hex:3', 'oct', 'bytes:1',
                           'uint', 'float:17', '>2h', 'bits', 'p4binary'])

    def arg(kind):
        return {'bits': lambda: rng.choice([Bits(bin=rbits()), BitArray(bin=rbits()), '0b' + rbits(6), '0x' + 'f' * rng.randint(0, 3), b'\x01', rbits(4) and [1, 0]]),
                'int': rint, 'optint': lambda: rng.choice([None, rint()]), 'fmt': rfmt, 'bool': lambda: rng.random() < 0.5,
                'iter': lambda: rng.choice([[0], [1, 2], [-1], range(0, 4), (3, 100), []])}[kind]()

    METHODS = {
        'all': ['bool', 'iter'], 'any': ['bool', 'iter'], 'count': ['bool'], 'cut': ['int', 'optint', 'optint', 'optint'], 'endswith': ['bits', 'optint', 'optint'],
        'startswith': ['bits', 'optint', 'optint'], 'find': ['bits', 'optint', 'optint', 'bool'], 'rfind': ['bits', 'optint', 'optint', 'bool'],
        'findall': ['bits', 'optint', 'optint', 'optint', 'bool'], 'split': ['bits', 'optint', 'optint', 'optint', 'bool'], 'join': ['iter'],
        'unpack': ['fmt'], 'tobytes': [], 'tobitarray': [], 'copy': [], '__getitem__': ['int'], '__mul__': ['int'], '__lshift__': ['int'], '__rshift__': ['int'],
        '__and__': ['bits'], '__or__': ['bits'], '__xor__': ['bits'], '__add__': ['bits'], '__invert__': [], '__contains__': ['bits'], '__eq__': ['bits'],
    }
    MUT = {'append': ['bits'], 'prepend': ['bits'], 'insert': ['bits', 'int'], 'overwrite': ['bits', 'int'], 'replace': ['bits', 'bits', 'optint', 'optint', 'optint', 'bool'],
           'reverse': ['optint', 'optint'], 'rol': ['int', 'optint', 'optint'], 'ror': ['int', 'optint', 'optint'], 'set': ['bool', 'iter'], 'invert': ['iter'],
           'byteswap': ['int', 'optint', 'optint', 'bool'], 'clear': [], '__setitem__': ['int', 'int'], '__delitem__': ['int'], '__ilshift__': ['int'],
           '__irshift__': ['int'], '__imul__': ['int'], '__iand__': ['bits'], '__ior__': ['bits'], '__ixor__': ['bits'], '__iadd__': ['bits']}
    STREAM = {'append': ['bits'], 'overwrite': ['bits', 'optint'], 'read': ['fmt'], 'peek': ['fmt'], 'readlist': ['fmt'], 'peeklist': ['fmt'], 'readto': ['bits', 'bool'], 'bytealign': []}
    classes = [Bits, BitArray, ConstBitStream, BitStream]
    opt0 = (bitstring.options.lsb0, bitstring.options.bytealigned, bitstring.options.mxfp_overflow)
    for _ in range(N):
        cls = rng.choice(classes)
        s = rbits()
        try:
            o = cls(bin=s) if s else cls()
        except Exception as e:
            fails.append({'call': f'{cls.__name__}(bin={s!r})', 'observed': type(e).__name__, 'python': "FAILS = True"})
            continue
        if hasattr(o, 'pos'):
            o.pos = rng.randint(0, len(o))
        table = dict(METHODS)
        if isinstance(o, BitArray):
            table.update(MUT)
        if isinstance(o, ConstBitStream):
            table.update(STREAM)
        name = rng.choice(sorted(table))
        args = [arg(k) for k in table[name]]
        before = o.bin
        evals += 1
        desc = f'{cls.__name__}(bin={s!r}' + (f', pos={o.pos}' if hasattr(o, 'pos') else '') + f').{name}(*{args!r})'
        try:
            r = getattr(o, name)(*args)
            if hasattr(r, '__next__'):
                list(r)
        except DOCUMENTED:
            pass
        except bitstring.Error:
            pass
        except Exception as e:
            fails.append({'call': desc, 'observed': type(e).__name__, 'expected': 'a documented exception class',
                          'python': f"FAILS = True  # {desc} raised {type(e).__name__}"})
            continue
        bad = None
        try:
            if len(o) != len(o.bin):
                bad = 'len(s) != len(s.bin)'
            if hasattr(o, 'pos') and not (0 <= o.pos <= len(o)):
                bad = f'pos {o.pos} outside [0, {len(o)}]'
            if not isinstance(o, BitArray) and o.bin != before:
                bad = 'immutable object changed'
        except Exception as e:
            bad = f'object unusable afterwards: {type(e).__name__}'
        if (bitstring.options.lsb0, bitstring.options.bytealigned, bitstring.options.mxfp_overflow) != opt0:
            bad = 'module options changed'
            bitstring.options.lsb0, bitstring.options.bytealigned, bitstring.options.mxfp_overflow = opt0
        if bad:
            fails.append({'call': desc, 'observed': bad, 'python': f"FAILS = True  # {desc}: {bad}"})
        if len(fails) > 12:
            break
    # constructors, Dtype, pack, Array with arbitrary values
    for _ in range(N // 3):
        evals += 1
        kind = rng.choice(['ctor', 'dtype', 'pack', 'array'])
        try:
            if kind == 'ctor':
                kw = rng.choice([{'uint': rint(), 'length': rint()}, {'int': rint(), 'length': rint()}, {'hex': rng.choice(['ff', 'xyz', '', '0x1'])},
                                 {'bytes': b'ab', 'offset': rint(), 'length': rint()}, {'float': 1.5, 'length': rint()}, {'bool': rint()}, {'ue': rint()},
                                 {'bin': rng.choice(['01', '2', ''])}, {'uintle': rint(), 'length': rint()}, {'bfloat': 1.0}, {'e4m3mxfp': 1e9}, {'auto': 3}])
                desc = f'Bits(**{kw!r})'
                Bits(**kw)
            elif kind == 'dtype':
                a = (rfmt().split(',')[0], rng.choice([None, rint()]))
                desc = f'Dtype{a!r}'
                Dtype(*[x for x in a if x is not None])
            elif kind == 'pack':
                f = rfmt()
                vals = [rng.choice([rint(), 1.5, 'ff', '0b1', b'a', True]) for _ in range(rng.randint(0, 3))]
                desc = f'pack({f!r}, *{vals!r})'
                pack(f, *vals)
            else:
                f = rng.choice(['uint8', 'int4', 'float32', 'hex4', 'bytes2', 'bool', '<H', 'bogus', 'ue', 'bits3'])
                vals = [rng.choice([rint(), 1.5, 'f', b'ab', True]) for _ in range(rng.randint(0, 3))]
                desc = f'Array({f!r}, {vals!r})'
                a = Array(f, vals)
                a.tolist(); repr(a); len(a)
                if len(a):
                    a[rint() % (2 * len(a)) - len(a)] if rng.random() < 0.5 else a.pop()
        except DOCUMENTED:
            pass
        except bitstring.Error:
            pass
        except Exception as e:
            fails.append({'call': desc, 'observed': type(e).__name__, 'expected': 'a documented exception class',
                          'python': f"FAILS = True  # {desc} raised {type(e).__name__}"})
            if len(fails) > 12:
                break
    # the two mutators that ConstBitStream exposes on immutable receivers are reported under their own obligation
    imm = [f for f in fails if f['call'].startswith('ConstBitStream(') and ('.append(' in f['call'] or '.overwrite(' in f['call'])]
    fails = [f for f in fails if f not in imm]
    # de-duplicate by (method, exception)
    seen = set()
    uniq = []
    for f in fails:
        k = (f['call'].split(').')[-1].split('(')[0] if ').' in f['call'] else f['call'].split('(')[0], f.get('observed'))
        if k not in seen:
            seen.add(k)
            uniq.append(f)
    return {'id': 'C20.fuzz', 'obligations': [], 'evaluations': evals,
            'bounded': [{'id': 'C20/public-api/fuzz', 'qualname': 'public-api', 'shape': f.get('call', '')[:60] if False else 'fuzz',
                         'function': 'every public method of the four classes, constructors, Dtype, pack, Array',
                         'bound': f'{N} random method calls + {N // 3} constructor/Dtype/pack/Array calls, objects <= 24 bits, seed {seed}',
                         'evaluations': evals, 'failures': uniq[:6]},
                        {'id': 'C20/bitstream.ConstBitStream.append@immutable-receiver/fuzz', 'qualname': 'bitstream.ConstBitStream.append@immutable-receiver',
                         'shape': 'ConstBitStream/immutable', 'function': 'ConstBitStream.append / overwrite on an immutable receiver',
                         'bound': 'the calls of the fuzzer above that hit these two methods', 'evaluations': len(imm) or 1, 'failures': imm[:2]}],
            'summary': f'{evals} calls, {len(uniq)} distinct failures'}
