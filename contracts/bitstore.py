"""Sidecar contracts for /repo/bitstring/bitstore.py (no file in /repo is edited)."""
import itertools
from pyvc.contract import contract, Shape, Contract
from pyvc import sym, spec, shapes
from pyvc.sym import ite, land, lor, lnot, implies
from pyvc.spec import store_bits, slice_view, pyslice
from pyvc.extern import BA
from pyvc.shapes import m_store, r_store, STORE_STATES


def opt_int_combos(names, step_name=None):
    """all None/int combinations; a step additionally splits by sign"""
    out = []
    for combo in itertools.product(*[(None, 'int')] * len(names)):
        d = dict(zip(names, combo))
        if step_name and d[step_name] == 'int':
            for sg in ('pos', 'neg'):
                e = dict(d)
                e[step_name] = sg
                out.append(e)
        else:
            out.append(d)
    return out


def combo_name(d):
    return ','.join(f'{k}={v}' for k, v in d.items())


def mk_opt(S, name, kind):
    if kind is None:
        return None
    v = S.int(name)
    if S.values is None:
        if kind == 'pos':
            S.assume(v > 0)
        elif kind == 'neg':
            S.assume(v < 0)
    return v


def rv(vals, name, kind):
    return None if kind is None else vals[name]


# ---------------------------------------------------------------------------------------
# indices(s, length): slice.indices made idempotent under slice(*result)
# ---------------------------------------------------------------------------------------
def _indices_shapes():
    out = []
    for d in opt_int_combos(['start', 'stop', 'step'], 'step'):
        def build(S, interp, d=d):
            s = slice(mk_opt(S, 'start', d['start']), mk_opt(S, 'stop', d['stop']), mk_opt(S, 'step', d['step']))
            n = S.int('length')
            S.assume(n >= 0)
            return [s, n], {}

        def real(vals, d=d):
            return [slice(rv(vals, 'start', d['start']), rv(vals, 'stop', d['stop']), rv(vals, 'step', d['step'])),
                    vals['length']], {}
        out.append(Shape(combo_name(d), build, real))
    return out


@contract('bitstore.indices', shapes=_indices_shapes(), props={'C01', 'C12'}, kind='internal', relational=True,
          note="slice(*indices(s, n)) selects exactly the positions s selects on a length-n sequence, "
               "and the triple is in canonical (in-range) form")
def indices_post(C, args, kwargs, out):
    s, n = args
    if out.kind == 'exc':
        yield ('raises', False, f'unexpected {out.value.cls.name}')
        return
    a, b, c = out.value
    f0, c0, s0 = pyslice(C, n, s.start, s.stop, s.step)
    f1, c1, s1 = pyslice(C, n, a, b, c)
    yield ('same-count', sym.eq(c0, c1))
    yield ('same-first', implies(c0 > 0, sym.eq(f0, f1)))
    yield ('same-step', sym.eq(s0, s1))
    yield ('canonical-start', land(a >= -1, a <= n))
    yield ('canonical-stop', True if b is None else land(b >= 0, b <= n))


# ---------------------------------------------------------------------------------------
# offset_slice_indices_lsb0(key, length): the C12 mirror law on (first, count, step)
# ---------------------------------------------------------------------------------------
@contract('bitstore.offset_slice_indices_lsb0', shapes=_indices_shapes(), props={'C12'}, kind='public', relational=True,
          note="the returned slice selects, on a length-n sequence, exactly the mirrored positions "
               "n-1-p of the positions p that key selects, in mirrored order (same step sign)")
def offset_post(C, args, kwargs, out):
    key, n = args
    if out.kind == 'exc':
        yield ('raises', False, f'unexpected {out.value.cls.name}')
        return
    r = out.value
    f0, c0, s0 = pyslice(C, n, key.start, key.stop, key.step)
    f1, c1, s1 = pyslice(C, n, r.start, r.stop, r.step)
    last0 = f0 + (c0 - 1) * s0
    yield ('mirror-count', sym.eq(c0, c1))
    yield ('mirror-first', implies(c0 > 0, sym.eq(f1, n - 1 - last0)))
    yield ('mirror-step', sym.eq(s0, s1))


# ---------------------------------------------------------------------------------------
# BitStore accessors under every representation state (C01, C08)
# ---------------------------------------------------------------------------------------
def _store_shapes(extra=lambda S, d: [], extra_real=lambda vals, d: [], combos=({},), states=STORE_STATES):
    out = []
    for st in states:
        for d in combos:
            def build(S, interp, st=st, d=d):
                return [m_store(S, interp, 'self', st)] + extra(S, d), {}

            def real(vals, st=st, d=d):
                return [r_store(vals, 'self', st)] + extra_real(vals, d), {}
            nm = st + ('/' + combo_name(d) if d else '')
            out.append(Shape(nm, build, real))
    return out


@contract('bitstore.BitStore.__len__', shapes=_store_shapes(), props={'C01', 'C08'}, kind='internal')
def store_len(C, self):
    return store_bits(self).n


@contract('bitstore.BitStore.getindex_msb0',
          shapes=_store_shapes(lambda S, d: [S.int('index')], lambda v, d: [v['index']]),
          props={'C01', 'C08'}, kind='public',
          note="s[i] is bit i of the logical content (negative i from the logical end); IndexError outside [-n, n)")
def getindex_msb0(C, self, index):
    V = store_bits(self)
    return sym.mk_bool(sym._b(spec.index_view(C, V, index))) if sym.is_sym(index) or True else None


_slice_combos = opt_int_combos(['start', 'stop'])
_step_combos = opt_int_combos(['start', 'stop', 'step'], 'step')


@contract('bitstore.BitStore.getslice_msb0',
          shapes=_store_shapes(lambda S, d: [mk_opt(S, 'start', d['start']), mk_opt(S, 'stop', d['stop'])],
                               lambda v, d: [rv(v, 'start', d['start']), rv(v, 'stop', d['stop'])], _slice_combos),
          props={'C01', 'C08'}, kind='internal')
def getslice_msb0(C, self, start, stop):
    return spec.mk_store(C, slice_view(C, store_bits(self), slice(start, stop, None)))


@contract('bitstore.BitStore.getslice_withstep_msb0',
          shapes=_store_shapes(lambda S, d: [slice(mk_opt(S, 'start', d['start']), mk_opt(S, 'stop', d['stop']),
                                                   mk_opt(S, 'step', d['step']))],
                               lambda v, d: [slice(rv(v, 'start', d['start']), rv(v, 'stop', d['stop']),
                                                   rv(v, 'step', d['step']))], _step_combos),
          props={'C01', 'C08'}, kind='public',
          note="a fresh in-memory store holding exactly seq[key] of the logical content")
def getslice_withstep_msb0(C, self, key):
    return spec.mk_store(C, slice_view(C, store_bits(self), key))


@contract('bitstore.BitStore._copy', shapes=_store_shapes(), props={'C01', 'C08', 'C04'}, kind='internal',
          note="a fresh mutable in-memory store with the logical content")
def store__copy(C, self):
    return spec.mk_store(C, store_bits(self))


@contract('bitstore.BitStore.tobytes', shapes=_store_shapes(), props={'C08', 'C17'}, kind='public',
          note="ceil(n/8) bytes: the logical bits followed by zero padding")
def store_tobytes(C, self):
    V = store_bits(self)
    nbytes = (V.n + 7) // 8
    from pyvc.extern import BBytes, _sel2b
    a, n = V.bit, V.n
    return BBytes(nbytes, lambda i: _sel2b(i < n, a, i))
