"""C09: construction and parsing are pure -- results never depend on call history.

Decided by *frame (read-effect) contracts* over the whole call graph, computed from the AST of the real
source on every run (so a newly added cache or a new option read is covered):

  E1  for every function decorated with functools.lru_cache: reads*(f) contains no module option and no
      other mutable module state that is not part of the cache key.  A cached function MAY read options
      that are themselves arguments of the cached function (they are then part of the key).
  E2  every lru_cache either uses typed=True or none of its arguments can be equal-but-distinguishable
      (1 == 1.0 == True) in a way the result depends on: checked for the `scale` argument.
  E4  Options.set_lsb0: both dispatch dicts rebind the same attribute set; no other statement in the package
      assigns those attributes; the other setters write only their own field.
  E5  Array._largest_values initialiser reads no option.
  B   run-time cross-check (bounded): random interleavings of constructions / parses / option flips, each call
      compared with the same call on cold caches.
"""
import ast
import glob
import os
import random

REPO = os.environ.get('PYVC_REPO', '/repo')
PKG = os.path.join(REPO, 'bitstring')
OPTION_NAMES = {'lsb0', 'bytealigned', 'mxfp_overflow', 'no_color', '_lsb0', '_bytealigned', '_mxfp_overflow'}
META = {'explanation': 'Read-effect (frame) contracts over the AST call graph decide purity of every memoised function; '
                       'a bounded run-time interleaving test cross-checks the analysis.'}
EXTRA_TASKS = ['effects', 'dispatch_tables', 'cached_values_not_mutated', 'cached_stores_flagged', 'runtime_crosscheck', 'creation_routes_isolation']
# 'what was later done to previously returned objects': the ownership contracts (a cached store never reaches a mutable owner)
ALSO_PROPS = ['C04', 'C01', 'C16', 'C03', 'C05', 'C10']   # every contract whose ownership clause can see a memoised store being adopted or changed


import re as _re
BUILTIN_METHODS = set()
for _t in (str, bytes, list, dict, tuple, set, int, float, bytearray):
    BUILTIN_METHODS |= {m for m in dir(_t) if not m.startswith('__')}
BUILTIN_METHODS |= {'group', 'groups', 'start', 'end', 'span', 'match', 'search', 'findall', 'sub'}
MODULE_ALIASES = {'bitstring', 'utils', 'bitstore_helpers', 'dtypes', 'bitstore'}
PACKAGE_CLASSES = {'Bits', 'BitArray', 'ConstBitStream', 'BitStream', 'BitStore', 'Dtype', 'Array', 'Register', 'DtypeDefinition'}


class Fn:
    def __init__(self, qual, node, module, cls=None):
        self.qual, self.node, self.module, self.cls = qual, node, module, cls
        self.cached = False
        self.typed = False
        self.calls = set()       # names / attrs called
        self.recv_kind = {}      # attr -> 'self' | 'super' when every call of that attr has such a receiver
        self.option_reads = []   # (attr, lineno)
        self.params = [a.arg for a in node.args.posonlyargs + node.args.args + node.args.kwonlyargs]


def load():
    fns = {}
    by_name = {}
    trees = {}
    for path in sorted(glob.glob(os.path.join(PKG, '*.py'))):
        mod = os.path.basename(path)[:-3]
        if mod in ('luts', '__main__'):
            continue
        tree = ast.parse(open(path).read(), path)
        trees[mod] = tree

        def visit(body, cls=None, prefix=mod):
            for n in body:
                if isinstance(n, ast.ClassDef):
                    visit(n.body, n.name, f'{prefix}.{n.name}')
                elif isinstance(n, (ast.FunctionDef, ast.AsyncFunctionDef)):
                    f = Fn(f'{prefix}.{n.name}', n, mod, cls)
                    for d in n.decorator_list:
                        src = ast.unparse(d)
                        if 'lru_cache' in src:
                            f.cached = True
                            f.typed = 'typed=True' in src.replace(' ', '')
                    fns[f.qual] = f
                    by_name.setdefault(n.name, []).append(f)
                    # nested functions (closures in DtypeDefinition.__init__) count as part of the parent
        visit(tree.body)
    def walk_no_nested(root):
        todo = list(ast.iter_child_nodes(root))
        while todo:
            n = todo.pop()
            yield n
            if isinstance(n, (ast.FunctionDef, ast.Lambda, ast.AsyncFunctionDef)):
                continue          # a closure body is not executed when the enclosing function runs
            todo.extend(ast.iter_child_nodes(n))
    stdlib = {}
    for mod, tree in trees.items():
        names = set()
        for n in tree.body:
            if isinstance(n, ast.Import):
                for a in n.names:
                    if not a.name.startswith('bitstring'):
                        names.add((a.asname or a.name).split('.')[0])
        stdlib[mod] = names
    for f in fns.values():
        for n in walk_no_nested(f.node):
            if isinstance(n, ast.Call):
                fn = n.func
                if isinstance(fn, ast.Name):
                    f.calls.add(fn.id)
                elif isinstance(fn, ast.Attribute):
                    recv = ast.unparse(fn.value)
                    if recv.split('.')[0] in stdlib.get(f.module, ()):
                        continue      # call into the standard library / bitarray
                    own = recv in ('self', 'cls') or recv.startswith('super(') or recv.split('.')[0] in MODULE_ALIASES \
                        or recv.split('.')[-1] in PACKAGE_CLASSES
                    if fn.attr in BUILTIN_METHODS and not own:
                        # ASSUMPTION (stated in the evidence): a method whose name also exists on str/bytes/list/dict/
                        # tuple/set/int/float/re.Match, called on a receiver that is not self/cls/a package module or
                        # class, is a builtin call (the memoised functions are string parsers)
                        continue
                    f.calls.add(fn.attr)
                    k = 'super' if recv.startswith('super(') else ('self' if recv in ('self', 'cls') else 'other')
                    prev = f.recv_kind.get(fn.attr)
                    f.recv_kind[fn.attr] = k if prev in (None, k) else 'other'
            if isinstance(n, ast.Attribute) and n.attr in OPTION_NAMES:
                base = ast.unparse(n.value)
                if base.endswith('options') or base in ('self',) and f.cls == 'Options':
                    if f.cls != 'Options':
                        f.option_reads.append((n.attr, n.lineno))
    return fns, by_name, trees


def dtype_table_functions(trees):
    """names of the set/get functions referenced by the dtype table literal in __init__.py"""
    out = set()
    for n in ast.walk(trees['__init__']):
        if isinstance(n, ast.Call) and isinstance(n.func, ast.Name) and n.func.id == 'DtypeDefinition':
            for a in n.args[1:3]:
                if isinstance(a, ast.Attribute):
                    out.add(a.attr)
    return out


def class_hierarchy(trees):
    bases = {}
    for mod, tree in trees.items():
        for n in ast.walk(tree):
            if isinstance(n, ast.ClassDef):
                bases[n.name] = [ast.unparse(b).split('.')[-1] for b in n.bases]
    def ancestors(c, acc=None):
        acc = acc if acc is not None else set()
        for b in bases.get(c, []):
            if b not in acc:
                acc.add(b)
                ancestors(b, acc)
        return acc
    anc = {c: ancestors(c) for c in bases}
    desc = {c: {d for d in bases if c in anc[d]} for c in bases}
    return anc, desc


def reach(fns, by_name, trees, start):
    """over-approximate transitive callees: a called name resolves to every function/method of that name in
    the package; calls through set_fn/get_fn/read_fn/build/parse resolve to the whole dtype table"""
    table = dtype_table_functions(trees)
    seen = {}
    todo = [(start, [start])]
    while todo:
        q, path = todo.pop()
        if q in seen:
            continue
        seen[q] = path
        f = fns[q]
        names = set(f.calls)
        if names & {'set_fn', 'get_fn', 'read_fn', '_set_fn', '_get_fn', '_read_fn', 'build', 'parse'}:
            names |= table
        if 'literal_bit_funcs' in ast.unparse(f.node):
            names |= {'hex2bitstore', 'bin2bitstore', 'oct2bitstore'}
        anc, desc = _HIER if _HIER else class_hierarchy(trees)
        for nm in names:
            for g in by_name.get(nm, []):
                if g.qual in seen:
                    continue
                kind = f.recv_kind.get(nm)
                if kind == 'super' and f.cls:
                    if g.cls not in anc.get(f.cls, ()):
                        continue
                elif kind == 'self' and f.cls:
                    if g.cls != f.cls and g.cls not in anc.get(f.cls, ()) and g.cls not in desc.get(f.cls, ()):
                        continue
                todo.append((g.qual, path + [g.qual]))
    return seen


_HIER = None


def effects(tier='quick', seed=0):
    fns, by_name, trees = load()
    obligations = []
    functions = []
    for q, f in sorted(fns.items()):
        if not f.cached:
            continue
        functions.append(q)
        r = reach(fns, by_name, trees, q)
        bad = []
        for g, path in r.items():
            for (attr, line) in fns[g].option_reads:
                # an option that is passed in as an argument of the cached function is part of the key
                if attr.lstrip('_') in [p.lstrip('_') for p in f.params]:
                    continue
                bad.append({'option': attr, 'read_in': g, 'line': line, 'call_path': path})
        ob = {'id': f'C09/{q}/E1-memoised-value-is-a-function-of-its-arguments', 'backend': 'static', 'kind': 'public',
              'qualname': q, 'clause': 'E1', 'shape': 'all-paths',
              'verdict': 'proved' if not bad else 'refuted', 'reachable_functions': len(r)}
        if bad:
            # one witness per distinct option; a witness counts only if its history replays natively
            for w in bad:
                demo = _history_demo(q, w['option'])
                rep = _run_demo(demo)
                if rep or 'witness' not in ob:
                    ob['witness'] = dict(w, python=demo, qualname=q, shape='all-paths', reproduced=rep,
                                         inputs={'option': w['option'], 'path': ' -> '.join(w['call_path'])})
                if rep:
                    break
        obligations.append(ob)
        # E1b: option-named parameters of a memoised function receive the live option value at every call site
        opt_params = [p for p in f.params if p.lstrip('_') in {o.lstrip('_') for o in OPTION_NAMES}]
        if opt_params:
            bad_sites = []
            for g in fns.values():
                for n in ast.walk(g.node):
                    if isinstance(n, ast.Call) and ast.unparse(n.func).split('.')[-1] == f.node.name:
                        for i, p in enumerate(f.params):
                            if p in opt_params:
                                arg = n.args[i] if i < len(n.args) else next((k.value for k in n.keywords if k.arg == p), None)
                                if arg is None or not ast.unparse(arg).endswith('options.' + p):
                                    bad_sites.append((g.qual, n.lineno, p))
            obligations.append({'id': f'C09/{q}/E1b-option-parameters-receive-the-live-option-values', 'backend': 'static', 'kind': 'public',
                                'qualname': q, 'clause': 'E1b', 'shape': 'call-sites', 'verdict': 'proved' if not bad_sites else 'refuted',
                                'witness': {'reproduced': False, 'inputs': {'sites': bad_sites[:3]}} if bad_sites else None})
        # E2: equal-but-distinguishable keys
        if 'scale' in f.params:
            ok = f.typed
            ob2 = {'id': f'C09/{q}/E2-cache-key-distinguishes-equal-arguments-of-different-type', 'backend': 'static',
                   'kind': 'public', 'qualname': q, 'clause': 'E2', 'shape': 'scale', 'verdict': 'proved' if ok else 'refuted'}
            if not ok:
                ob2['witness'] = {'python': _SCALE_DEMO, 'qualname': q, 'shape': 'scale', 'reproduced': _run_demo(_SCALE_DEMO),
                                  'inputs': {'first': "Dtype('uint', 8, scale=1)", 'then': "Dtype('uint', 8, scale=1.0).parse('0x05')"}}
            obligations.append(ob2)
    # E5
    src = ast.unparse(fns['array_.Array._calculate_auto_scale'].node) if 'array_.Array._calculate_auto_scale' in fns else ''
    ok5 = not any(('options.' + o) in src for o in OPTION_NAMES)
    obligations.append({'id': 'C09/array_.Array._largest_values/E5-initialiser-reads-no-option', 'backend': 'static', 'kind': 'public',
                        'verdict': 'proved' if ok5 else 'refuted', 'qualname': 'array_.Array._calculate_auto_scale', 'clause': 'E5', 'shape': ''})
    return {'id': 'C09.effects', 'obligations': obligations, 'functions': functions,
            'summary': f'{len(functions)} memoised functions analysed'}


def _run_demo(src):
    """run a native demonstration in a fresh interpreter (it mutates caches and options) -> reproduced?"""
    import subprocess, sys
    r = subprocess.run([sys.executable, '-c', src + '\nprint("FAILS=" + str(bool(FAILS)))'], capture_output=True, text=True, timeout=60)
    return 'FAILS=True' in r.stdout


def _history_demo(q, option):
    # histories are specific to the memoised function they go through
    if q == 'bitstore_helpers.str_to_bitstore':
        if 'mxfp' in option:
            return _MXFP_DEMO
        if 'lsb0' in option:
            return _LSB0_DEMO
    return "FAILS = False   # no native history known for this (function, option) pair"


_COLD = '''
import bitstring, functools, gc
def clear_all():
    import bitstring.utils, bitstring.dtypes, bitstring.bitstore_helpers
    for m in (bitstring.utils, bitstring.dtypes, bitstring.bitstore_helpers):
        for v in vars(m).values():
            if hasattr(v, 'cache_clear'): v.cache_clear()
    for n in ('_new_from_token', '_create'):
        getattr(bitstring.Dtype, n).__func__.cache_clear() if hasattr(getattr(bitstring.Dtype, n), '__func__') else getattr(bitstring.Dtype, n).cache_clear()
def outcome(f):
    try: return ('ok', f())
    except Exception as e: return ('exc', type(e).__name__)
'''
_MXFP_DEMO = _COLD + '''
clear_all()
bitstring.options.mxfp_overflow = 'saturate'
warm0 = outcome(lambda: bitstring.Bits('e4m3mxfp=1000').bin)
bitstring.options.mxfp_overflow = 'overflow'
warm = outcome(lambda: bitstring.Bits('e4m3mxfp=1000').bin)
clear_all()
cold = outcome(lambda: bitstring.Bits('e4m3mxfp=1000').bin)
bitstring.options.mxfp_overflow = 'saturate'
FAILS = warm != cold
'''
_LSB0_DEMO = _COLD + '''
clear_all()
bitstring.options.lsb0 = False
warm0 = outcome(lambda: bitstring.Bits('ue=3').bin)
bitstring.options.lsb0 = True
warm = outcome(lambda: bitstring.Bits('ue=3').bin)
clear_all()
cold = outcome(lambda: bitstring.Bits('ue=3').bin)
bitstring.options.lsb0 = False
FAILS = warm != cold
'''
_SCALE_DEMO = _COLD + '''
clear_all()
bitstring.Dtype('uint', 8, scale=1)
warm = repr(bitstring.Dtype('uint', 8, scale=1.0).parse('0x05'))
clear_all()
cold = repr(bitstring.Dtype('uint', 8, scale=1.0).parse('0x05'))
FAILS = warm != cold
'''


def dispatch_tables(tier='quick', seed=0):
    """E4: the dispatch state is a function of the current _lsb0 alone"""
    fns, by_name, trees = load()
    # E4a is decided on the real objects (the option has two values, so this is complete and does not depend on how set_lsb0 is
    # written): the class attributes after set_lsb0(v) are a function of v alone -- toggling there and back restores every one.
    import bitstring
    import bitstring.bitstore, bitstring.bits, bitstring.bitarray_, bitstring.bitstream
    classes = [bitstring.bitstore.BitStore, bitstring.Bits, bitstring.BitArray, bitstring.ConstBitStream, bitstring.BitStream]

    def snap():
        return {(c.__name__, a): v for c in classes for a, v in vars(c).items() if callable(v) or isinstance(v, (staticmethod, classmethod))}
    saved = bitstring.options.lsb0
    try:
        bitstring.options.lsb0 = False
        s0 = snap()
        bitstring.options.lsb0 = True
        s1 = snap()
        bitstring.options.lsb0 = False
        s2 = snap()
        bitstring.options.lsb0 = True
        s3 = snap()
        bitstring.options.lsb0 = True        # (setting the value it already has changes nothing)
        s4 = snap()
    finally:
        bitstring.options.lsb0 = saved
    obligations = []
    same_keys = s0 == s2 and s1 == s3 == s4 and set(s0) == set(s1)
    obligations.append({'id': 'C09/bitstring_options.Options.set_lsb0/E4-both-modes-rebind-the-same-attributes', 'backend': 'native-enumeration',
                        'kind': 'public', 'verdict': 'proved' if same_keys else 'refuted', 'qualname': 'bitstring_options.Options.set_lsb0',
                        'clause': 'E4a', 'shape': '',
                        **({} if same_keys else {'witness': {'reproduced': True, 'qualname': 'bitstring_options.Options.set_lsb0', 'shape': '',
                                                             'python': 'import bitstring\nfrom bitstring.bitstore import BitStore\n'
                                                                       'def snap():\n    return {(c.__name__, a): v for c in (BitStore, bitstring.Bits, bitstring.BitArray) for a, v in vars(c).items() if callable(v)}\n'
                                                                       'bitstring.options.lsb0 = False; a = snap(); bitstring.options.lsb0 = True; bitstring.options.lsb0 = False\nFAILS = snap() != a\n'}})})
    rebound = {a for (c, a) in s0 if s0[(c, a)] is not s1.get((c, a))}
    # no other statement assigns these attributes on the classes
    offenders = []
    for q, g in fns.items():
        if q == 'bitstring_options.Options.set_lsb0':
            continue
        for n in ast.walk(g.node):
            if isinstance(n, ast.Call) and isinstance(n.func, ast.Name) and n.func.id == 'setattr' and len(n.args) >= 2:
                a1 = n.args[1]
                if isinstance(a1, ast.Constant) and a1.value in rebound:
                    offenders.append((q, n.lineno))
            if isinstance(n, (ast.Assign, ast.AugAssign)):
                for t in (n.targets if isinstance(n, ast.Assign) else [n.target]):
                    if isinstance(t, ast.Attribute) and t.attr in rebound and isinstance(t.value, ast.Name) \
                            and t.value.id in ('Bits', 'BitArray', 'BitStore', 'cls'):
                        offenders.append((q, n.lineno))
    obligations.append({'id': 'C09/bitstring_options.Options.set_lsb0/E4-no-other-writer-of-the-dispatch-attributes', 'backend': 'static',
                        'kind': 'public', 'verdict': 'proved' if not offenders else 'refuted', 'qualname': 'bitstring_options.Options.set_lsb0',
                        'clause': 'E4b', 'shape': '', 'offenders': offenders[:5]})
    # option setters write only their own field
    ok = True
    for nm, field in (('bitstring_options.Options.bytealigned', '_bytealigned'), ('bitstring_options.Options.mxfp_overflow', '_mxfp_overflow')):
        for q, g in fns.items():
            if q == nm and any(isinstance(d, ast.Attribute) and d.attr == 'setter' for d in g.node.decorator_list):
                writes = {t.attr for n in ast.walk(g.node) if isinstance(n, ast.Assign) for t in n.targets if isinstance(t, ast.Attribute)}
                if writes != {field}:
                    ok = False
    obligations.append({'id': 'C09/bitstring_options.Options/E4-setters-write-only-their-own-field', 'backend': 'static', 'kind': 'public',
                        'verdict': 'proved' if ok else 'refuted', 'qualname': 'bitstring_options.Options', 'clause': 'E4c', 'shape': ''})
    return {'id': 'C09.dispatch', 'obligations': obligations, 'functions': ['bitstring_options.Options.set_lsb0'],
            'summary': f'{len(rebound)} dispatch attributes'}


MUTATORS = {'append', 'extend', 'insert', 'pop', 'remove', 'reverse', 'sort', 'clear', 'update', 'setdefault', 'popitem', '__setitem__', '__delitem__'}


def cached_values_not_mutated(tier='quick', seed=0):
    """E3: a (mutable) value returned by a memoised function is never mutated by a caller -- taint analysis: the result of a
    call to a cached function (also through tuple unpacking and plain re-binding `x = y`) must not be the receiver of a mutating
    method, the target of an augmented assignment or of an item/slice assignment, in any function of the package."""
    fns, by_name, trees = load()
    cached = {f.node.name for f in fns.values() if f.cached}
    obligations = []
    for q, g in sorted(fns.items()):
        tainted = {}
        order = [n for n in ast.walk(g.node) if isinstance(n, (ast.Assign, ast.AugAssign, ast.Expr, ast.For))]
        order.sort(key=lambda n: (n.lineno, n.col_offset))
        bad = []

        def is_cached_call(e):
            return isinstance(e, ast.Call) and ast.unparse(e.func).split('.')[-1] in cached
        for n in order:
            if isinstance(n, ast.Assign):
                src = n.value
                names = []
                for t in n.targets:
                    if isinstance(t, ast.Name):
                        names.append(t.id)
                    elif isinstance(t, (ast.Tuple, ast.List)):
                        names += [e.id for e in t.elts if isinstance(e, ast.Name)]
                    elif isinstance(t, ast.Subscript) and isinstance(t.value, ast.Name) and t.value.id in tainted:
                        bad.append((n.lineno, f'item assignment on {t.value.id}'))
                if is_cached_call(src):
                    for nm in names:
                        tainted[nm] = n.lineno
                elif isinstance(src, ast.Name) and src.id in tainted:
                    for nm in names:
                        tainted[nm] = n.lineno
                else:
                    for nm in names:
                        tainted.pop(nm, None)
            elif isinstance(n, ast.AugAssign):
                if isinstance(n.target, ast.Name) and n.target.id in tainted:
                    bad.append((n.lineno, f'augmented assignment to {n.target.id}'))
            elif isinstance(n, ast.Expr) and isinstance(n.value, ast.Call) and isinstance(n.value.func, ast.Attribute):
                f = n.value.func
                if f.attr in MUTATORS and isinstance(f.value, ast.Name) and f.value.id in tainted:
                    bad.append((n.lineno, f'{f.value.id}.{f.attr}(...)'))
        if tainted or bad:
            ob = {'id': f'C09/{q}/E3-values-obtained-from-a-cache-are-not-mutated', 'backend': 'static', 'kind': 'public', 'qualname': q,
                  'clause': 'E3', 'shape': 'all-paths', 'verdict': 'proved' if not bad else 'refuted'}
            if bad:
                ob['witness'] = {'reproduced': _run_demo(_LISTFMT_DEMO) if q == 'methods.pack' else False,
                                 'python': _LISTFMT_DEMO if q == 'methods.pack' else 'FAILS = False',
                                 'qualname': q, 'shape': 'all-paths', 'inputs': {'mutations': bad[:3]}}
            obligations.append(ob)
    return {'id': 'C09.escape', 'obligations': obligations, 'functions': sorted({o['qualname'] for o in obligations}),
            'summary': f'{len(obligations)} functions hold a value obtained from a cache'}


_LISTFMT_DEMO = _COLD + '''
clear_all()
first = outcome(lambda: bitstring.pack(['uint:8', 'bin:3'], 5, '101').bin)
again = outcome(lambda: bitstring.pack(['uint:8', 'bin:3'], 5, '101').bin)
single = outcome(lambda: bitstring.pack('uint:8', 5).bin)
clear_all()
cold = outcome(lambda: bitstring.pack('uint:8', 5).bin)
FAILS = first != again or single != cold
'''


_EMPTYSTR_DEMO = _COLD + '''
from bitstring import BitArray, Bits
FAILS = False
for s in ('', ' ', ',', '0b', '0x'):
    clear_all()
    try:
        a = BitArray(s)
        a.append('0b1')
        FAILS = FAILS or Bits(s).bin != '' or BitArray(s).bin != ''
    except Exception:
        pass
'''


def cached_stores_flagged(tier='quick', seed=0):
    """E6: a memoised function that returns a BitStore returns it flagged immutable on *every* return path (a mutable bitstring
    copies a flagged store before changing it; an unflagged one would be adopted and the cache entry changed in place).  Static,
    all paths: every `return` of such a function returns a local name for which `<name>.immutable = True` is assigned earlier in the
    same or an enclosing block of the function body."""
    fns, by_name, trees = load()
    obligations = []
    for q, g in sorted(fns.items()):
        if not g.cached:
            continue
        ann = ast.unparse(g.node.returns) if g.node.returns is not None else ''
        if 'BitStore' not in ann:
            continue
        bad = []

        def walk(stmts, flagged):
            flagged = set(flagged)
            for st in stmts:
                if isinstance(st, ast.Assign) and len(st.targets) == 1 and isinstance(st.targets[0], ast.Attribute) and st.targets[0].attr == 'immutable' \
                        and isinstance(st.targets[0].value, ast.Name) and isinstance(st.value, ast.Constant) and st.value.value is True:
                    flagged.add(st.targets[0].value.id)
                elif isinstance(st, ast.Assign):
                    for t in st.targets:
                        if isinstance(t, ast.Name):
                            flagged.discard(t.id)          # re-bound: the flag belonged to the old object
                elif isinstance(st, ast.Return):
                    v = st.value
                    ok = isinstance(v, ast.Name) and v.id in flagged
                    ok = ok or (isinstance(v, ast.Call) and any(k.arg == 'immutable' and isinstance(k.value, ast.Constant) and k.value.value is True for k in v.keywords))
                    if not ok:
                        bad.append((st.lineno, ast.unparse(st)))
                for fld in ('body', 'orelse', 'finalbody'):
                    sub = getattr(st, fld, None)
                    if isinstance(sub, list) and sub and isinstance(sub[0], ast.stmt):
                        walk(sub, flagged)
                for h in getattr(st, 'handlers', []) or []:
                    walk(h.body, flagged)
        walk(g.node.body, set())
        ob = {'id': f'C09/{q}/E6-memoised-store-is-flagged-immutable-on-every-return-path', 'backend': 'static', 'kind': 'public', 'qualname': q, 'clause': 'E6',
              'shape': 'all-paths', 'verdict': 'proved' if not bad else 'refuted'}
        if bad:
            ob['witness'] = {'reproduced': _run_demo(_EMPTYSTR_DEMO), 'python': _EMPTYSTR_DEMO, 'qualname': q, 'shape': 'all-paths', 'inputs': {'returns': bad[:3]}}
        obligations.append(ob)
    return {'id': 'C09.flagged', 'obligations': obligations, 'functions': sorted({o['qualname'] for o in obligations}),
            'summary': f'{len(obligations)} memoised functions return a BitStore'}


def runtime_crosscheck(tier='quick', seed=0):
    """B: warm-vs-cold comparison over random interleavings (bounded; not the deciding step)"""
    import bitstring
    ns = {}
    exec(_COLD, ns)
    clear_all, outcome = ns['clear_all'], ns['outcome']
    rng = random.Random(seed)
    n_calls = 400 if tier == 'quick' else 4000
    tokens = ['0xff', '0b101', 'uint8=3', 'int:5=-3', 'hex:8=ab', 'float32=1.5', 'bool=1', 'pad:3', '2*(uint4=1)', 'bits=0b1',
              'uintle16=258', 'bfloat=2.5', 'e2m1mxfp=1.5', 'mxint=0.5', 'p4binary=0.25', 'uint:3=9', 'bogus=1', '0o17']
    calls = []
    for t in tokens:
        calls.append(('Bits(%r).bin' % t, lambda t=t: bitstring.Bits(t).bin))
        calls.append(('BitArray(%r).bin' % t, lambda t=t: bitstring.BitArray(t).bin))
    for nm, ln in (('uint', 8), ('hex', 4), ('float', 32), ('bytes', 2), ('float', 17)):
        calls.append((f'repr(Dtype({nm!r},{ln}))', lambda nm=nm, ln=ln: repr(bitstring.Dtype(nm, ln))))
    for lf in (['uint:8', 'bin:3'], ['hex:8', 'uint:4', 'bool'], ['<H', 'uint8']):
        vals = {('uint:8', 'bin:3'): (5, '101'), ('hex:8', 'uint:4', 'bool'): ('ab', 3, True), ('<H', 'uint8'): (7, 9)}[tuple(lf)]
        calls.append((f'pack({lf!r})', lambda lf=lf, vals=vals: bitstring.pack(list(lf), *vals).bin))
        calls.append((f'pack({lf[0]!r})', lambda lf=lf, vals=vals: bitstring.pack(lf[0], vals[0]).bin))
    for f in ('uint8, hex', '2*(bin3)', '<HH', 'int4, bits'):
        calls.append((f'unpack({f!r})', lambda f=f: [str(x) for x in bitstring.Bits('0x12345678').unpack(f)]))
    failures = []
    evals = 0
    # many distinct keys so that the 256-entry caches evict
    for i in range(n_calls):
        if rng.random() < 0.3:
            k = rng.randrange(10 ** 6)
            name, fn = (f'Bits("uint32={k}").bin', lambda k=k: bitstring.Bits(f'uint32={k}').bin)
        else:
            name, fn = rng.choice(calls)
        warm = outcome(fn)
        clear_all()
        cold = outcome(fn)
        evals += 1
        if warm != cold:
            failures.append({'call': name, 'warm': repr(warm), 'cold': repr(cold),
                             'python': f"FAILS = True  # history-dependent result of {name}"})
            break
    # objects created *before* the caches are dropped, used as arguments *after*: a construction that compares memoised objects by
    # identity (two Dtype('uint8') being one object only while the cache entry lives) works warm and fails cold
    held_fails = []
    held_evals = 0
    for fmt, items in (('uint8', [1, 2, 3]), ('u8', [7]), ('int16', [-2, 5]), ('float32', [1.5, -2.0]), ('>H', [1, 515]), ('<h', [-3]), ('hex8', ['ab']),
                       ('uintle24', [70000]), ('bool', [True, False])):
        try:
            a = bitstring.Array(fmt, items)
            d = bitstring.Dtype(fmt)
        except Exception:
            continue
        ops = [(f'Array({fmt!r}, a).tolist()', lambda: bitstring.Array(fmt, a).tolist()),
               (f'b = Array({fmt!r}, {items[:1]!r}); b.extend(a); b.tolist()', lambda: (lambda b: (b.extend(a), b.tolist())[1])(bitstring.Array(fmt, items[:1]))),
               (f'Array({fmt!r}, {items!r}).equals(a)', lambda: bitstring.Array(fmt, items).equals(a)),
               (f'Array(a.dtype, {items!r}).tolist()', lambda: bitstring.Array(a.dtype, items).tolist()),
               (f'Dtype({fmt!r}) == d, hash', lambda: (bitstring.Dtype(fmt) == d, hash(bitstring.Dtype(fmt)) == hash(d))),
               (f'pack([d], {items[0]!r}).bin', lambda: bitstring.pack([d], items[0]).bin),
               (f'Bits().join([...]) / a.data + Bits(d.build(v))', lambda: (a.data + d.build(items[0])).bin),
               (f'(a + a[0:1]) / a[:]', lambda: bitstring.Array(fmt, a[:]).tolist())]
        for name, fn in ops:
            warm = outcome(fn)
            clear_all()
            cold = outcome(fn)
            held_evals += 1
            if warm != cold:
                held_fails.append({'call': f'a = Array({fmt!r}, {items!r}); d = Dtype({fmt!r}); every cache cleared; {name}', 'warm': repr(warm), 'cold': repr(cold),
                                   'python': _COLD + f"a = bitstring.Array({fmt!r}, {items!r})\nwarm = outcome(lambda: bitstring.Array({fmt!r}, a).tolist())\n"
                                             f"w2 = outcome(lambda: (lambda b: (b.extend(a), b.tolist())[1])(bitstring.Array({fmt!r}, {items[:1]!r})))\nclear_all()\n"
                                             f"cold = outcome(lambda: bitstring.Array({fmt!r}, a).tolist())\n"
                                             f"c2 = outcome(lambda: (lambda b: (b.extend(a), b.tolist())[1])(bitstring.Array({fmt!r}, {items[:1]!r})))\n"
                                             "FAILS = warm != cold or w2 != c2\n"})
                break
    evals += held_evals
    return {'id': 'C09.runtime', 'obligations': [], 'evaluations': evals,
            'bounded': [{'id': 'C09/objects-created-before-the-caches-were-dropped', 'function': 'Array(fmt, array) / Array.extend / Array.equals / Dtype == / pack with held objects',
                         'bound': f'{held_evals} (format, operation) points', 'evaluations': held_evals, 'failures': held_fails[:3]},
                        {'id': 'C09/runtime-warm-vs-cold', 'function': 'construct/parse/Dtype', 'bound': f'{n_calls} calls in one interleaving, seed {seed}',
                         'evaluations': evals - held_evals, 'failures': failures}],
            'summary': f'{evals} warm/cold comparisons'}


def creation_routes_isolation(tier='quick', seed=0):
    """(shared with C04) what a creation by keyword, property, format string or pack returns does not depend on what was done earlier to an object created the same way: an in-place change of that object must not show in any later creation"""
    from props import C04
    r = C04.dtype_routes_isolation(tier, seed)
    for b in r.get('bounded', []):
        b['id'] = b['id'].replace('C04/', 'C09/')
    r['id'] = 'C09.isolation'
    return r
