"""A process pool whose tasks have a hard wall-clock limit: a worker that exceeds it is killed and replaced
(z3 does not always honour its own timeout; a stuck obligation must become 'undecided', never hang the check)."""
import multiprocessing as mp
import time
from multiprocessing.connection import wait


def _worker_main(conn, fn):
    while True:
        try:
            task = conn.recv()
        except EOFError:
            return
        if task is None:
            return
        idx, payload = task
        try:
            res = fn(payload)
        except BaseException as e:       # never let a worker die silently
            res = {'kind': 'crash', 'crash': f'{type(e).__name__}: {e}'}
        try:
            conn.send((idx, res))
        except Exception:
            conn.send((idx, {'kind': 'crash', 'crash': 'result not picklable'}))


class HardPool:
    def __init__(self, fn, n, limit_s, on_timeout):
        self.fn, self.n, self.limit_s, self.on_timeout = fn, n, limit_s, on_timeout
        self.ctx = mp.get_context('fork')
        self.workers = []          # [proc, conn, current (idx, start) or None]

    def _spawn(self):
        parent, child = self.ctx.Pipe()
        p = self.ctx.Process(target=_worker_main, args=(child, self.fn), daemon=True)
        p.start()
        child.close()
        return [p, parent, None]

    def map(self, payloads, limits=None):
        """run fn over payloads; returns results in order.  limits: optional per-task hard limits"""
        n = len(payloads)
        results = [None] * n
        pending = list(range(n))[::-1]
        while len(self.workers) < min(self.n, max(1, n)):
            self.workers.append(self._spawn())
        done = 0
        while done < n:
            for w in self.workers:
                if w[2] is None and pending:
                    i = pending.pop()
                    w[1].send((i, payloads[i]))
                    w[2] = (i, time.time())
            busy = [w for w in self.workers if w[2] is not None]
            ready = wait([w[1] for w in busy], timeout=1.0)
            for w in busy:
                if w[1] in ready:
                    try:
                        idx, res = w[1].recv()
                    except (EOFError, OSError):
                        idx, res = w[2][0], {'kind': 'crash', 'crash': 'worker died'}
                        self._replace(w)
                    results[idx] = res
                    w[2] = None
                    done += 1
            now = time.time()
            for w in self.workers:
                if w[2] is not None:
                    i, t0 = w[2]
                    lim = (limits[i] if limits else None) or self.limit_s
                    if now - t0 > lim:
                        results[i] = self.on_timeout(payloads[i], lim)
                        done += 1
                        self._replace(w)
        return results

    def _replace(self, w):
        try:
            w[0].kill()
            w[0].join(timeout=2)
        except Exception:
            pass
        try:
            w[1].close()
        except Exception:
            pass
        nw = self._spawn()
        w[0], w[1], w[2] = nw[0], nw[1], None

    def close(self):
        for w in self.workers:
            try:
                w[1].send(None)
            except Exception:
                pass
        for w in self.workers:
            w[0].join(timeout=2)
            if w[0].is_alive():
                w[0].kill()
        self.workers = []
