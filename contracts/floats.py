"""C02 / C15 / C18: float rows (float / floatbe / floatle / floatne 16-32-64, bfloat) -- width, byte order, length rules and the
overflow-to-infinity rule, relative to the assumed contract of struct (pyvc/floats.py)."""
import struct as _struct
import sys as _sys
from pyvc.contract import contract, Shape, Contract, INLINE
from pyvc import sym, spec, floats
from pyvc.sym import lor, lnot, land, ite
from pyvc.spec import bits, mk_bits, mk_store, sub
from pyvc.shapes import m_bits, r_bits
from pyvc.extern import BA, SFloat, BBytes
from pyvc.interp import Obj
from .common import *
from .bits_seq import _self_shapes

CODE = {16: 'e', 32: 'f', 64: 'd'}       # independent of the repo's format dicts


def _const_bits(b):
    return BA.concrete([bool((x >> (7 - k)) & 1) for x in b for k in range(8)])


def enc_float(C, v, n, big_endian):
    """n-bit IEEE encoding of v as struct produces it; values too large for the width become +-infinity"""
    if not sym.is_intlike(n):
        C.throw('ValueError')
    w = None
    for cand in (16, 32, 64):
        if sym.truth(sym.eq(n, cand)):
            w = cand
            break
    if w is None:
        C.throw('ValueError')
    if isinstance(v, SFloat):
        if sym.truth(floats.overflows(v, w)):
            V = _const_bits(_struct.pack('>' + CODE[w], float('inf') if sym.truth(v > 0) else float('-inf')))
        else:
            V = floats.ieee_view(v, w)
    else:
        try:
            V = _const_bits(_struct.pack('>' + CODE[w], v))
        except OverflowError:
            V = _const_bits(_struct.pack('>' + CODE[w], float('inf') if v > 0 else float('-inf')))
    return V if big_endian else floats.byterev_view(V)


def _f2b_shapes():
    out = []
    for be in (True, False):
        def build(S, interp, be=be):
            return [S.float('f'), S.int('length'), be], {}

        def real(vals, be=be):
            return [vals['f'], vals['length'], be], {}

        def gen(rng, be=be):
            from pyvc.bounded import gen_inputs
            from pyvc.bounded import FLOAT_BOUNDARY
            return {'f': rng.choice(FLOAT_BOUNDARY + [rng.uniform(-1e6, 1e6)]), 'length': rng.choice([16, 32, 64, 16, 32, 64, 16, 32, 0, 8, 17, 128, -16])}
        out.append(Shape(f'big_endian={be}', build, real, gen=gen))
    return out


@contract('bitstore_helpers.float2bitstore', shapes=_f2b_shapes(), props={'C02', 'C15', 'C18'}, kind='public',
          note="float2bitstore(f, n, big_endian), n in {16, 32, 64}: the struct encoding of f at that width in the requested byte "
               "order, +-infinity when f does not fit; callers must establish n in {16, 32, 64}")
def float2bitstore_spec(C, f, length, big_endian):
    C.requires(lor(sym.eq(length, 16), sym.eq(length, 32), sym.eq(length, 64)), 'length in {16, 32, 64}')
    return mk_store(C, enc_float(C, f, length, big_endian))


def _setfloat_shapes():
    out = []
    for name, be in (('_setfloatbe', True), ('_setfloatle', False)):
        for cls, st in (('Bits', 'unset'), ('BitArray', 'plain')):
            for lk in (None, 'int'):
                def build(S, interp, cls=cls, st=st, lk=lk):
                    o = Obj(interp.get_module('bitstring').ns[cls]) if st == 'unset' else m_bits(S, interp, 'self', cls, st)
                    return [o, S.float('f'), mk_opt(S, 'length', lk)], {}

                def real(vals, cls=cls, st=st, lk=lk):
                    import bitstring
                    o = object.__new__(getattr(bitstring, cls)) if st == 'unset' else r_bits(vals, 'self', cls, st)
                    return [o, vals['f'], rv(vals, 'length', lk)], {}
                out.append((name, be, Shape(f'{cls}/{st}/length={lk}', build, real)))
    return out


def _setfloat_spec(be):
    def f(C, self, value, length=None):
        if length is None and '_bitstore' in self.attrs:
            n0 = bits(self).n
            if sym.truth(lnot(sym.eq(n0, 0))):
                length = n0
        if length is None:
            C.throw('ValueError')
        V = enc_float(C, value, length, be)
        self.attrs['_bitstore'] = mk_store(C, V)
        return None
    return f


for _name, _be in (('_setfloatbe', True), ('_setfloatle', False)):
    contract(f'bits.Bits.{_name}', shapes=[sh for n, b, sh in _setfloat_shapes() if n == _name], props={'C02', 'C15', 'C18'}, kind='public',
             note=f"{_name}(f, n): exactly n in (16, 32, 64) bits of the {'big' if _be else 'little'}-endian struct encoding (n defaults to the "
                  "current length); CreationError and the object unchanged for any other length")(_setfloat_spec(_be))


def _getfloat_spec(be):
    def f(C, self):
        V = bits(self)
        C.requires(lor(sym.eq(V.n, 16), sym.eq(V.n, 32), sym.eq(V.n, 64)), 'length in {16, 32, 64} (checked by the dtype wrapper)')
        for w in (16, 32, 64):
            if sym.truth(sym.eq(V.n, w)):
                W = BA(w, V.bit)
                if not be:
                    W = floats.byterev_view(W)
                if isinstance(W.n, int) and all(isinstance(W.bit(i), bool) for i in range(w)):
                    by = bytes(int(''.join('1' if W.bit(8 * j + k) else '0' for k in range(8)), 2) for j in range(w // 8))
                    return _struct.unpack('>' + CODE[w], by)[0]
                return SFloat(floats._unpack[w](W.as_array()))
    return f


contract('bits.Bits._getfloatbe', shapes=_self_shapes(), props={'C02', 'C18'}, kind='public',
         note="the float the 16/32/64 bits denote in big-endian byte order (struct's decoding)")(_getfloat_spec(True))
contract('bits.Bits._getfloatle', shapes=_self_shapes(), props={'C02', 'C18'}, kind='public',
         note="little-endian float: the big-endian decoding of the byte-reversed bits")(_getfloat_spec(False))


# ---- bfloat: the top half of the float32 ------------------------------------------------------------------------------
def _bf_shapes():
    out = []
    for be in (True, False):
        def build(S, interp, be=be):
            return [S.float('f'), be], {}

        def real(vals, be=be):
            return [vals['f'], be], {}
        out.append(Shape(f'big_endian={be}', build, real))
    return out


@contract('bitstore_helpers.bfloat2bitstore', shapes=_bf_shapes(), props={'C11', 'C02'}, kind='public',
          note="bfloat2bitstore(f, big_endian): the first 16 bits of the big-endian float32 encoding of f (truncation, +-inf on overflow); "
               "little-endian: those two bytes swapped")
def bfloat_spec(C, f, big_endian):
    V32 = enc_float(C, f, 32, True)
    top = sub(V32, 0, 16)
    return mk_store(C, top if big_endian else floats.byterev_view(top))


# ---- pack with float tokens (bounded: format strings and struct are outside the prover).  The inputs of one shape are evaluated
# ---- one after the other in one process, so a memoising helper that confuses equal-but-distinguishable values (0.0 / -0.0 / 0,
# ---- 1 / 1.0 / True) shows up as a wrong encoding of the later one.
def _pack_float_shapes():
    out = []
    for tok, n, be in (('float:32', 32, True), ('floatle:64', 64, False), ('float:16', 16, True), ('floatbe:64', 64, True), ('floatle:32', 32, False)):
        def build(S, interp, tok=tok):
            return [tok, S.raw('v')], {}

        def real(vals, tok=tok):
            return [tok, vals['v']], {}

        def gen(rng):
            from pyvc.bounded import FLOAT_BOUNDARY
            return {'v': rng.choice(FLOAT_BOUNDARY + [0.0, -0.0, 0, 0.0, -0.0, 1, 1.0, True, False, -1, -1.0, rng.uniform(-1e3, 1e3)])}
        out.append(Shape(tok, build, real, gen=gen, stable=False, bounded_only=True))
    return out


@contract('methods.pack@float', target='methods.pack', shapes=_pack_float_shapes(), props={'C02', 'C05', 'C09'}, kind='public',
          note="pack('float:n', v): exactly the struct encoding of float(v) -- whatever was packed before  (BOUNDED)")
def pack_float_spec(C, fmt, v):
    name, _, ln = fmt.partition(':')
    be = not name.endswith('le')
    return mk_bits(C, C.cls('BitStream'), enc_float(C, float(v), int(ln), be), pos=0)
