"""C19 (deductive part): str() and repr() succeed for every length and class: the five branches of __str__ partition all
lengths and every piece handed to the hex getter is a multiple of four bits (otherwise the getter's InterpretError would escape)."""
from pyvc.contract import contract, Shape
from pyvc import sym
from pyvc.spec import bits
from pyvc.interp import OpaqueStr
from .common import *
from .bits_seq import _self_shapes


def _str_post(C, args, kwargs, out):
    self = args[0]
    yield ('never-raises', out.kind == 'ret', '' if out.kind == 'ret' else out.value.cls.name)
    if out.kind == 'ret':
        yield ('is-text', isinstance(out.value, str))
        if sym.truth(sym.eq(bits(self).n, 0)):
            yield ('empty-is-empty-string', out.value == '')


def _len_cases(states):
    out = []
    for cls, st in states:
        for case, cond in (('empty', lambda n: sym.eq(n, 0)), ('short-odd', lambda n: sym.land(n > 0, n < 32)),
                           ('medium', lambda n: sym.land(n >= 32, n <= 1000)), ('long', lambda n: n > 1000)):
            def build(S, interp, cls=cls, st=st, cond=cond):
                o = m_bits(S, interp, 'self', cls, st)
                S.assume(cond(bits(o).n))
                return [o], {}

            def real(vals, cls=cls, st=st):
                return [r_bits(vals, 'self', cls, st)], {}
            out.append(Shape(f'{cls}/{st}/{case}', build, real))
    return out


from pyvc.shapes import m_bits, r_bits
contract('bits.Bits.__str__', shapes=_len_cases(SELF_STATES), props={'C19', 'C20'}, kind='public', relational=True,
         note="str(s) never raises, whatever the length (every hex piece is a whole number of hex digits)")(_str_post)
def _repr_post(C, args, kwargs, out):
    yield ('never-raises', out.kind == 'ret', '' if out.kind == 'ret' else out.value.cls.name)
    if out.kind == 'ret':
        yield ('is-text', isinstance(out.value, str))


contract('bits.Bits.__repr__', shapes=_len_cases([s for s in SELF_STATES if s[0] in ('Bits', 'BitArray')]), props={'C19', 'C20'},
         kind='public', relational=True, note="repr(s) never raises")(_repr_post)
contract('bitstream.ConstBitStream.__repr__', shapes=_len_cases([s for s in SELF_STATES if s[0] in ('ConstBitStream', 'BitStream')]),
         props={'C19', 'C20'}, kind='public', relational=True, note="repr(stream) never raises")(_repr_post)
