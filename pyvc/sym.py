"""Symbolic values and the per-path context.

A *path context* (PathCtx) is one execution of one path: a z3 solver holding the path
condition, a replayed trail of branch decisions and the alternatives discovered on the way.
Symbolic booleans fork the execution when their truth value is needed (``bool(SBool)``),
CrossHair-style, but the exploration is by deterministic re-execution from a decision
trail, so no interpreter state ever has to be copied.

Encodings (what of Python's semantics they assume) -- see DESIGN.md 3.4:
  * int is mathematical;
  * ``//`` and ``%`` with a positive constant divisor are z3 div/mod (Euclidean == floor
    for positive divisors); every other divisor gets fresh q, r with the floor-division
    axioms of Python (sign of r follows the divisor);
  * ``1 << k`` and ``x >> k`` use an uninterpreted pow2 with axioms instantiated at the
    shift amounts that occur on the path.
"""
from __future__ import annotations

import itertools
import os
import threading
import z3

_tls = threading.local()


class Infeasible(Exception):
    """The current path became infeasible (pc unsat)."""


class NeedConcrete(Exception):
    """A symbolic value reached a place where only a concrete value can be used."""


class Unsupported(Exception):
    """Construct outside the interpreted subset: the path is undecided, never a verdict."""


class PathLimit(Exception):
    """A bounded-unrolling limit was reached on this path."""


SECOND_SOLVER = os.environ.get('PYVC_NO_CVC5') is None and os.path.exists('/usr/bin/cvc5')
CVC5_SECONDS = [0.0, 0]      # time spent in / calls made to the second back end by this process


def _cvc5_unsat(smt2, timeout_ms):
    """-> True iff cvc5 proves the query unsatisfiable within the budget (anything else, including trouble running it: False)"""
    import subprocess, tempfile, time as _time
    t0 = _time.time()
    try:
        with tempfile.NamedTemporaryFile('w', suffix='.smt2', delete=False) as f:
            f.write('(set-logic ALL)\n' + smt2)
            name = f.name
        try:
            if os.environ.get('PYVC_KEEP_SMT2'):
                import shutil; shutil.copy(name, os.path.join(os.environ['PYVC_KEEP_SMT2'], os.path.basename(name)))
            out = subprocess.run(['/usr/bin/cvc5', f'--tlimit={int(timeout_ms)}', name], capture_output=True, text=True,
                                 timeout=timeout_ms / 1000 + 5).stdout.strip().splitlines()
        finally:
            os.unlink(name)
        return bool(out) and out[0].strip() == 'unsat'
    except Exception:
        return False
    finally:
        CVC5_SECONDS[0] += _time.time() - t0
        CVC5_SECONDS[1] += 1


def ctx() -> "PathCtx":
    c = getattr(_tls, 'ctx', None)
    if c is None:
        raise NeedConcrete("symbolic truth value needed outside a path context")
    return c


def have_ctx() -> bool:
    return getattr(_tls, 'ctx', None) is not None


class PathCtx:
    def __init__(self, trail=(), timeout_ms=20000, loop_bound=None):
        self.solver = z3.Solver()
        self.solver.set('timeout', timeout_ms)
        self.timeout_ms = timeout_ms
        self.trail = list(trail)
        self.pos = 0
        self.taken = []
        self.pending = []
        self.pc = []
        self.counter = itertools.count()
        self.unknown_feasibility = 0
        self.solver_calls = 0
        self.notes = []          # free-form notes (bounded loops, assumptions used)
        self.pow2_args = []      # z3 terms used as shift amounts on this path
        self.loop_bound = loop_bound
        self.bounded = False     # True once a loop was cut by bounded unrolling
        self.side_obligations = []   # (name, z3 term) that must be valid under pc at that point

    def __enter__(self):
        self._prev = getattr(_tls, 'ctx', None)
        _tls.ctx = self
        return self

    def __exit__(self, *a):
        _tls.ctx = self._prev
        return False

    # -- constraints ------------------------------------------------------------------
    def assume(self, t):
        if isinstance(t, SBool):
            t = t.term
        if t is True:
            return
        if t is False:
            raise Infeasible()
        self.pc.append(t)
        self.solver.add(t)

    def fresh_int(self, prefix='k'):
        return z3.Int(f'{prefix}!{next(self.counter)}')

    def fresh_bool(self, prefix='b'):
        return z3.Bool(f'{prefix}!{next(self.counter)}')

    def fresh_fun(self, prefix='a'):
        return z3.Function(f'{prefix}!{next(self.counter)}', z3.IntSort(), z3.BoolSort())

    def check(self, extra=None):
        """-> 'sat' | 'unsat' | 'unknown' for pc (and extra)."""
        self.solver_calls += 1
        if extra is None:
            r = self.solver.check()
        else:
            self.solver.push()
            self.solver.add(extra)
            r = self.solver.check()
            self.solver.pop()
        return str(r)

    def feasible(self, t):
        r = self.check(t)
        if r == 'unknown':
            self.unknown_feasibility += 1
            return True
        return r == 'sat'

    def branch(self, t) -> bool:
        t = z3.simplify(t)
        if z3.is_true(t):
            return True
        if z3.is_false(t):
            return False
        if self.pos < len(self.trail):
            d = self.trail[self.pos]
            self.pos += 1
            self.taken.append(d)
            self.assume(t if d else z3.Not(t))
            return d
        self.pos += 1
        can_t = self.feasible(t)
        can_f = self.feasible(z3.Not(t))
        if can_t and can_f:
            self.pending.append(self.taken + [False])
            d = True
        elif can_t:
            d = True
        elif can_f:
            d = False
        else:
            raise Infeasible()
        self.taken.append(d)
        self.trail.append(d)
        self.assume(t if d else z3.Not(t))
        return d

    def valid(self, goal, final=False):
        """Is goal valid under pc?  -> ('unsat'|'sat'|'unknown', model|None)"""
        if isinstance(goal, SBool):
            goal = goal.term
        if goal is True:
            return 'unsat', None
        if goal is False:
            goal = z3.BoolVal(False)
        self.solver.push()
        self.solver.add(z3.Not(goal))
        self.solver_calls += 1
        r = str(self.solver.check())
        m = self.solver.model() if r == 'sat' else None
        if r == 'unknown' and final and SECOND_SOLVER:
            # second back end: the same query (path condition and negated goal, as z3 prints it) goes to cvc5; only its
            # 'unsat' is used (a proof of the goal) -- 'sat' would need a model in the engine's terms to be replayed, so it
            # stays undecided and the bounded stand-in serves the obligation
            if _cvc5_unsat(self.solver.to_smt2(), self.timeout_ms):
                r = 'unsat'
                self.cvc5_unsat = getattr(self, 'cvc5_unsat', 0) + 1
        self.solver.pop()
        return r, m


# -------------------------------------------------------------------------------------
def assume_forall(fn, lo=None):
    """assume (forall j. fn(j)) and instantiate it at every index term noted on this path (and at later ones):
    array-property-fragment style saturation that z3's own instantiation does not always find"""
    c = ctx()
    j = z3.Int(f'j!q{next(c.counter)}')
    c.assume(z3.ForAll([j], fn(j)))
    c.__dict__.setdefault('foralls', []).append(fn)
    for t in c.__dict__.setdefault('index_terms', []):
        c.assume(fn(t))


def forall_hyp(fn):
    """hypothesis (forall j. fn(j)) used by instantiation only: fn(t) is assumed for every index term t noted on this
    path, now and later.  fn may itself introduce fresh symbols (e.g. for a division by a symbolic divisor), which a
    real quantifier could not.  Weaker than the quantified hypothesis, hence sound."""
    c = ctx()
    c.__dict__.setdefault('foralls', []).append(fn)
    for t in list(c.__dict__.setdefault('index_terms', [])):
        c.assume(_b(fn(t)) if not isinstance(fn(t), z3.ExprRef) else fn(t))


def forall_goal(fn):
    """goal (forall j. fn(j)): skolemised with a fresh constant, which is also noted as an index term"""
    c = ctx()
    k = c.fresh_int('sk')
    note_index(k)
    return fn(k)


def note_index(*terms):
    c = ctx()
    its = c.__dict__.setdefault('index_terms', [])
    for t in terms:
        t = _int_t(t)
        if any(t.eq(u) for u in its):
            continue
        its.append(t)
        for fn in list(c.__dict__.setdefault('foralls', [])):
            r = fn(t)
            c.assume(r if isinstance(r, z3.ExprRef) else _b(r))


def _t(x):
    """host value -> z3 term"""
    if isinstance(x, SInt) or isinstance(x, SBool):
        return x.term
    if isinstance(x, bool):
        return z3.BoolVal(x)
    if isinstance(x, int):
        return z3.IntVal(x)
    raise NeedConcrete(f"cannot lift {type(x).__name__} to a term")


def _int_t(x):
    """host int-like value -> z3 Int term (bools become 0/1)"""
    if isinstance(x, SInt):
        return x.term
    if isinstance(x, SBool):
        return z3.If(x.term, z3.IntVal(1), z3.IntVal(0))
    if isinstance(x, bool):
        return z3.IntVal(int(x))
    if isinstance(x, int):
        return z3.IntVal(x)
    if isinstance(x, z3.ArithRef):
        return x
    raise NeedConcrete(f"cannot lift {type(x).__name__} to an Int term")


def is_sym(x):
    return isinstance(x, (SInt, SBool))


def is_intlike(x):
    return isinstance(x, (int, SInt, SBool))


def mk_int(t):
    """z3 Int term -> SInt or concrete int when the term is a numeral"""
    t = z3.simplify(t)
    if z3.is_int_value(t):
        return t.as_long()
    return SInt(t)


def mk_bool(t):
    t = z3.simplify(t)
    if z3.is_true(t):
        return True
    if z3.is_false(t):
        return False
    return SBool(t)


_pow2 = z3.Function('pow2', z3.IntSort(), z3.IntSort())


def pow2(k):
    """2**k for k >= 0 (caller guarantees k >= 0)"""
    if isinstance(k, int):
        return 1 << k
    c = ctx()
    kt = _int_t(k)
    p = _pow2(kt)
    # axioms instantiated at this argument and against earlier arguments; all guarded by
    # k >= 0 (Python raises ValueError for a negative shift count before getting here)
    ax = [p >= 1, z3.Implies(kt == 0, p == 1), _pow2(kt + 1) == 2 * p,
          z3.Implies(kt >= 1, p == 2 * _pow2(kt - 1)), z3.Implies(kt >= 1, _pow2(kt - 1) >= 1), p > kt]
    for o in c.pow2_args:
        po = _pow2(o)
        ax.append(z3.Implies(z3.And(o >= 0, o < kt), 2 * po <= p))
        ax.append(z3.Implies(z3.And(o >= 0, kt < o), 2 * p <= po))
        ax.append(z3.Implies(o == kt, po == p))
    for const in (0, 1, 2, 3, 4, 8):
        ax.append(z3.Implies(kt == const, p == (1 << const)))
    c.assume(z3.Implies(kt >= 0, z3.And(*ax)))
    c.pow2_args.append(kt)
    return SInt(p)


CTX_SIMPLIFY_DIV = os.environ.get('PYVC_NO_DIVSIMP') is None


def floordiv_mod(a, b):
    """Python divmod for ints; b must be known non-zero (caller raises ZeroDivisionError)."""
    if isinstance(a, (int, bool)) and isinstance(b, (int, bool)):
        return divmod(int(a), int(b))
    at, bt = _int_t(a), _int_t(b)
    if isinstance(b, (int, bool)) and int(b) > 0:
        return mk_int(at / bt), mk_int(at % bt)
    c = ctx()
    if CTX_SIMPLIFY_DIV:
        # slice clamping leaves if-then-else terms whose condition the path already decides (a length 'n if 0 <= n else 2n'):
        # resolved, the same division asked for by body and spec gets the same (q, r) instead of two nonlinear copies
        at, bt = ctx_simplify(at), ctx_simplify(bt)
    # the same division occurring twice on a path (body and spec) yields the same q, r
    key = (canon_key(z3.simplify(at, som=True)), canon_key(z3.simplify(bt, som=True)))
    memo = c.__dict__.setdefault('div_memo', {})
    if key in memo:
        return memo[key]
    q = c.fresh_int('q')
    r = c.fresh_int('r')
    c.assume(at == bt * q + r)
    if isinstance(b, (int, bool)):
        c.assume(z3.And(r <= 0, r > bt))
        positive = False
    else:
        positive = c.branch(bt > 0)
        if positive:
            c.assume(z3.And(r >= 0, r < bt))
        else:
            c.assume(z3.And(r <= 0, r > bt))
    # linear consequences of the Euclidean axioms that the nonlinear core does not find by itself
    if positive:
        c.assume(z3.And(z3.Implies(at >= 0, q >= 0), z3.Implies(at < 0, q < 0),
                        z3.Implies(at >= bt, q >= 1), z3.Implies(at < bt, q <= 0),
                        z3.Implies(at >= 0, q <= at), z3.Implies(at >= 0, bt * q <= at)))
    else:
        c.assume(z3.And(z3.Implies(at <= 0, q >= 0), z3.Implies(at > 0, q < 0),
                        z3.Implies(at <= bt, q >= 1), z3.Implies(at > bt, q <= 0)))
    for (a2, b2, q2, r2) in c.__dict__.setdefault('div_list', []):
        if b2.eq(bt):
            c.assume(z3.And(z3.Implies(at == a2, z3.And(q == q2, r == r2)),
                            z3.Implies(at == bt * q2, z3.And(q == q2, r == 0)),
                            z3.Implies(a2 == bt * q, z3.And(q == q2, r2 == 0)),
                            z3.Implies(at == a2 + bt, q == q2 + 1),
                            z3.Implies(at == a2 - bt, q == q2 - 1)))
            if positive:
                c.assume(z3.And(z3.Implies(at <= a2, q <= q2), z3.Implies(at >= a2, q >= q2)))
    c.div_list.append((at, bt, q, r))
    res = (SInt(q), SInt(r))
    memo[key] = res
    return res


def div_shift(a, b, k):
    """theorem of integer arithmetic, registered for the solver: divmod(a + k*b, b) == (divmod(a, b)[0] + k, divmod(a, b)[1]).
    (a + k*b = b*(q + k) + r with r in the remainder range of b, and the decomposition is unique.)"""
    q, r = floordiv_mod(a, b)
    c = ctx()
    at2 = _int_t(a) + _int_t(k) * _int_t(b)
    bt = _int_t(b)
    q2, r2 = _int_t(q) + _int_t(k), _int_t(r)
    key = (canon_key(z3.simplify(at2, som=True)), canon_key(z3.simplify(bt, som=True)))
    memo = c.__dict__.setdefault('div_memo', {})
    if key not in memo:
        memo[key] = (mk_int(q2), mk_int(r2))
        for (a3, b3, q3, r3) in c.__dict__.setdefault('div_list', []):
            if b3.eq(bt):
                c.assume(z3.Implies(at2 == a3, z3.And(q2 == q3, r2 == r3)))
        c.div_list.append((at2, bt, q2, r2))
    return q, r


class SInt:
    __slots__ = ('term',)

    def __init__(self, term):
        self.term = term

    def __repr__(self):
        return f'SInt({self.term})'

    # arithmetic
    def __add__(self, o):
        if not is_intlike(o):
            return NotImplemented
        return mk_int(self.term + _int_t(o))

    def __radd__(self, o):
        if not is_intlike(o):
            return NotImplemented
        return mk_int(_int_t(o) + self.term)

    def __sub__(self, o):
        if not is_intlike(o):
            return NotImplemented
        return mk_int(self.term - _int_t(o))

    def __rsub__(self, o):
        if not is_intlike(o):
            return NotImplemented
        return mk_int(_int_t(o) - self.term)

    def __mul__(self, o):
        if not is_intlike(o):
            return NotImplemented
        return mk_int(self.term * _int_t(o))

    def __rmul__(self, o):
        if not is_intlike(o):
            return NotImplemented
        return mk_int(_int_t(o) * self.term)

    def __neg__(self):
        return mk_int(-self.term)

    def __pos__(self):
        return self

    def __abs__(self):
        return mk_int(z3.If(self.term >= 0, self.term, -self.term))

    def __floordiv__(self, o):
        return floordiv_mod(self, o)[0]

    def __rfloordiv__(self, o):
        return floordiv_mod(o, self)[0]

    def __mod__(self, o):
        return floordiv_mod(self, o)[1]

    def __rmod__(self, o):
        return floordiv_mod(o, self)[1]

    def __divmod__(self, o):
        return floordiv_mod(self, o)

    def __rdivmod__(self, o):
        return floordiv_mod(o, self)

    def __lshift__(self, k):
        return self * pow2(k)

    def __rlshift__(self, x):
        return x * pow2(self)

    def __rshift__(self, k):
        return floordiv_mod(self, pow2(k))[0]

    def __rrshift__(self, x):
        return floordiv_mod(x, pow2(self))[0]

    # comparisons
    def __lt__(self, o):
        return mk_bool(self.term < _int_t(o))

    def __le__(self, o):
        return mk_bool(self.term <= _int_t(o))

    def __gt__(self, o):
        return mk_bool(self.term > _int_t(o))

    def __ge__(self, o):
        return mk_bool(self.term >= _int_t(o))

    def __eq__(self, o):
        if not is_intlike(o):
            return False
        return mk_bool(self.term == _int_t(o))

    def __ne__(self, o):
        if not is_intlike(o):
            return True
        return mk_bool(self.term != _int_t(o))

    __hash__ = None

    def __bool__(self):
        return ctx().branch(self.term != 0)

    def __index__(self):
        raise NeedConcrete("symbolic int used where a concrete index is required")

    def __int__(self):
        raise NeedConcrete("symbolic int used where a concrete int is required")


class SBool:
    __slots__ = ('term',)

    def __init__(self, term):
        self.term = term

    def __repr__(self):
        return f'SBool({self.term})'

    def __bool__(self):
        return ctx().branch(self.term)

    def __and__(self, o):
        return land(self, o)

    __rand__ = __and__

    def __or__(self, o):
        return lor(self, o)

    __ror__ = __or__

    def __invert__(self):
        return lnot(self)

    def __eq__(self, o):
        if isinstance(o, (bool, SBool)):
            return mk_bool(self.term == _t(o))
        if isinstance(o, (int, SInt)):
            return mk_bool(_int_t(self) == _int_t(o))
        return False

    def __ne__(self, o):
        return lnot(self.__eq__(o))

    __hash__ = None

    # bools are ints in Python
    def __add__(self, o):
        return mk_int(_int_t(self) + _int_t(o))

    __radd__ = __add__

    def __sub__(self, o):
        return mk_int(_int_t(self) - _int_t(o))

    def __rsub__(self, o):
        return mk_int(_int_t(o) - _int_t(self))

    def __mul__(self, o):
        return mk_int(_int_t(self) * _int_t(o))

    __rmul__ = __mul__

    def __lt__(self, o):
        return mk_bool(_int_t(self) < _int_t(o))

    def __le__(self, o):
        return mk_bool(_int_t(self) <= _int_t(o))

    def __gt__(self, o):
        return mk_bool(_int_t(self) > _int_t(o))

    def __ge__(self, o):
        return mk_bool(_int_t(self) >= _int_t(o))


def _b(x):
    """truth-valued host value -> z3 Bool term (no forking)"""
    if isinstance(x, SBool):
        return x.term
    if isinstance(x, bool):
        return z3.BoolVal(x)
    if isinstance(x, SInt):
        return x.term != 0
    if isinstance(x, int):
        return z3.BoolVal(x != 0)
    if x is None:
        return z3.BoolVal(False)
    raise NeedConcrete(f"no truth term for {type(x).__name__}")


def land(*xs):
    return mk_bool(z3.And(*[_b(x) for x in xs]))


def lor(*xs):
    return mk_bool(z3.Or(*[_b(x) for x in xs]))


def lnot(x):
    return mk_bool(z3.Not(_b(x)))


def implies(a, b):
    return mk_bool(z3.Implies(_b(a), _b(b)))


def iff(a, b):
    return mk_bool(_b(a) == _b(b))


def ite(c, a, b):
    """merge without forking; a and b must both be int-like or both bool-like"""
    if isinstance(c, bool):
        return a if c else b
    ct = _b(c)
    if isinstance(a, (bool, SBool)) and isinstance(b, (bool, SBool)):
        return mk_bool(z3.If(ct, _t(a), _t(b)))
    return mk_int(z3.If(ct, _int_t(a), _int_t(b)))


def smin(a, b):
    if isinstance(a, int) and isinstance(b, int):
        return min(a, b)
    return ite(a <= b, a, b)


def smax(a, b):
    if isinstance(a, int) and isinstance(b, int):
        return max(a, b)
    return ite(a >= b, a, b)


def eq(a, b):
    """host-level ==, returning bool/SBool for int-likes"""
    if is_sym(a):
        return a.__eq__(b)
    if is_sym(b):
        return b.__eq__(a)
    return a == b


def truth(x) -> bool:
    """force a truth value (forks when symbolic)"""
    if isinstance(x, (SBool, SInt)):
        return bool(x)
    return bool(x)


# -------------------------------------------------------------------------------------
def ctx_simplify(t):
    """simplify a z3 term under the facts of the current path: an if-then-else whose condition the path decides is replaced
    by the chosen branch (conditions over bound variables are left alone).  Used to bring index terms that went through
    Python's slice clamping (min/max against the length) back to the plain form they have when the bounds are known to be in
    range, so that the same abstract quantity asked for along two routes gets the same term."""
    c = ctx()
    t = z3.simplify(t)
    decided = {}

    def decide(cond):
        k = cond.get_id()
        if k not in decided:
            d = None
            if c.valid(cond)[0] == 'unsat':
                d = True
            elif c.valid(z3.Not(cond))[0] == 'unsat':
                d = False
            decided[k] = d
        return decided[k]

    def has_bound(e):
        if z3.is_var(e):
            return True
        if z3.is_quantifier(e):
            return True
        return any(has_bound(ch) for ch in e.children())

    seen = {}

    def walk(e):
        k = e.get_id()
        if k in seen:
            return seen[k]
        r = e
        if z3.is_app(e) and e.num_args() > 0:
            if e.decl().kind() == z3.Z3_OP_ITE and not has_bound(e.arg(0)):
                cond = walk(e.arg(0))
                d = decide(cond)
                if d is True:
                    r = walk(e.arg(1))
                elif d is False:
                    r = walk(e.arg(2))
                else:
                    a1, a2 = walk(e.arg(1)), walk(e.arg(2))
                    # undecided condition, but the branches may agree where it matters (max(n - p, 0) with p <= n known)
                    if not has_bound(a1) and not has_bound(a2) and c.valid(z3.Implies(cond, a1 == a2))[0] == 'unsat':
                        r = a2
                    elif not has_bound(a1) and not has_bound(a2) and c.valid(z3.Implies(z3.Not(cond), a1 == a2))[0] == 'unsat':
                        r = a1
                    else:
                        r = z3.If(cond, a1, a2)
            else:
                ch = [walk(x) for x in e.children()]
                if any(a.get_id() != b.get_id() for a, b in zip(ch, e.children())):
                    try:
                        r = e.decl()(*ch)
                    except Exception:
                        r = e
        seen[k] = r
        return r
    return z3.simplify(walk(t))


def ctx_simplify_int(x):
    if isinstance(x, SInt):
        return SInt(ctx_simplify(x.term))
    return x


_COMMUTATIVE = None


def canon_key(t):
    """a structural key of a z3 term that does not depend on the order in which z3 happened to arrange the arguments of
    commutative operators (that order follows internal term ids, i.e. the history of the process)"""
    global _COMMUTATIVE
    if _COMMUTATIVE is None:
        _COMMUTATIVE = {z3.Z3_OP_ADD, z3.Z3_OP_MUL, z3.Z3_OP_AND, z3.Z3_OP_OR, z3.Z3_OP_EQ, z3.Z3_OP_DISTINCT, z3.Z3_OP_IFF, z3.Z3_OP_XOR}
    memo = {}

    def key(e):
        i = e.get_id()
        if i in memo:
            return memo[i]
        if z3.is_quantifier(e):
            r = ('Q', e.is_forall(), e.is_lambda(), e.num_vars(), key(e.body()))
        elif z3.is_var(e):
            r = ('V', z3.get_var_index(e))
        elif z3.is_app(e):
            ks = [key(c) for c in e.children()]
            d = e.decl()
            if d.kind() in _COMMUTATIVE:
                ks = sorted(ks, key=repr)
            r = (d.name() if d.kind() == z3.Z3_OP_UNINTERPRETED else str(d), tuple(ks)) if ks else ('C', e.sexpr())
        else:
            r = ('?', e.sexpr())
        memo[i] = r
        return r
    return repr(key(z3.simplify(t)))
