"""Client code over the public operators.  These one-line functions are what a user of the library writes; they are
interpreted by the same engine as the package (so Python's operator dispatch -- which method of which operand is tried first,
including the priority of a subclass's reflected method -- is part of what is verified) and imported natively for replay."""


def op_add(a, b):
    return a + b


def op_mul(a, n):
    return a * n


def op_rmul(n, a):
    return n * a


def op_and(a, b):
    return a & b


def op_or(a, b):
    return a | b


def op_xor(a, b):
    return a ^ b


def op_eq(a, b):
    return a == b


def op_ne(a, b):
    return a != b


def op_contains(a, b):
    return b in a


def op_iadd(a, b):
    a += b
    return a


def assign_attr(a, name, v):
    setattr(a, name, v)
    return a
