"""C11: 8-bit, micro-scaling and bfloat codecs decode and round exactly as specified.

The deciding facts are about finite tables, so they are discharged by *complete enumeration* against an
exact-rational specification written from the format definitions (sign / biased exponent / mantissa, subnormals,
special codes) and the documented overflow rules -- not from the repo's table generators:

  decode   for every code of every format: lut[code] == fmt_value(F, code)                    (exhaustive)
  round    for every binary16 value h and every overflow mode: lut16[h] == fmt_round(F, h)       (exhaustive)
  wire     the real encoders (the *2bitstore functions with the real options object) return the table entry for the
           half-precision rounding of their argument, and the clamp constants for arguments beyond binary16 equal
           fmt_round(F, +-huge); the real getters index the right table            (exhaustive over h, both modes)
  e8m0, bfloat, scale                                                                 (exhaustive over codes / sampled)
  mxint    nearest-even of 64x directly: bounded (all multiples of 2^-8 in range, their float neighbours, random doubles)

Together with the assumed contract of struct.pack('>e') (IEEE round-to-nearest-even to binary16, OverflowError iff the
rounded magnitude is >= 2^16) the first three cover every float64 argument.
"""
import math
import random
import struct
import sys
from fractions import Fraction

META = {'explanation': 'Complete enumeration of every table entry (decode: all codes; encode: all 65536 binary16 values x overflow '
                       'modes) against an exact-rational model of each format; mxint and scale are bounded.'}
EXTRA_TASKS = ['tables_p4binary', 'tables_p3binary', 'tables_e5m2', 'tables_e4m3', 'tables_small', 'others', 'routes_across_modes', 'codec_routes_isolation', 'scale_divides', 'bit_numbering_and_previous_content']


class Fmt:
    def __init__(self, name, width, ebits, mbits, bias, kind):
        self.name, self.w, self.e, self.m, self.bias, self.kind = name, width, ebits, mbits, bias, kind

    # ---- decode -------------------------------------------------------------------------------------
    def special(self, code):
        """'nan' / 'inf' / '-inf' / None"""
        top = 1 << (self.w - 1)
        mag = code & (top - 1)
        sign = bool(code & top)
        if self.kind == 'binary8':
            if code == top:
                return 'nan'
            if mag == top - 1:
                return '-inf' if sign else 'inf'
        elif self.kind == 'e5m2':
            E = (mag >> self.m)
            M = mag & ((1 << self.m) - 1)
            if E == (1 << self.e) - 1:
                return ('-inf' if sign else 'inf') if M == 0 else 'nan'
        elif self.kind == 'e4m3':
            if mag == top - 1:
                return 'nan'
        return None

    def value(self, code):
        """exact value: ('nan',) | ('inf', sign) | ('num', Fraction, negative_zero: bool)"""
        sp = self.special(code)
        if sp == 'nan':
            return ('nan',)
        if sp in ('inf', '-inf'):
            return ('inf', sp == '-inf')
        top = 1 << (self.w - 1)
        sign = bool(code & top)
        mag = code & (top - 1)
        E = mag >> self.m
        M = mag & ((1 << self.m) - 1)
        if E == 0:
            v = Fraction(M, 1 << self.m) * Fraction(2) ** (1 - self.bias)
        else:
            v = (1 + Fraction(M, 1 << self.m)) * Fraction(2) ** (E - self.bias)
        if sign:
            v = -v
        return ('num', v, sign and v == 0)

    def finite_codes(self):
        return [c for c in range(1 << self.w) if self.special(c) is None]

    def max_finite(self):
        if not hasattr(self, '_maxf'):
            self._maxf = max(self.value(c)[1] for c in self.finite_codes())
        return self._maxf

    def code_of(self, v, negzero=False):
        if not hasattr(self, '_codes'):
            self._codes = {}
            for c in self.finite_codes():
                val = self.value(c)
                self._codes.setdefault((val[1], val[2]), c)
        return self._codes[(v, negzero)]

    # ---- encode -------------------------------------------------------------------------------------
    def round(self, x, mode):
        """code for the Python float x (already binary16-representable, or +-inf/nan)"""
        top = 1 << (self.w - 1)
        if math.isnan(x):
            if self.kind == 'binary8':
                return top                      # the single NaN
            return (1 << self.w) - 1 if self.w == 8 else 0xff   # e4m3/e5m2 NaN code; small formats: 'invalid' marker
        neg = math.copysign(1.0, x) < 0
        has_negzero = self.kind != 'binary8'
        maxf = self.max_finite()
        if math.isinf(x):
            r = None
        else:
            a = abs(Fraction(x))
            emin = 1 - self.bias
            if a == 0:
                r = Fraction(0)
            else:
                e = max(math.frexp(abs(x))[1] - 1, emin)       # exact: x is a float
                q = Fraction(2) ** (e - self.m)
                n = a / q
                fl = n.numerator // n.denominator
                rem = n - fl
                if rem > Fraction(1, 2) or (rem == Fraction(1, 2) and fl % 2 == 1):
                    fl += 1
                r = fl * q
        if r is None or r > maxf:
            # out of range after rounding
            if self.kind == 'binary8':
                return (top | (top - 1)) if neg else (top - 1)            # +-inf
            if self.kind == 'e5m2':
                if mode == 'saturate':
                    return self.code_of(-maxf if neg else maxf)
                return 0b11111100 if neg else 0b01111100                    # +-inf
            if self.kind == 'e4m3':
                if mode == 'saturate':
                    return self.code_of(-maxf if neg else maxf)
                return 0xff                                                  # NaN
            return self.code_of(-maxf if neg else maxf)                     # small formats saturate
        if r == 0:
            return self.code_of(Fraction(0), neg and has_negzero)
        return self.code_of(-r if neg else r)


P4 = Fmt('p4binary', 8, 4, 3, 8, 'binary8')
P3 = Fmt('p3binary', 8, 5, 2, 16, 'binary8')
E5M2 = Fmt('e5m2mxfp', 8, 5, 2, 15, 'e5m2')
E4M3 = Fmt('e4m3mxfp', 8, 4, 3, 7, 'e4m3')
E3M2 = Fmt('e3m2mxfp', 6, 3, 2, 3, 'small')
E2M3 = Fmt('e2m3mxfp', 6, 2, 3, 1, 'small')
E2M1 = Fmt('e2m1mxfp', 4, 2, 1, 1, 'small')


def f16(h):
    return struct.unpack('>e', struct.pack('>H', h))[0]


def same_float(table_val, spec):
    if spec[0] == 'nan':
        return math.isnan(table_val)
    if spec[0] == 'inf':
        return math.isinf(table_val) and (table_val < 0) == spec[1]
    if math.isnan(table_val) or math.isinf(table_val):
        return False
    return Fraction(table_val) == spec[1] and (math.copysign(1.0, table_val) < 0) == (spec[1] < 0 or spec[2])


def _ob(oid, ok, witness=None, backend='enum'):
    d = {'id': oid, 'backend': backend, 'kind': 'public', 'verdict': 'proved' if ok else 'refuted', 'qualname': oid.split('/')[1],
         'shape': oid.split('/')[-1], 'clause': ''}
    if witness:
        d['witness'] = dict(witness, reproduced=True)
    return d


def check_format(F, real_fmts, setter, getter_name, modes):
    """real_fmts: mode -> (lut_int_to_float, lut_float16_to_int, pos_clamp, neg_clamp)"""
    import bitstring
    obs = []
    evals = 0
    # decode table
    bad = None
    for mode in modes:
        lut = real_fmts[mode][0]
        for code in range(1 << F.w):
            evals += 1
            if not same_float(lut[code], F.value(code)):
                bad = {'inputs': {'format': F.name, 'code': code, 'table': repr(lut[code]), 'spec': str(F.value(code))},
                       'python': f"import bitstring\nFAILS = True  # decode table entry {code} of {F.name} is {lut[code]!r}"}
                break
    obs.append(_ob(f'C11/{F.name}/decode-table-equals-format-definition/all-codes', bad is None, bad))
    # getters index the right table
    bad = None
    for code in range(1 << F.w):
        evals += 1
        v = getattr(bitstring.Bits(uint=code, length=F.w), getter_name)
        if not same_float(v, F.value(code)):
            bad = {'inputs': {'format': F.name, 'code': code, 'got': repr(v)},
                   'python': f"import bitstring\nv = bitstring.Bits(uint={code}, length={F.w}).{getter_name}\nFAILS = True"}
            break
    obs.append(_ob(f'C11/bits.Bits._get{F.name}/property-decodes-every-code/all-codes', bad is None, bad))
    # rounding tables, wiring of the real encoders, clamps
    for mode in modes:
        lut16 = real_fmts[mode][1]
        bad = None
        badw = None
        if len(modes) > 1:
            bitstring.options.mxfp_overflow = mode
        try:
            for h in range(1 << 16):
                evals += 1
                x = f16(h)
                want = F.round(x, mode)
                if lut16[h] != want and not (F.kind == 'small' and math.isnan(x)):
                    if bad is None:
                        bad = {'inputs': {'format': F.name, 'mode': mode, 'float16': hex(h), 'value': repr(x), 'table': lut16[h], 'spec': want},
                               'python': f"FAILS = True  # {F.name} ({mode}) encodes {x!r} as {lut16[h]}, the nearest-even code is {want}"}
                if badw is None:
                    if math.isnan(x) and F.kind == 'small':
                        try:
                            setter(x)
                            badw = {'inputs': {'format': F.name, 'value': 'nan', 'observed': 'accepted'},
                                    'python': f"FAILS = True  # {F.name} accepts NaN"}
                        except ValueError:
                            pass
                    else:
                        got = int(setter(x).slice_to_uint())
                        if got != want:
                            badw = {'inputs': {'format': F.name, 'mode': mode, 'value': repr(x), 'got': got, 'spec': want},
                                    'python': f"import bitstring\nbitstring.options.mxfp_overflow = {mode!r}\n"
                                              f"FAILS = bitstring.Bits({F.name}={x!r}).uint != {want}"}
            # beyond binary16: struct.pack('>e') raises OverflowError, the clamp constants decide
            for x in (65520.0, 1e5, 1e300, -65520.0, -1e5, -1e300):
                evals += 1
                want = F.round(math.inf if x > 0 else -math.inf, mode)
                try:
                    got = int(setter(x).slice_to_uint())
                except Exception as e:              # (an encoder that raises on a finite out-of-range value is a failed obligation, not a crash)
                    got = f'{type(e).__name__}: {e}'[:80]
                if got != want and badw is None:
                    badw = {'inputs': {'format': F.name, 'mode': mode, 'value': repr(x), 'got': got, 'spec': want},
                            'python': f"import bitstring\nbitstring.options.mxfp_overflow = {mode!r}\n"
                                      f"FAILS = bitstring.Bits({F.name}={x!r}).uint != {want}"}
        finally:
            bitstring.options.mxfp_overflow = 'saturate'
        obs.append(_ob(f'C11/{F.name}/rounding-table-is-nearest-even-with-documented-overflow/{mode}-all-float16', bad is None, bad))
        obs.append(_ob(f'C11/bitstore_helpers.{F.name}2bitstore/encoder-returns-the-specified-code/{mode}-all-float16-and-overflow', badw is None, badw))
    # decode then re-encode is the identity for every non-NaN code (except e5m2 infinities under saturate)
    bad = None
    for mode in modes:
        if len(modes) > 1:
            bitstring.options.mxfp_overflow = mode
        try:
            for code in range(1 << F.w):
                sp = F.special(code)
                if sp == 'nan' or (F.kind == 'e5m2' and mode == 'saturate' and sp in ('inf', '-inf')):
                    continue
                evals += 1
                v = real_fmts[mode][0][code]
                got = int(setter(v).slice_to_uint())
                if got != code and not (F.kind == 'binary8' and v == 0):
                    bad = {'inputs': {'format': F.name, 'mode': mode, 'code': code, 're-encoded': got},
                           'python': f"FAILS = True  # {F.name}: code {code} decodes to {v!r} which re-encodes to {got}"}
                    break
        finally:
            bitstring.options.mxfp_overflow = 'saturate'
    obs.append(_ob(f'C11/{F.name}/decode-then-encode-is-identity/all-non-nan-codes', bad is None, bad))
    return obs, evals


def _run(Fs):
    import bitstring
    from bitstring import bitstore_helpers as bh
    from bitstring import fp8, mxfp
    obs = []
    evals = 0
    for F in Fs:
        if F.kind == 'binary8':
            r = fp8.p4binary_fmt if F is P4 else fp8.p3binary_fmt
            real = {'saturate': (r.lut_binary8_to_float, r.lut_float16_to_binary8, r.pos_clamp_value, r.neg_clamp_value)}
            modes = ['saturate']
        elif F.kind in ('e5m2', 'e4m3'):
            sat = mxfp.e5m2mxfp_saturate_fmt if F is E5M2 else mxfp.e4m3mxfp_saturate_fmt
            ovf = mxfp.e5m2mxfp_overflow_fmt if F is E5M2 else mxfp.e4m3mxfp_overflow_fmt
            real = {'saturate': (sat.lut_int_to_float, sat.lut_float16_to_mxfp, sat.pos_clamp_value, sat.neg_clamp_value),
                    'overflow': (ovf.lut_int_to_float, ovf.lut_float16_to_mxfp, ovf.pos_clamp_value, ovf.neg_clamp_value)}
            modes = ['saturate', 'overflow']
        else:
            r = {'e3m2mxfp': mxfp.e3m2mxfp_fmt, 'e2m3mxfp': mxfp.e2m3mxfp_fmt, 'e2m1mxfp': mxfp.e2m1mxfp_fmt}[F.name]
            real = {'saturate': (r.lut_int_to_float, r.lut_float16_to_mxfp, r.pos_clamp_value, r.neg_clamp_value)}
            modes = ['saturate']
        setter = getattr(bh, F.name + '2bitstore')
        o, e = check_format(F, real, setter, F.name, modes)
        obs.extend(o)
        evals += e
    return {'id': 'C11.' + '+'.join(F.name for F in Fs), 'obligations': obs, 'evaluations': evals, 'exhaustive': True,
            'functions': [f'bitstore_helpers.{F.name}2bitstore' for F in Fs] + [f'bits.Bits._get{F.name}' for F in Fs],
            'summary': f'{evals} table entries / encoder calls compared with the exact-rational model'}


def tables_p4binary(tier='quick', seed=0):
    return _run([P4])


def tables_p3binary(tier='quick', seed=0):
    return _run([P3])


def tables_e5m2(tier='quick', seed=0):
    return _run([E5M2])


def tables_e4m3(tier='quick', seed=0):
    return _run([E4M3])


def tables_small(tier='quick', seed=0):
    return _run([E3M2, E2M3, E2M1])


def others(tier='quick', seed=0):
    """e8m0, bfloat, mxint, scale"""
    import bitstring
    from bitstring import Bits, Dtype
    rng = random.Random(seed)
    obs = []
    evals = 0
    # e8m0: exact powers of two only, NaN <-> 255
    bad = None
    for code in range(256):
        evals += 1
        v = Bits(uint=code, length=8).e8m0mxfp
        want = float('nan') if code == 255 else 2.0 ** (code - 127)
        if not (math.isnan(v) if code == 255 else v == want):
            bad = {'inputs': {'code': code, 'got': repr(v)}, 'python': f"FAILS = True  # e8m0 code {code} decodes to {v!r}"}
            break
        if code != 255 and Bits(e8m0mxfp=want).uint != code:
            bad = {'inputs': {'value': repr(want)}, 'python': f"FAILS = True  # e8m0 {want!r} does not encode to {code}"}
            break
    for x in (3.0, 0.0, -1.0, 1.0000000000000002, 2.0 ** 128, float('inf')):
        evals += 1
        try:
            Bits(e8m0mxfp=x)
            bad = bad or {'inputs': {'value': repr(x)}, 'python': f"import bitstring\ntry:\n    bitstring.Bits(e8m0mxfp={x!r})\n    FAILS = True\nexcept ValueError:\n    FAILS = False"}
        except ValueError:
            pass
    # a float next to a power of two is not a power of two: 'no rounding will be done'
    for k in range(-127, 128):
        for x in (math.nextafter(2.0 ** k, math.inf), math.nextafter(2.0 ** k, -math.inf), 2.0 ** k * 1.5, -(2.0 ** k)):
            evals += 1
            try:
                Bits(e8m0mxfp=x)
                bad = bad or {'inputs': {'value': repr(x)}, 'python': f"import bitstring\ntry:\n    bitstring.Bits(e8m0mxfp={x!r})\n    FAILS = True\nexcept ValueError:\n    FAILS = False"}
            except ValueError:
                pass
    if Bits(e8m0mxfp=float('nan')).uint != 255:
        bad = bad or {'inputs': {'value': 'nan'}, 'python': "FAILS = True"}
    obs.append(_ob('C11/bitstore_helpers.e8m0mxfp2bitstore/exact-powers-of-two-only/all-codes', bad is None, bad))
    # bfloat: top 16 bits of the float32
    bad = None
    for code in range(1 << 16):
        evals += 1
        v = Bits(uint=code, length=16).bfloat
        want = struct.unpack('>f', struct.pack('>HH', code, 0))[0]
        if not ((math.isnan(v) and math.isnan(want)) or (v == want and math.copysign(1, v) == math.copysign(1, want))):
            bad = {'inputs': {'code': code, 'got': repr(v)}, 'python': f"FAILS = True  # bfloat code {code}"}
            break
        le = Bits(uint=code, length=16).bfloatle
        wantle = struct.unpack('<f', struct.pack('<H', 0) + struct.pack('>H', code))[0]
        if not ((math.isnan(le) and math.isnan(wantle)) or le == wantle):
            bad = {'inputs': {'code': code, 'le': repr(le)}, 'python': f"FAILS = True  # bfloatle code {code}"}
            break
        # the explicitly big-endian name is bfloat; the native-endian name is whichever of the two sys.byteorder says
        b16 = Bits(uint=code, length=16)
        be, ne = b16.bfloatbe, b16.bfloatne
        wantne = le if sys.byteorder == 'little' else v
        same = lambda a, b: (math.isnan(a) and math.isnan(b)) or (a == b and math.copysign(1, a) == math.copysign(1, b))
        if not same(be, v) or not same(ne, wantne):
            bad = {'inputs': {'code': code, 'bfloatbe': repr(be), 'bfloatne': repr(ne), 'expected bfloatne': repr(wantne)},
                   'python': f"import bitstring, sys, math\nb = bitstring.Bits(uint={code}, length=16)\nw = b.bfloatle if sys.byteorder == 'little' else b.bfloat\n"
                             "FAILS = not ((math.isnan(b.bfloatne) and math.isnan(w)) or b.bfloatne == w) or not ((math.isnan(b.bfloatbe) and math.isnan(b.bfloat)) or b.bfloatbe == b.bfloat)"}
            break
    samples = [0.0, -0.0, 1.0, 1.00390625, 3.14159, -2.71828, 1e38, 3.4e38, 1e39, -1e39, float('inf'), 1e-40, 5e-324] + \
              [rng.uniform(-1e6, 1e6) for _ in range(2000)] + [rng.uniform(-1, 1) * 10.0 ** rng.randint(-40, 38) for _ in range(2000)]
    for x in samples:
        evals += 1
        try:
            wantb = struct.pack('>f', x)[:2]
        except OverflowError:
            wantb = struct.pack('>f', math.inf if x > 0 else -math.inf)[:2]
        if Bits(bfloat=x).bytes != wantb or Bits(bfloatle=x).bytes != wantb[::-1] or Bits(bfloatbe=x).bytes != wantb \
                or Bits(bfloatne=x).bytes != (wantb[::-1] if sys.byteorder == 'little' else wantb):
            bad = bad or {'inputs': {'value': repr(x)}, 'python': f"FAILS = True  # bfloat encoding of {x!r}"}
    obs.append(_ob('C11/bitstore_helpers.bfloat2bitstore/truncated-float32/all-codes-and-sampled-floats', bad is None, bad, backend='enum'))
    # mxint: nearest-even of 64x, clamped to [-128, 127]
    bad = None
    cands = []
    for k in range(-700, 700):
        base = k / 256.0
        cands += [base, math.nextafter(base, math.inf), math.nextafter(base, -math.inf)]
    cands += [rng.uniform(-2.5, 2.5) for _ in range(4000)] + [1e300, -1e300, math.inf, -math.inf, 0.0078125, 0.007812500000000002]
    nmx = 0
    for x in cands:
        nmx += 1
        if math.isinf(x):
            want = 127 if x > 0 else -128
        else:
            y = Fraction(x) * 64
            fl = math.floor(y)
            rem = y - fl
            n = fl + (1 if (rem > Fraction(1, 2) or (rem == Fraction(1, 2) and fl % 2 == 1)) else 0)
            want = max(-128, min(127, n))
        got = Bits(mxint=x).int
        if got != want:
            bad = {'inputs': {'value': repr(x), 'got': got, 'nearest_even_of_64x': want},
                   'python': f"import bitstring\nFAILS = bitstring.Bits(mxint={x!r}).int != {want}"}
            break
    for code in range(256):
        v = Bits(uint=code, length=8).mxint
        if Fraction(v) != Fraction(code - 256 if code > 127 else code, 64):
            bad = bad or {'inputs': {'code': code}, 'python': "FAILS = True"}
    evals += nmx + 256
    bounded = [{'id': 'C11/bitstore_helpers.mxint2bitstore/nearest-even-of-64x', 'function': 'bitstore_helpers.mxint2bitstore',
                'bound': f'{nmx} floats: every multiple of 2^-8 in [-2.73, 2.73] with both float neighbours, 4000 random, infinities',
                'evaluations': nmx, 'failures': [bad] if bad else []}]
    # scale
    bad = None
    for name in ('e4m3mxfp', 'e2m1mxfp', 'mxint', 'p4binary', 'uint8', 'float16'):
        for scale in (2, 0.5, 2 ** 6, 2 ** -3):
            d0 = Dtype(name)
            d = Dtype(name, scale=scale)
            for _ in range(20):
                evals += 1
                code = rng.randrange(1 << d0.bitlength)
                b = Bits(uint=code, length=d0.bitlength)
                v0, v = d0.parse(b), d.parse(b)
                if not (isinstance(v0, float) and math.isnan(v0)) and v != v0 * scale:
                    bad = {'inputs': {'dtype': name, 'scale': scale, 'code': code}, 'python': "FAILS = True"}
                x = rng.uniform(0, 3)
                try:
                    if d.build(x) != d0.build(x / scale):
                        bad = {'inputs': {'dtype': name, 'scale': scale, 'value': x}, 'python': "FAILS = True"}
                except ValueError:
                    pass
    bounded.append({'id': 'C11/dtypes.scaled_get_fn+scaled_set_fn', 'function': 'dtypes.scaled_get_fn/scaled_set_fn',
                    'bound': '6 dtypes x 4 scales x 20 random codes/values', 'evaluations': 480, 'failures': [bad] if bad else []})
    return {'id': 'C11.others', 'obligations': obs, 'bounded': bounded, 'evaluations': evals,
            'functions': ['bitstore_helpers.e8m0mxfp2bitstore', 'bitstore_helpers.bfloat2bitstore', 'bitstore_helpers.mxint2bitstore'],
            'summary': f'{evals} evaluations'}



def routes_across_modes(tier='quick', seed=0):
    """every creation route gives the code the *current* mxfp_overflow mode defines, also right after the mode was switched with the
    same token string already used under the other mode (bounded: the string route runs through a memoising parser)"""
    import bitstring
    from bitstring import Bits, BitArray, Dtype, pack
    fails = []
    evals = 0
    saved = bitstring.options.mxfp_overflow
    vals = ['500', '465.0', '448.1', '-1e9', '57345', '1e10', '6.1', '7.9', '-7.5', '1e-9', 'inf', '-inf', '0.1', '3.4e38']
    try:
        for fmt in ('e4m3mxfp', 'e5m2mxfp', 'e3m2mxfp', 'e2m3mxfp', 'e2m1mxfp', 'e8m0mxfp', 'mxint', 'p4binary', 'p3binary', 'bfloat'):
            for v in vals:
                for order in (('saturate', 'overflow'), ('overflow', 'saturate'), ('saturate', 'overflow', 'saturate')):
                    for mode in order:
                        bitstring.options.mxfp_overflow = mode
                        evals += 1
                        try:
                            ref = Bits(**{fmt: float(v)}).bin
                        except ValueError:
                            ref = 'ValueError'
                        got = {}
                        for route, make in (('string', lambda: Bits(f'{fmt}={v}').bin), ('BitArray +=', lambda: (BitArray() + f'{fmt}={v}').bin),
                                            ('pack', lambda: pack(fmt, float(v)).bin), ('Dtype.build', lambda: Dtype(fmt).build(float(v)).bin),
                                            ('== string', lambda: ref if (ref == 'ValueError' or Bits(bin=ref) == f'{fmt}={v}') else 'differs')):
                            try:
                                got[route] = make()
                            except ValueError:
                                got[route] = 'ValueError'
                        bad = {r: g for r, g in got.items() if g != ref}
                        if bad and len(fails) < 4:
                            fails.append({'call': f'{fmt}={v} under {mode} after the sequence {order}', 'observed': str(bad)[:120], 'expected': ref,
                                          'python': 'import bitstring\n'
                                                    + ''.join(f"bitstring.options.mxfp_overflow = {m!r}; x = bitstring.Bits('{fmt}={v}').bin\n" for m in order[:order.index(mode) + 1] if True)
                                                    + f"ref = bitstring.Bits({fmt}=float('{v}')).bin\nFAILS = x != ref\nbitstring.options.mxfp_overflow = 'saturate'\n"})
    finally:
        bitstring.options.mxfp_overflow = saved
    return {'id': 'C11.routes', 'obligations': [], 'evaluations': evals,
            'bounded': [{'id': 'C11/bitstore_helpers.str_to_bitstore/routes-agree-after-mode-switch', 'qualname': 'bitstore_helpers.str_to_bitstore', 'shape': 'formats x values x mode sequences',
                         'function': 'string / += / pack / Dtype.build / == routes of the 8-bit and micro-scaling formats', 'bound': '10 formats x 14 boundary values x 3 mode sequences',
                         'evaluations': evals, 'failures': fails[:3]}],
            'summary': f'{evals} (format, value, mode) points, {len(fails)} failures'}


def codec_routes_isolation(tier='quick', seed=0):
    """(shared with C04) a saturated or ordinary code handed to a mutable bitstring is its own: changing that object in place must not
    change what the same value encodes to afterwards, by any route"""
    from props import C04
    r = C04.dtype_routes_isolation(tier, seed, only=('p3binary', 'p4binary', 'e5m2mxfp', 'e4m3mxfp', 'e3m2mxfp', 'e2m3mxfp', 'e2m1mxfp', 'e8m0mxfp', 'mxint',
                                                     'bfloat', 'bfloatle', 'bfloatbe', 'bfloatne'))
    for b in r.get('bounded', []):
        b['id'] = b['id'].replace('C04/', 'C11/')
    r['id'] = 'C11.isolation'
    return r


def scale_divides(tier='quick', seed=0):
    """a Dtype scale divides the value before encoding: Dtype(fmt, scale=s).build(x) is exactly Dtype(fmt).build(x / s) -- also for
    scales that are not powers of two and for x / s on a rounding boundary (code values and the midpoints between adjacent ones),
    where any other arithmetic (x * (1 / s), say) lands on the neighbouring code.  Bounded, native."""
    import math
    import bitstring
    from bitstring import Bits, Dtype
    fails = []
    evals = 0
    fmts = ['p3binary', 'p4binary', 'e5m2mxfp', 'e4m3mxfp', 'e3m2mxfp', 'e2m3mxfp', 'e2m1mxfp', 'mxint', 'bfloat']
    scales = [3, 0.1, 0.7, 49, 1.1, 1e-3, 7, 2, 0.5, 2 ** -5, -3, 10]
    if tier == 'quick':
        scales = scales[:8]
    for fmt in fmts:
        plain = Dtype(fmt)
        n = plain.bitlength
        codes = range(0, 1 << n, 1 if n <= 8 else (257 if tier == 'quick' else 17))
        vals = []
        for c in codes:
            try:
                v = plain.parse(Bits(uint=c, length=n)) if hasattr(plain, 'parse') else getattr(Bits(uint=c, length=n), fmt)
            except Exception:
                continue
            if isinstance(v, float) and math.isfinite(v):
                vals.append(v)
        vals = sorted(set(vals))
        points = list(vals) + [(a + b) / 2 for a, b in zip(vals, vals[1:])]
        for s_ in scales:
            scaled = Dtype(fmt, scale=s_)
            for b in points:
                x = b * s_
                evals += 1
                try:
                    want = plain.build(x / s_).bin
                except ValueError:
                    want = 'ValueError'
                try:
                    got = scaled.build(x).bin
                except ValueError:
                    got = 'ValueError'
                if got != want:
                    fails.append({'call': f"Dtype({fmt!r}, scale={s_!r}).build({x!r})", 'observed': got, 'expected': f'{want} (= Dtype({fmt!r}).build({x!r} / {s_!r}))',
                                  'python': f"import bitstring\nD = bitstring.Dtype\ndef b(f):\n    try: return f().bin\n    except ValueError: return 'ValueError'\n"
                                            f"FAILS = b(lambda: D({fmt!r}, scale={s_!r}).build({x!r})) != b(lambda: D({fmt!r}).build({x!r} / {s_!r}))\n"})
                    break
            if len(fails) > 4:
                break
    # Array.astype to the same format with another scale keeps the *values* (re-encoded under the new scale), not the codes
    from bitstring import Array
    for fmt in fmts:
        codes = [c for c in range(0, 256, 7)] if Dtype(fmt).bitlength == 8 else list(range(0, 1 << min(Dtype(fmt).bitlength, 6)))
        vals = []
        for c in codes:
            try:
                v = getattr(Bits(uint=c, length=Dtype(fmt).bitlength), fmt)
            except Exception:
                continue
            if isinstance(v, float) and math.isfinite(v):
                vals.append(v)
        for s1, s2 in ((None, 4), (4, None), (2, 0.5), (None, 2 ** -3)):
            evals += 1
            try:
                a = Array(Dtype(fmt, scale=s1) if s1 is not None else fmt, [v * (s1 or 1) for v in vals])
                b = a.astype(Dtype(fmt, scale=s2) if s2 is not None else Dtype(fmt))
                want = Array(Dtype(fmt, scale=s2) if s2 is not None else fmt, a.tolist()).tolist()
                ok = b.tolist() == want
            except Exception as e:
                ok = False
            if not ok:
                fails.append({'call': f"Array({fmt!r} scale={s1}).astype(Dtype({fmt!r}, scale={s2}))", 'observed': 'codes reinterpreted instead of values re-encoded',
                              'python': f"import bitstring\nfrom bitstring import Array, Dtype\na = Array({fmt!r}, [1.0, 0.5])\nb = a.astype(Dtype({fmt!r}, scale=4))\nFAILS = b.tolist() != Array(Dtype({fmt!r}, scale=4), [1.0, 0.5]).tolist()\n"})
                break
    return {'id': 'C11.scale', 'obligations': [], 'evaluations': evals,
            'bounded': [{'id': 'C11/dtypes.scaled_set_fn/scale-divides-before-encoding', 'qualname': 'dtypes.scaled_set_fn', 'shape': 'formats x scales x boundary values',
                         'function': 'Dtype(fmt, scale=s).build', 'bound': f'{len(fmts)} formats x {len(scales)} scales x every code value and midpoint', 'evaluations': evals,
                         'failures': fails[:3]}],
            'summary': f'{evals} builds, {len(fails)} failures'}


def bit_numbering_and_previous_content(tier='quick', seed=0):
    """what a code decodes to, and what a value encodes to, is a function of the bits and the value alone: the same with options.lsb0 on
    (the interpretation of a *whole* bitstring does not depend on how its bits are numbered), and -- for property assignment on a
    mutable bitstring -- the same whatever the object held before (these formats have one length: assignment replaces the content).
    Bounded, native: every code of the 8-bit formats, 4352 codes of each bfloat spelling, 12 values x 5 previous contents."""
    import math
    import bitstring
    from bitstring import Bits, BitArray, BitStream, Dtype
    rng = random.Random(seed)
    fails = []
    evals = 0
    eight = ['p3binary', 'p4binary', 'e5m2mxfp', 'e4m3mxfp', 'e3m2mxfp', 'e2m3mxfp', 'e2m1mxfp', 'e8m0mxfp', 'mxint']
    sixteen = ['bfloat', 'bfloatbe', 'bfloatle', 'bfloatne']
    same = lambda a, b: (isinstance(a, float) and isinstance(b, float) and math.isnan(a) and math.isnan(b)) or (a == b and str(a) == str(b))
    saved = bitstring.options.lsb0
    try:
        for fmt in eight + sixteen:
            n = Dtype(fmt).bitlength
            codes = range(1 << n) if n <= 8 else sorted(set(list(range(256)) + [rng.randrange(1 << 16) for _ in range(4096)]))
            for code in codes:
                evals += 1
                b = Bits(uint=code, length=n)
                bitstring.options.lsb0 = False
                v0 = getattr(b, fmt)
                p0 = Dtype(fmt).parse(b)
                bitstring.options.lsb0 = True
                try:
                    v1 = getattr(b, fmt)
                    p1 = Dtype(fmt).parse(b)
                    r1 = bitstring.ConstBitStream(b).read(fmt)
                finally:
                    bitstring.options.lsb0 = False
                if not (same(v0, v1) and same(p0, p1) and same(v0, r1)):
                    fails.append({'call': f'{fmt} code {code:#x}: msb0 {v0!r}, lsb0 property {v1!r} / parse {p1!r} / read {r1!r}',
                                  'python': f"import bitstring\nb = bitstring.Bits(uint={code}, length={n})\nv0 = b.{fmt}\nbitstring.options.lsb0 = True\n"
                                            f"try:\n    v1 = b.{fmt}\nfinally:\n    bitstring.options.lsb0 = False\nFAILS = repr(v0) != repr(v1)\n"})
                    break
            vals = [0.0, 1.0, -1.5, 0.1, 3.0, 448.0, 1e9, -1e9, 2.0 ** -20, 0.75, 6.0, -0.0]
            for v in vals:
                try:
                    want = Dtype(fmt).build(v).bin
                except ValueError:
                    continue            # (e8m0 takes exact powers of two only)
                for prev in ('', '0b1', '0xab', '0xabcd', '0xabcdef'):
                    for cls in (BitArray, BitStream):
                        for lsb0 in (False, True):
                            evals += 1
                            x = cls(prev)
                            bitstring.options.lsb0 = lsb0
                            try:
                                setattr(x, fmt, v)
                                got = x.bin
                            except Exception as e:
                                got = type(e).__name__
                            finally:
                                bitstring.options.lsb0 = False
                            if got != want and len(fails) < 6:
                                fails.append({'call': f'x = {cls.__name__}({prev!r}); x.{fmt} = {v!r}' + (' under lsb0' if lsb0 else ''), 'observed': got, 'expected': want,
                                              'python': f"import bitstring\nx = bitstring.{cls.__name__}({prev!r})\nbitstring.options.lsb0 = {lsb0}\n"
                                                        f"try:\n    x.{fmt} = {v!r}\n    got = x.bin\nexcept Exception as e:\n    got = type(e).__name__\n"
                                                        f"finally:\n    bitstring.options.lsb0 = False\nFAILS = got != {want!r}\n"})
    finally:
        bitstring.options.lsb0 = saved
    return {'id': 'C11.numbering', 'obligations': [], 'evaluations': evals,
            'bounded': [{'id': 'C11/codecs/independent-of-bit-numbering-and-of-previous-content', 'qualname': 'bits.Bits._get*/_set* of the 8-bit, micro-scaling and bfloat formats',
                         'shape': 'codes x modes, values x previous contents', 'function': 'property / Dtype.parse / read under lsb0; property assignment over earlier content',
                         'bound': 'every 8-bit code, 4352 codes per bfloat spelling; 12 values x 5 previous contents x 2 classes x 2 modes', 'evaluations': evals, 'failures': fails[:3]}],
            'summary': f'{evals} points, {len(fails)} failures'}
